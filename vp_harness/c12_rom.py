"""C12 helper: machine-scenario ROM images built from hand-encoded instruction templates.

A *program spec* is JSON data: {"main": [slot, ...], "handler": [slot, ...], "hexit"?: kind} where a slot is a list
[template-name, arg?].  build() lays the main loop out at MAIN (followed by an unconditional JR back to its
first instruction) and the handler at HANDLER, followed by its exit ("hexit": "reti" = RETI (default), "reset" = the
RESET instruction, i.e. a firmware restart instead of a return, "halt" = HALT; RETI, "spin" = JR back to the
handler's first instruction, i.e. a handler that never returns), writes the interrupt vector (0xFFFFA) and the
reset vector (0xFFFFD), and returns the 256 KiB image for 0xC0000-0xFFFFF together with per-instruction
metadata used by the monitor (address -> kind, length, static successor, effect on IMR, whether it writes ISR,
which CPU registers it clobbers).

The only thing trusted here are the byte encodings; selftest() decodes every template with the repository's own
decoder and compares the rendered text and length with what the template table claims.
"""

from __future__ import annotations

from typing import Any, Dict, List, Optional, Tuple

ROM_BASE = 0xC0000
ROM_SIZE = 0x40000
MAIN = 0xC0100
HANDLER = 0xC0800
IRQ_VECTOR_ADDR = 0xFFFFA
RESET_VECTOR_ADDR = 0xFFFFD
STACK_TOP = 0xBFF00      # initial S (internal RAM window 0xB8000-0xBFFFF)
USTACK_TOP = 0xBFE00     # initial U
STACK_WINDOW = 48        # bytes below STACK_TOP dumped into every observation (default; scenario field "stkwin")
HEXITS = ("reti", "reset", "halt", "spin")   # handler exit kinds (program spec field "hexit"; absent = "reti")
SCRATCH = 0x10           # internal-memory scratch byte used by INCM

IMR = 0xFB
ISR = 0xFC
BP = 0xEC                # internal-memory base pointer and index registers used by the (BP+n)/(PX+n)/(PY+n) modes
PX = 0xED
PY = 0xEE
IM_LO = 0x00             # internal-memory window dumped into every observation: user RAM 00-EB and BP/PX/PY
IM_HI = 0xEF

# name -> (encoder(arg) -> bytes, text(arg) -> rendered disassembly)
_T: Dict[str, Tuple[Any, Any]] = {
    "NOP": (lambda a: b"\x00", lambda a: "NOP"),
    "RETI": (lambda a: b"\x01", lambda a: "RETI"),
    "RESET": (lambda a: b"\xff", lambda a: "RESET"),
    "HALT": (lambda a: b"\xde", lambda a: "HALT"),
    "OFF": (lambda a: b"\xdf", lambda a: "OFF"),
    "WAITI": (lambda a: b"\xef", lambda a: "WAIT"),
    "MVI": (lambda a: bytes([0x0B, a & 0xFF, (a >> 8) & 0xFF]), lambda a: f"MV    I, {a & 0xFFFF:04X}"),
    "IMR": (lambda a: bytes([0x30, 0xCC, IMR, a & 0xFF]), lambda a: f"MV    (IMR), {a & 0xFF:02X}"),
    "ISR": (lambda a: bytes([0x30, 0xCC, ISR, a & 0xFF]), lambda a: f"MV    (ISR), {a & 0xFF:02X}"),
    "ACK": (lambda a: bytes([0x30, 0x71, ISR, a & 0xFF]), lambda a: f"AND   (ISR), {a & 0xFF:02X}"),
    "ORIMR": (lambda a: bytes([0x30, 0x79, IMR, a & 0xFF]), lambda a: f"OR    (IMR), {a & 0xFF:02X}"),
    "ANDIMR": (lambda a: bytes([0x30, 0x71, IMR, a & 0xFF]), lambda a: f"AND   (IMR), {a & 0xFF:02X}"),
    "INCA": (lambda a: b"\x6c\x00", lambda a: "INC   A"),
    "INCM": (lambda a: bytes([0x30, 0x6D, a & 0xFF]), lambda a: f"INC   ({a & 0xFF:02X})"),
    "KIL": (lambda a: b"\x30\x80\xf2", lambda a: "MV    A, (KIL)"),
    "BPW": (lambda a: bytes([0x30, 0xCC, BP, a & 0xFF]), lambda a: f"MV    (BP), {a & 0xFF:02X}"),
    "PXW": (lambda a: bytes([0x30, 0xCC, PX, a & 0xFF]), lambda a: f"MV    (PX), {a & 0xFF:02X}"),
    "PYW": (lambda a: bytes([0x30, 0xCC, PY, a & 0xFF]), lambda a: f"MV    (PY), {a & 0xFF:02X}"),
    "JRB": (lambda a: bytes([0x13, a & 0xFF]), lambda a: f"JR    -{a & 0xFF:02X}"),
    # firmware stack set-up: MV S, imm20 (round 5; scenarios that start with the system stack pointer not yet loaded)
    "SETS": (lambda a: bytes([0x0F, a & 0xFF, (a >> 8) & 0xFF, (a >> 16) & 0x0F]), lambda a: f"MV    S, {a & 0xFFFFF:05X}"),
}

# slot name -> list of (template, arg-transform) it expands to
_SLOTS = {
    "NOP": ["NOP"], "HALT": ["HALT"], "OFF": ["OFF"], "IMR": ["IMR"], "ISR": ["ISR"], "ACK": ["ACK"],
    "ORIMR": ["ORIMR"], "ANDIMR": ["ANDIMR"], "INCA": ["INCA"], "INCM": ["INCM"], "KIL": ["KIL"],
    "WAIT": ["MVI", "WAITI"], "BPW": ["BPW"], "PXW": ["PXW"], "PYW": ["PYW"], "SETS": ["SETS"],
}


def encode(name: str, arg: int = 0) -> bytes:
    return _T[name][0](arg)


def text(name: str, arg: int = 0) -> str:
    return _T[name][1](arg)


def _meta(name: str, arg: int, addr: int, ln: int) -> Dict[str, Any]:
    # "imw": effect on the observed internal-memory window: None | ["set", offset, value] | ["inc", offset]
    m: Dict[str, Any] = {"kind": name, "arg": arg, "len": ln, "next": addr + ln, "imr": None, "isr_w": False,
                         "clob": [], "imw": None}
    if name == "IMR":
        m["imr"] = ["set", arg & 0xFF]
    elif name == "ORIMR":
        m["imr"] = ["or", arg & 0xFF]
    elif name == "ANDIMR":
        m["imr"] = ["and", arg & 0xFF]
    elif name in ("ISR", "ACK"):
        m["isr_w"] = True
    elif name == "INCM":
        m["imw"] = ["inc", arg & 0xFF]
    elif name in ("BPW", "PXW", "PYW"):
        m["imw"] = ["set", {"BPW": BP, "PXW": PX, "PYW": PY}[name], arg & 0xFF]
    elif name in ("INCA", "KIL"):
        m["clob"] = ["BA"]
    elif name in ("MVI", "WAITI"):
        m["clob"] = ["I"]
    elif name == "RETI":
        m["next"] = None
    elif name == "RESET":
        # soft restart: continues at a vector target (read from the observation, see c12_monitor); documented to
        # clear ISR (pysc62015.intrinsics.eval_intrinsic_reset docstring, llama/eval.rs power_on_reset)
        m["next"] = None
        m["isr_w"] = True
    return m


def layout(prog: Dict[str, Any]) -> Tuple[List[Tuple[int, bytes]], Dict[int, Dict[str, Any]]]:
    """-> (segments [(address, bytes)], metadata {address: meta})."""
    segs: List[Tuple[int, bytes]] = []
    meta: Dict[int, Dict[str, Any]] = {}

    def emit(base: int, slots: List[List[Any]], tail: str) -> None:
        addr = base
        out = bytearray()
        for slot in slots:
            sname = slot[0]
            arg = int(slot[1]) if len(slot) > 1 else 0
            for t in _SLOTS[sname]:
                b = encode(t, arg)
                meta[addr] = _meta(t, arg, addr, len(b))
                meta[addr]["region"] = "main" if base == MAIN else "handler"
                out += b
                addr += len(b)
        if tail == "loop":
            dist = (addr + 2) - base
            if dist > 0xFF:
                raise ValueError("main loop too long for JR")
            b = encode("JRB", dist)
            meta[addr] = _meta("JRB", dist, addr, 2)
            meta[addr]["next"] = base
            meta[addr]["region"] = "main"
        elif tail == "reti":
            b = encode("RETI")
            meta[addr] = _meta("RETI", 0, addr, 1)
            meta[addr]["region"] = "handler"
        elif tail == "reset":
            # the handler does not return: it restarts the firmware with the RESET instruction
            b = encode("RESET")
            meta[addr] = _meta("RESET", 0, addr, 1)
            meta[addr]["region"] = "handler"
        elif tail == "halt":
            # the handler falls into HALT and returns once woken
            b = encode("HALT") + encode("RETI")
            meta[addr] = _meta("HALT", 0, addr, 1)
            meta[addr]["region"] = "handler"
            meta[addr + 1] = _meta("RETI", 0, addr + 1, 1)
            meta[addr + 1]["region"] = "handler"
        elif tail == "spin":
            # long-running handler: loops over its body and never returns
            dist = (addr + 2) - base
            if dist > 0xFF:
                raise ValueError("handler too long for JR")
            b = encode("JRB", dist)
            meta[addr] = _meta("JRB", dist, addr, 2)
            meta[addr]["next"] = base
            meta[addr]["region"] = "handler"
        else:
            raise ValueError(f"unknown handler exit {tail!r}")
        out += b
        segs.append((base, bytes(out)))

    emit(MAIN, prog["main"], "loop")
    emit(HANDLER, prog["handler"], str(prog.get("hexit") or "reti"))
    segs.append((IRQ_VECTOR_ADDR, bytes([HANDLER & 0xFF, (HANDLER >> 8) & 0xFF, (HANDLER >> 16) & 0xFF])))
    segs.append((RESET_VECTOR_ADDR, bytes([MAIN & 0xFF, (MAIN >> 8) & 0xFF, (MAIN >> 16) & 0xFF])))
    return segs, meta


def initial_s(sc: Dict[str, Any]) -> int:
    """Initial system stack pointer of a scenario: STACK_TOP unless the scenario starts before the firmware has loaded
    S ("s0": 0..4 = not yet initialised; the program then contains a SETS slot = MV S,STACK_TOP)."""
    return int(sc.get("s0", STACK_TOP)) & 0xFFFFF


def stack_window(sc: Dict[str, Any]) -> int:
    """Size of the observed stack window of a scenario: handlers that do not return leak one 5-byte frame per
    delivery, so such scenarios ask for a larger window ("stkwin")."""
    return max(STACK_WINDOW, min(int(sc.get("stkwin") or STACK_WINDOW), 0x1000))


def image(segs: List[Tuple[int, bytes]]) -> bytes:
    rom = bytearray(ROM_SIZE)  # NOP fill
    for addr, data in segs:
        off = addr - ROM_BASE
        rom[off:off + len(data)] = data
    return bytes(rom)


def imem_init(sc: Dict[str, Any]) -> List[Tuple[int, bytes]]:
    """Initial internal-memory contents of a scenario as (offset, bytes) segments, identical for both models:
    optional pattern fill of the user RAM 00-EB ("imfill": seed) and the base/index registers BP, PX, PY."""
    segs: List[Tuple[int, bytes]] = []
    fill = sc.get("imfill")
    if fill is not None:
        segs.append((0x00, bytes(((i * 37) ^ (int(fill) * 11) ^ 0x5A) & 0xFF for i in range(BP))))
    for key, off in (("bp0", BP), ("px0", PX), ("py0", PY)):
        if sc.get(key) is not None:
            segs.append((off, bytes([int(sc[key]) & 0xFF])))
    return segs


def handler_clobbers(meta: Dict[int, Dict[str, Any]]) -> List[str]:
    out = set()
    for m in meta.values():
        if m.get("region") == "handler":
            out.update(m["clob"])
    return sorted(out)


def selftest() -> List[str]:
    """Decode every template with the repository's decoder; return a list of mismatches (empty = ok)."""
    from . import gen_enc as G

    bad: List[str] = []
    samples = [("NOP", 0), ("RETI", 0), ("RESET", 0), ("HALT", 0), ("OFF", 0), ("WAITI", 0), ("MVI", 0x0123), ("MVI", 7),
               ("IMR", 0x8F), ("IMR", 0x00), ("ISR", 0x00), ("ISR", 0x05), ("ACK", 0xFE), ("ORIMR", 0x80),
               ("ANDIMR", 0x7F), ("INCA", 0), ("INCM", SCRATCH), ("KIL", 0), ("JRB", 0x23),
               ("BPW", 0x10), ("PXW", 0xA5), ("PYW", 0xFF), ("SETS", STACK_TOP), ("SETS", 0x00003)]
    for name, arg in samples:
        b = encode(name, arg)
        r = G.text_of(b + G.NOP_PAD, MAIN)
        want = (text(name, arg), len(b))
        if r is None or (r[0].strip(), r[1]) != want:
            bad.append(f"{name}({arg:#x}) {b.hex()}: decoder says {r}, template says {want}")
    return bad
