"""C04 part (a): complete (a, b, carry-in) enumeration of the 8-bit ALU operations through their value paths.

Binary operations (256 x 256 x 2 each): ADD/SUB/ADC/SBC/AND/OR/XOR/CMP/TEST with `A,n` (values through the
accumulator and the immediate byte); one-byte ADCL/SBCL/DADL/DSBL `(m),(n)` with I = 1 and PMDF `(m),n` (values
through internal memory).  Unary operations (256 x 2 each): ROR/ROL/SHR/SHL/SWAP/INC/DEC on A and on (n).
Every triple goes through the same judge() as the random exploration (README reference vs. executed IL).
"""

from __future__ import annotations

from typing import Any, Dict, List, Tuple

from .core import Report, mix32
from . import c03_core as K
from . import c03_gen as GN
from . import gen_state as S

IMEM = 0x100000
PC = 0x02000
M_ADDR, N_ADDR = 0x40, 0x60          # internal cells used by the memory forms (BP = 0, no prefix -> (BP+n) = n)

# name -> (kind, opcode)
BINARY_A_IMM = {"ADD": 0x40, "SUB": 0x48, "ADC": 0x50, "SBC": 0x58, "AND": 0x70, "OR": 0x78, "XOR": 0x68,
                "CMP": 0x60, "TEST": 0x64}
BINARY_MEM_MEM = {"ADCL": 0x54, "SBCL": 0x5C, "DADL": 0xC4, "DSBL": 0xD4}
BINARY_MEM_IMM = {"PMDF": 0x47}
UNARY_A = {"ROR": 0xE4, "ROL": 0xE6, "SHR": 0xF4, "SHL": 0xF6, "SWAP": 0xEE}
UNARY_R = {"INC": 0x6C, "DEC": 0x7C}          # second byte 00 = register A
UNARY_MEM = {"ROR": 0xE5, "ROL": 0xE7, "SHR": 0xF5, "SHL": 0xF7, "INC": 0x6D, "DEC": 0x7D}

OPS: List[Tuple[str, str, int]] = (
    [("bin:A,n", k, v) for k, v in BINARY_A_IMM.items()] +
    [("bin:(m),(n)", k, v) for k, v in BINARY_MEM_MEM.items()] +
    [("bin:(m),n", k, v) for k, v in BINARY_MEM_IMM.items()] +
    [("un:A", k, v) for k, v in UNARY_A.items()] +
    [("un:r", k, v) for k, v in UNARY_R.items()] +
    [("un:(n)", k, v) for k, v in UNARY_MEM.items()]
)


def temp_junk(regs: Dict[str, int], h: int) -> bool:
    """Lifter scratch registers TEMP0..TEMP13 at instruction entry: generated junk for half of the cases (a pure
    function of the case hash).  They are part of the Python register file and keep whatever earlier instructions
    left in them; the documented result is a function of the architectural inputs only."""
    if not (mix32(h, 0x7E) & 1):
        return False
    for i in range(14):
        v = mix32(h, 0x7E, i + 1)
        k = v >> 28
        regs[f"TEMP{i}"] = 0 if k < 2 else (v & 0xFF) if k < 4 else 0xFFFFFF if k < 6 else (v & 0xFFFFFF)
    return True


def place_and_prior(case: Dict[str, Any], code: bytes, h: int) -> Dict[str, Any]:
    """Two dimensions of the random exploration, here as pure functions of the case hash: where the instruction sits
    (1/16 of the cases: a byte offset 1..len-1 of the encoding -- len 1: the byte behind it -- is the first byte of a
    new 64 KiB page) and what the emulator object did before (1/8 of the cases: c03_gen.draw_prior, never 'nothing')."""
    h2 = mix32(h, 0x9A6E)
    if h2 % 16 == 0:
        k = 1 + (h2 >> 8) % max(1, len(code) - 1)
        pc = ((1 + (h2 >> 12) % 15) << 16) - k
        old = case["regs"]["PC"]
        case["mem"] = [m for m in case["mem"] if not old <= m[0] < old + len(code) + 8]
        case["mem"] += [[pc + i, byte] for i, byte in enumerate(code + bytes(8))]
        case["regs"]["PC"] = pc
    if (h2 >> 4) % 8 == 0:
        prior, _ = GN.draw_prior(S.Stream(h, 0x9810), GN.opcodes(), case["regs"]["PC"], force=True)
        if prior is not None:
            case["prior"] = prior
    return case


def dim_labels(case: Dict[str, Any], length: int) -> List[str]:
    pc = case["regs"]["PC"]
    lab = ["temps:junk" if K.has_temp_junk(case) else "temps:clear"]
    lab.append("page:straddles" if (pc & 0xFFFF) + max(1, length) > 0x10000 else
               "page:ends-at-boundary" if (pc & 0xFFFF) + max(1, length) == 0x10000 else "page:inside")
    p = case.get("prior")
    lab.append(f"prior:{p['kind']}/{p['via']}" if p else "prior:none")
    return lab


def build_case(form: str, opcode: int, a: int, b: int, cin: int, salt: int) -> Dict[str, Any]:
    """Fully expanded case dict for one operand triple; the untouched state (other registers, F bits 2..7, memory
    fill seed) varies with the triple so that the frame condition is exercised too."""
    h = mix32(salt, opcode, a, b, cin)
    regs = {"BA": ((h >> 8) & 0xFF00) | a, "I": 1, "X": 0x10000 + (h & 0xFFFF), "Y": 0x20000 + ((h >> 4) & 0xFFFF),
            "U": 0x30000 + ((h >> 8) & 0xFFFF), "S": 0x40000 + ((h >> 12) & 0xFFFF), "PC": PC,
            "F": ((h >> 24) & 0xFC) | ((h >> 3) & 2) | cin}
    mem: List[List[int]] = []
    if form == "bin:A,n":
        code = bytes([opcode, b])
    elif form == "bin:(m),(n)":
        code = bytes([opcode, M_ADDR, N_ADDR])
        regs["BA"] = (h >> 8) & 0xFFFF
        mem += [[IMEM + M_ADDR, a], [IMEM + N_ADDR, b]]
    elif form == "bin:(m),n":
        code = bytes([opcode, M_ADDR, b])
        regs["BA"] = (h >> 8) & 0xFFFF
        mem += [[IMEM + M_ADDR, a]]
    elif form == "un:A":
        code = bytes([opcode])
    elif form == "un:r":
        code = bytes([opcode, 0x00])
    elif form == "un:(n)":
        code = bytes([opcode, M_ADDR])
        regs["BA"] = (h >> 8) & 0xFFFF
        mem += [[IMEM + M_ADDR, a]]
    else:
        raise ValueError(form)
    for i, byte in enumerate(code + bytes(8)):
        mem.append([PC + i, byte])
    mem += [[IMEM + 0xEC, 0], [IMEM + 0xED, 0x11], [IMEM + 0xEE, 0x22]]
    temp_junk(regs, h)
    return place_and_prior({"regs": regs, "power": "running", "seed": h, "mem": mem, "steps": 1}, code, h)


def enum_shard(task: Tuple[int, int, int, int]) -> Report:
    """task = (shard, nshards, seed, slice_den): every operation, the (a,b,cin) triples with index % nshards == shard;
    slice_den > 1 keeps only the seeded 1/slice_den slice (quick tier) plus the boundary grid."""
    shard, nshards, seed, den = task
    seed = mix32(seed, 0xC04A)       # decorrelate neighbouring VERIF_SEED values (mix32 xors its first argument in)
    rep = Report()
    grid = (0x00, 0x01, 0x0F, 0x10, 0x7F, 0x80, 0x99, 0x9A, 0xF0, 0xFF)
    for oi, (form, name, opcode) in enumerate(OPS):
        unary = form.startswith("un")
        brange = (0,) if unary else range(256)
        idx = 0
        for a in range(256):
            for b in brange:
                for cin in (0, 1):
                    idx += 1
                    if idx % nshards != shard:
                        continue
                    if den > 1 and not unary:
                        if mix32(seed, oi, a, b, cin) % den != 0 and not (a in grid and b in grid):
                            continue
                    case = build_case(form, opcode, a, b, cin, seed)
                    j = K.judge(case)
                    lab = [f"enum:{name} {form.split(':')[1]}"] + dim_labels(case, j.length)
                    if j.status == "skip":
                        lab.append("skip:" + j.reason)
                    elif j.status != "ok":
                        lab.append("status:" + j.status)
                    nt = None
                    if j.status == "ok":
                        for v in K.violations_for("C04", case, j):
                            rep.violate(v)
                        if j.nontrivial:
                            nt = (oi << 17) | (a << 9) | (b << 1) | cin
                            for kd in set(j.nontrivial):
                                lab.append("nt:" + kd)
                    sample = None
                    if rep.evaluations % 40009 == 11:
                        sample = {"op": name, "form": form, "a": a, "b": b, "cin": cin, "text": j.text, "status": j.status}
                    rep.case(nt, lab, sample)
    return rep


# --------------------------------------------------------------------------------------------------
# part (b'): boundary grids for the 16/20/24-bit forms (DESIGN C04 Gen (b))
# --------------------------------------------------------------------------------------------------

G8 = (0x00, 0x01, 0x0F, 0x10, 0x7F, 0x80, 0xFE, 0xFF)
G16 = (0x0000, 0x0001, 0x00FF, 0x0100, 0x7FFF, 0x8000, 0xFF00, 0xFFFE, 0xFFFF)
G20 = (0x00000, 0x00001, 0x000FF, 0x0FFFF, 0x10000, 0x7FFFF, 0x80000, 0xFFF00, 0xFFFFE, 0xFFFFF)
REGCODE = {"A": 0, "IL": 1, "BA": 2, "I": 3, "X": 4, "Y": 5, "U": 6, "S": 7}
RW = {"A": 1, "IL": 1, "BA": 2, "I": 2, "X": 3, "Y": 3, "U": 3, "S": 3}


def _grid(w: int) -> Tuple[int, ...]:
    return {1: G8, 2: G16, 3: G20}[w]


def _setreg(regs: Dict[str, int], name: str, v: int) -> None:
    if name == "A":
        regs["BA"] = (regs["BA"] & 0xFF00) | (v & 0xFF)
    elif name == "IL":
        regs["I"] = (regs["I"] & 0xFF00) | (v & 0xFF)
    else:
        regs[name] = v


def grid_cases(seed: int) -> List[Tuple[str, Dict[str, Any]]]:
    out: List[Tuple[str, Dict[str, Any]]] = []

    def base(code: bytes, h: int) -> Dict[str, Any]:
        regs = {"BA": (h >> 3) & 0xFFFF, "I": (h >> 7) & 0xFFFF, "X": 0x10000 + (h & 0xFFFF), "Y": 0x20000 + ((h >> 4) & 0xFFFF),
                "U": 0x30000 + ((h >> 8) & 0xFFFF), "S": 0x40000 + ((h >> 12) & 0xFFFF), "PC": PC, "F": (h >> 20) & 0xFF}
        mem = [[PC + i, byte] for i, byte in enumerate(code + bytes(8))]
        mem += [[IMEM + 0xEC, 0], [IMEM + 0xED, 0x11], [IMEM + 0xEE, 0x22]]
        temp_junk(regs, h)
        return place_and_prior({"regs": regs, "power": "running", "seed": h, "mem": mem, "steps": 1}, code, h)

    # ADD/SUB register pairs documented in the README rows
    pairs: List[Tuple[int, str, str]] = []
    for op in (0x46, 0x4E):
        pairs += [(op, d, s) for d in ("A", "IL") for s in ("A", "IL")]
    for op in (0x44, 0x4C):
        pairs += [(op, d, s) for d in ("BA", "I") for s in ("A", "IL", "BA", "I")]
    for op in (0x45, 0x4D):
        pairs += [(op, d, s) for d in ("X", "Y", "U", "S") for s in ("A", "IL", "BA", "I", "X", "Y", "U", "S")]
    for op, d, s in pairs:
        code = bytes([op, (REGCODE[d] << 4) | REGCODE[s]])
        for va in _grid(RW[d]):
            for vb in _grid(RW[s]):
                if d == s and va != vb:
                    continue
                # sub-registers of the same pair (A/BA, IL/I) overlap: set the wider one first
                c = base(code, mix32(seed, op, REGCODE[d], REGCODE[s], va, vb))
                order = sorted([(d, va), (s, vb)], key=lambda t: -RW[t[0]])
                for nm, v in order:
                    _setreg(c["regs"], nm, v)
                out.append((f"grid:{'ADD' if op < 0x48 else 'SUB'} pair", c))
    # INC / DEC r
    for op in (0x6C, 0x7C):
        for r, code_r in REGCODE.items():
            for v in _grid(RW[r]):
                c = base(bytes([op, code_r]), mix32(seed, op, code_r, v))
                _setreg(c["regs"], r, v)
                out.append((f"grid:{'INC' if op == 0x6C else 'DEC'} r", c))
    # CMPW / CMPP (m),(n) and (m),r : values equal / differing in one byte only
    for op, w in ((0xC6, 2), (0xC7, 3)):
        vals = G16 if w == 2 else (0x000000, 0x000001, 0x0000FF, 0x00FF00, 0x010000, 0x7FFFFF, 0x800000, 0xFF0000, 0xFFFFFF)
        for va in vals:
            for vb in vals:
                c = base(bytes([op, M_ADDR, N_ADDR]), mix32(seed, op, va, vb))
                for i in range(w):
                    c["mem"].append([IMEM + M_ADDR + i, (va >> (8 * i)) & 0xFF])
                    c["mem"].append([IMEM + N_ADDR + i, (vb >> (8 * i)) & 0xFF])
                out.append((f"grid:{'CMPW' if w == 2 else 'CMPP'} (m),(n)", c))
    for op, w, regs_ in ((0xD6, 2, ("BA", "I")), (0xD7, 3, ("X", "Y", "U", "S"))):
        vals = G16 if w == 2 else G20
        for r in regs_:
            for va in vals:
                for vb in vals:
                    c = base(bytes([op, REGCODE[r], M_ADDR]), mix32(seed, op, REGCODE[r], va, vb))
                    for i in range(w):
                        c["mem"].append([IMEM + M_ADDR + i, (va >> (8 * i)) & 0xFF])
                    _setreg(c["regs"], r, vb)
                    out.append((f"grid:{'CMPW' if w == 2 else 'CMPP'} (m),r", c))
    # the other 8-bit encodings of the binary operations: (m),n ; A,(n) ; (n),A ; (m),(n) on the boundary grid x carry
    g = (0x00, 0x01, 0x0F, 0x10, 0x7F, 0x80, 0x99, 0x9A, 0xF0, 0xFF)
    forms = {
        "ADD": (0x41, 0x42, 0x43, None), "SUB": (0x49, 0x4A, 0x4B, None), "ADC": (0x51, 0x52, 0x53, None),
        "SBC": (0x59, 0x5A, 0x5B, None), "AND": (0x71, 0x77, 0x73, 0x76), "OR": (0x79, 0x7F, 0x7B, 0x7E),
        "XOR": (0x69, 0x6F, 0x6B, 0x6E), "CMP": (0x61, None, 0x63, 0xB7), "TEST": (0x65, None, 0x67, None),
    }
    for name, (f_mi, f_am, f_ma, f_mm) in forms.items():
        for a in g:
            for b in g:
                for cin in (0, 1):
                    h = mix32(seed, 0x700 + len(name), a, b, cin)
                    if f_mi is not None:
                        c = base(bytes([f_mi, M_ADDR, b]), h)
                        c["mem"].append([IMEM + M_ADDR, a])
                        c["regs"]["F"] = (c["regs"]["F"] & 0xFE) | cin
                        out.append((f"grid:{name} (m),n", c))
                    if f_am is not None:
                        c = base(bytes([f_am, N_ADDR]), h)
                        c["mem"].append([IMEM + N_ADDR, b])
                        _setreg(c["regs"], "A", a)
                        c["regs"]["F"] = (c["regs"]["F"] & 0xFE) | cin
                        out.append((f"grid:{name} A,(n)", c))
                    if f_ma is not None:
                        c = base(bytes([f_ma, M_ADDR]), h)
                        c["mem"].append([IMEM + M_ADDR, a])
                        _setreg(c["regs"], "A", b)
                        c["regs"]["F"] = (c["regs"]["F"] & 0xFE) | cin
                        out.append((f"grid:{name} (n),A", c))
                    if f_mm is not None:
                        c = base(bytes([f_mm, M_ADDR, N_ADDR]), h)
                        c["mem"] += [[IMEM + M_ADDR, a], [IMEM + N_ADDR, b]]
                        c["regs"]["F"] = (c["regs"]["F"] & 0xFE) | cin
                        out.append((f"grid:{name} (m),(n)", c))
    # external-memory RMW forms  AND/OR/XOR/CMP/TEST [lmn],n
    for name, op in (("AND", 0x72), ("OR", 0x7A), ("XOR", 0x6A), ("CMP", 0x62), ("TEST", 0x66)):
        for a in g:
            for b in g:
                h = mix32(seed, op, a, b)
                c = base(bytes([op, 0x34, 0x12, 0x05, b]), h)
                c["mem"].append([0x51234, a])
                out.append((f"grid:{name} [lmn],n", c))
    return out


def grid_shard(task: Tuple[int, int, int]) -> Report:
    shard, nshards, seed = task
    seed = mix32(seed, 0xC04B)
    rep = Report()
    for i, (label, case) in enumerate(grid_cases(seed)):
        if i % nshards != shard:
            continue
        j = K.judge(case)
        lab = [label] + dim_labels(case, j.length)
        if j.status == "skip":
            lab.append("skip:" + j.reason)
        elif j.status != "ok":
            lab.append("status:" + j.status + ":" + j.mn)
        nt = None
        if j.status == "ok":
            for v in K.violations_for("C04", case, j):
                rep.violate(v)
            if j.nontrivial:
                nt = "g:" + K.jhash([case["regs"], case["mem"][:14]], 10)
                for kd in set(j.nontrivial):
                    lab.append("nt:" + kd)
        sample = None
        if rep.evaluations % 997 == 3:
            sample = {"grid": label, "text": j.text, "regs": case["regs"], "status": j.status}
        rep.case(nt, lab, sample)
    return rep
