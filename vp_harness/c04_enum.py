"""C04 part (a): complete (a, b, carry-in) enumeration of the 8-bit ALU operations through their value paths.

Binary operations (256 x 256 x 2 each): ADD/SUB/ADC/SBC/AND/OR/XOR/CMP/TEST with `A,n` (values through the
accumulator and the immediate byte); one-byte ADCL/SBCL/DADL/DSBL `(m),(n)` with I = 1 and PMDF `(m),n` (values
through internal memory).  Unary operations (256 x 2 each): ROR/ROL/SHR/SHL/SWAP/INC/DEC on A and on (n).
Every triple goes through the same judge() as the random exploration (README reference vs. executed IL).
"""

from __future__ import annotations

from typing import Any, Dict, List, Tuple

from .core import Report, mix32
from . import c03_core as K

IMEM = 0x100000
PC = 0x02000
M_ADDR, N_ADDR = 0x40, 0x60          # internal cells used by the memory forms (BP = 0, no prefix -> (BP+n) = n)

# name -> (kind, opcode)
BINARY_A_IMM = {"ADD": 0x40, "SUB": 0x48, "ADC": 0x50, "SBC": 0x58, "AND": 0x70, "OR": 0x78, "XOR": 0x68,
                "CMP": 0x60, "TEST": 0x64}
BINARY_MEM_MEM = {"ADCL": 0x54, "SBCL": 0x5C, "DADL": 0xC4, "DSBL": 0xD4}
BINARY_MEM_IMM = {"PMDF": 0x47}
UNARY_A = {"ROR": 0xE4, "ROL": 0xE6, "SHR": 0xF4, "SHL": 0xF6, "SWAP": 0xEE}
UNARY_R = {"INC": 0x6C, "DEC": 0x7C}          # second byte 00 = register A
UNARY_MEM = {"ROR": 0xE5, "ROL": 0xE7, "SHR": 0xF5, "SHL": 0xF7, "INC": 0x6D, "DEC": 0x7D}

OPS: List[Tuple[str, str, int]] = (
    [("bin:A,n", k, v) for k, v in BINARY_A_IMM.items()] +
    [("bin:(m),(n)", k, v) for k, v in BINARY_MEM_MEM.items()] +
    [("bin:(m),n", k, v) for k, v in BINARY_MEM_IMM.items()] +
    [("un:A", k, v) for k, v in UNARY_A.items()] +
    [("un:r", k, v) for k, v in UNARY_R.items()] +
    [("un:(n)", k, v) for k, v in UNARY_MEM.items()]
)


def build_case(form: str, opcode: int, a: int, b: int, cin: int, salt: int) -> Dict[str, Any]:
    """Fully expanded case dict for one operand triple; the untouched state (other registers, F bits 2..7, memory
    fill seed) varies with the triple so that the frame condition is exercised too."""
    h = mix32(salt, opcode, a, b, cin)
    regs = {"BA": ((h >> 8) & 0xFF00) | a, "I": 1, "X": 0x10000 + (h & 0xFFFF), "Y": 0x20000 + ((h >> 4) & 0xFFFF),
            "U": 0x30000 + ((h >> 8) & 0xFFFF), "S": 0x40000 + ((h >> 12) & 0xFFFF), "PC": PC,
            "F": ((h >> 24) & 0xFC) | ((h >> 3) & 2) | cin}
    mem: List[List[int]] = []
    if form == "bin:A,n":
        code = bytes([opcode, b])
    elif form == "bin:(m),(n)":
        code = bytes([opcode, M_ADDR, N_ADDR])
        regs["BA"] = (h >> 8) & 0xFFFF
        mem += [[IMEM + M_ADDR, a], [IMEM + N_ADDR, b]]
    elif form == "bin:(m),n":
        code = bytes([opcode, M_ADDR, b])
        regs["BA"] = (h >> 8) & 0xFFFF
        mem += [[IMEM + M_ADDR, a]]
    elif form == "un:A":
        code = bytes([opcode])
    elif form == "un:r":
        code = bytes([opcode, 0x00])
    elif form == "un:(n)":
        code = bytes([opcode, M_ADDR])
        regs["BA"] = (h >> 8) & 0xFFFF
        mem += [[IMEM + M_ADDR, a]]
    else:
        raise ValueError(form)
    for i, byte in enumerate(code + bytes(8)):
        mem.append([PC + i, byte])
    mem += [[IMEM + 0xEC, 0], [IMEM + 0xED, 0x11], [IMEM + 0xEE, 0x22]]
    return {"regs": regs, "power": "running", "seed": h, "mem": mem, "steps": 1}


def enum_shard(task: Tuple[int, int, int, int]) -> Report:
    """task = (shard, nshards, seed, slice_den): every operation, the (a,b,cin) triples with index % nshards == shard;
    slice_den > 1 keeps only the seeded 1/slice_den slice (quick tier) plus the boundary grid."""
    shard, nshards, seed, den = task
    rep = Report()
    grid = (0x00, 0x01, 0x0F, 0x10, 0x7F, 0x80, 0x99, 0x9A, 0xF0, 0xFF)
    for oi, (form, name, opcode) in enumerate(OPS):
        unary = form.startswith("un")
        brange = (0,) if unary else range(256)
        idx = 0
        for a in range(256):
            for b in brange:
                for cin in (0, 1):
                    idx += 1
                    if idx % nshards != shard:
                        continue
                    if den > 1 and not unary:
                        if mix32(seed, oi, a, b, cin) % den != 0 and not (a in grid and b in grid):
                            continue
                    case = build_case(form, opcode, a, b, cin, seed)
                    j = K.judge(case)
                    lab = [f"enum:{name} {form.split(':')[1]}"]
                    if j.status == "skip":
                        lab.append("skip:" + j.reason)
                    elif j.status != "ok":
                        lab.append("status:" + j.status)
                    nt = None
                    if j.status == "ok":
                        for v in K.violations_for("C04", case, j):
                            rep.violate(v)
                        if j.nontrivial:
                            nt = (oi << 17) | (a << 9) | (b << 1) | cin
                            for kd in set(j.nontrivial):
                                lab.append("nt:" + kd)
                    sample = None
                    if rep.evaluations % 40009 == 11:
                        sample = {"op": name, "form": form, "a": a, "b": b, "cin": cin, "text": j.text, "status": j.status}
                    rep.case(nt, lab, sample)
    return rep
