"""Runner: tiers, seeds, exit codes, known-finding matching, replay files, evidence.

usage: python -m vp_harness.runner <ID> [--tier quick|thorough] [--replay FILE]
"""

from __future__ import annotations

import argparse
import importlib
import json
import os
import sys
import time
import traceback
from typing import Any, Dict, List

from .core import ROOT, Ctx, HarnessError, Report, Violation, jhash, scramble_seed
from . import findings as F


def _write_evidence(ctx: Ctx, mod: Any, rep: Report, n_viol: int, known_excluded: Dict[str, int]) -> str:
    os.makedirs(os.path.join(ROOT, "evidence"), exist_ok=True)
    path = os.path.join(ROOT, "evidence", f"{ctx.prop}.json")
    coverage: Dict[str, Any] = {
        "evaluations": int(rep.evaluations),
        "distinct_nontrivial": int(len(rep.nontrivial)),
        "rule": rep.rule or getattr(mod, "RULE", ""),
        "samples": rep.samples[: Report.MAX_SAMPLES] or ["<no cases>"],
        "exhaustive": bool(rep.exhaustive),
        "labels": dict(sorted(rep.labels.items())),
        "filtered": int(rep.filtered),
        "known_excluded": known_excluded,
        "violating_cases_by_fingerprint": {k: int(v) for k, v in sorted(rep.violation_counts.items())},
        "inconclusive": rep.inconclusive,
    }
    coverage.update(rep.extra)
    ev = {
        "property_id": ctx.prop,
        "tier": ctx.tier,
        "seed": int(getattr(ctx, "seed_raw", ctx.seed)),
        "level": getattr(mod, "LEVEL", "exploration"),
        "coverage": coverage,
        "assumptions": rep.assumptions,
        "wall_s": round(time.time() - ctx.t0, 2),
        "violations": int(n_viol),
    }
    tmp = path + ".tmp"
    with open(tmp, "w") as fh:
        json.dump(ev, fh, indent=1, sort_keys=False, default=str)
        fh.write("\n")
    os.replace(tmp, path)
    return path


def _write_replay(ctx: Ctx, v: Violation) -> str:
    d = os.path.join(ROOT, "replays")
    os.makedirs(d, exist_ok=True)
    name = f"{ctx.prop}-{jhash(v.fingerprint, 10)}.json"
    path = os.path.join(d, name)
    with open(path, "w") as fh:
        json.dump({"property": ctx.prop, **v.to_json()}, fh, indent=1, default=str)
        fh.write("\n")
    return os.path.join("replays", name)


def main(argv: List[str]) -> int:
    ap = argparse.ArgumentParser()
    ap.add_argument("prop")
    ap.add_argument("--tier", default=os.environ.get("VERIF_TIER", "quick"), choices=["quick", "thorough"])
    ap.add_argument("--replay", default=None)
    ap.add_argument("--procs", type=int, default=int(os.environ.get("VERIF_PROCS", "16")))
    args = ap.parse_args(argv)
    prop = args.prop.upper()
    try:
        seed = int(os.environ.get("VERIF_SEED", "1") or "1")
    except ValueError:
        seed = 1
    # VERIF_SEED is scrambled once so that small seeds give unrelated streams (mix32 XORs its first inputs, so
    # raw (seed, index) pairs with equal XOR would collide); evidence reports the original value.
    ctx = Ctx(prop=prop, tier=args.tier, seed=scramble_seed(seed), procs=args.procs)
    ctx.seed_raw = seed

    try:
        mod = importlib.import_module(f"vp_harness.props.{prop.lower()}")
    except Exception:
        traceback.print_exc()
        print(f"HARNESS-ERROR property={prop} cannot import property module")
        return 2

    entries = F.load_findings(prop)

    # ---------------- replay of one saved case ----------------
    if args.replay:
        try:
            with open(args.replay) as fh:
                saved = json.load(fh)
            case = saved.get("case", saved)
            viols = mod.replay(ctx, case)
        except HarnessError as exc:
            print(f"HARNESS-ERROR property={prop} {exc}")
            return 2
        except Exception:
            traceback.print_exc()
            print(f"HARNESS-ERROR property={prop} replay crashed")
            return 2
        if viols:
            for v in viols:
                print(f"replay: {json.dumps(v.fingerprint)} :: {v.detail}")
            print(f"VIOLATION property={prop} replay={args.replay}")
            return 1
        print(f"replay: property={prop} case passes")
        return 0

    # ---------------- exploration ----------------
    import glob
    for old_replay in glob.glob(os.path.join(ROOT, "replays", f"{prop}-*.json")):
        try:
            os.remove(old_replay)
        except OSError:
            pass
    try:
        rep: Report = mod.run(ctx)
    except HarnessError as exc:
        print(f"HARNESS-ERROR property={prop} {exc}")
        return 2
    except Exception:
        traceback.print_exc()
        print(f"HARNESS-ERROR property={prop} exploration crashed")
        return 2

    known_excluded: Dict[str, int] = {}
    unknown: Dict[str, Violation] = {}
    seen_keys = set()
    for v in rep.violations:
        e = F.match_open(entries, v)
        k = v.key()
        if k in seen_keys:
            continue
        seen_keys.add(k)
        if e is not None:
            known_excluded[e["id"]] = known_excluded.get(e["id"], 0) + rep.violation_counts.get(k, 1)
        else:
            unknown[k] = v

    # Known-finding examples are replayed every run: the entry must still fail the same way.
    gone: List[str] = []
    for e in entries:
        if not F.is_open(e):
            continue
        ex = e.get("example")
        if ex is None or not hasattr(mod, "replay"):
            continue
        try:
            vs = mod.replay(ctx, ex)
        except Exception as exc:  # replay infrastructure problem is not a violation
            print(f"NOTE: known-finding example for {e['id']} could not be replayed: {exc!r}")
            continue
        if not any(F.entry_matches(e, v.fingerprint) for v in vs):
            gone.append(e["id"])
        else:
            known_excluded.setdefault(e["id"], 0)
        # An example that now fails in a *different*, unlisted way is a violation in its own right.
        for v in vs:
            if F.match_open(entries, v) is None and v.key() not in unknown:
                unknown[v.key()] = v

    reported = set()
    for e in entries:
        if F.is_open(e) and (e["id"] in known_excluded) and e["id"] not in gone:
            if e["id"] not in reported:
                reported.add(e["id"])
                print(f"KNOWN-FINDING: property={prop} {e['id']}: {e.get('summary', '')}"
                      f" [{known_excluded.get(e['id'], 0)} case(s) this run]")
    for gid in gone:
        print(f"KNOWN-FINDING-GONE: property={prop} {gid}: listed example no longer fails that way")

    # Shrink unknown buckets (module-specific, bounded), then write replay files.
    out_lines: List[str] = []
    shrink = getattr(mod, "shrink", None)
    for i, (k, v) in enumerate(sorted(unknown.items())):
        if shrink is not None and i < 5:
            try:
                v2 = shrink(ctx, v)
                if v2 is not None and v2.key() == k:
                    v = v2
            except Exception as exc:
                print(f"NOTE: shrinking failed ({exc!r}); keeping the original witness")
        path = _write_replay(ctx, v)
        print(f"violation: {json.dumps(v.fingerprint)} ({rep.violation_counts.get(k, 1)} case(s)) :: {v.detail}")
        out_lines.append(f"VIOLATION property={prop} replay={path}")

    ev_path = _write_evidence(ctx, mod, rep, len(unknown), known_excluded)
    for line in rep.inconclusive:
        print(f"INCONCLUSIVE: {line}")
    print(f"{prop} tier={ctx.tier} seed={getattr(ctx, 'seed_raw', ctx.seed)}: evaluations={rep.evaluations} "
          f"distinct_nontrivial={len(rep.nontrivial)} unknown_violation_classes={len(unknown)} "
          f"known_classes={len(reported)} wall={time.time() - ctx.t0:.1f}s evidence={os.path.relpath(ev_path, ROOT)}")
    for line in out_lines:
        print(line)
    sys.stdout.flush()
    return 1 if unknown else 0


if __name__ == "__main__":
    try:
        rc = main(sys.argv[1:])
    except SystemExit:
        raise
    except BaseException:
        traceback.print_exc()
        rc = 2
    sys.stdout.flush()
    os._exit(rc) if rc else sys.exit(0)
