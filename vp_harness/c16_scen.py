"""C16 scenario generator: ROM image (vectors, main loop, handler, subroutine) from hand-encoded
instruction templates + machine configuration + host-event schedule.

A scenario is a plain JSON-able dict (it *is* the replay case):

    {"rom": [[addr, hex], ...],            # sparse chunks inside 0xC0000..0xFFFFF, rest 00 (= NOP)
     "cfg": {"timer": {"enabled", "mti", "sti"}, "regs": {...}, "card": {"size", "fill"} | None,
             "xram": {"start", "size"} | None,  # RAM expansion (Python: expand_ram overlay; Rust: plain RAM)
             "windows": [[name, start, len], ...],      # bus reads compared after every step
             "probes": [[name, start, len], ...],       # bus reads compared at the snapshot point / after load
             "sweep": [offset, stride]},                # strided bus sample of the whole 1 MiB, same moments
     "events": {"<step>": [[kind, key_name, matrix_code], ...]},   # applied before that step
     "n": N, "k": K, "profile": str, "listing": [text, ...]}

Every emitted instruction is decoded with the repository's decoder (self-test): rendered text and length
must equal what the template claims, otherwise HarnessError (generator bug, exit 2).
"""

from __future__ import annotations

from typing import Any, Dict, List, Optional, Sequence, Tuple

from .core import HarnessError
from .gen_state import Stream

ROM_BASE = 0xC0000
MAIN = 0xC0000
HANDLER = 0xC0400
SUB = 0xC0800
RESET_VEC = 0xFFFFD
IRQ_VEC = 0xFFFFA

LOG_BASE = 0xB8100
LOG_LEN = 96
SCRATCH_RAM = 0xB8000
STACK_TOP = 0xBFF00
USTACK_TOP = 0xBFE00
CARD_BASE = 0x40010

IMR, ISR, KOL, KOH, KIL = 0xFB, 0xFC, 0xF0, 0xF1, 0xF2
USR, SSR, LCC, UCR, SCR = 0xF8, 0xFF, 0xFE, 0xF7, 0xFD
IMEM_NAMES = {0xFB: "IMR", 0xFC: "ISR", 0xF0: "KOL", 0xF1: "KOH", 0xF2: "KIL", 0xF8: "USR", 0xFF: "SSR",
              0xFE: "LCC", 0xF7: "UCR", 0xFD: "SCR", 0xF9: "RXD", 0xFA: "TXD", 0xEC: "BP", 0xED: "PX",
              0xEE: "PY", 0xEF: "AMC", 0xF3: "EOL", 0xF4: "EOH", 0xF5: "EIL", 0xF6: "EIH"}

WINDOWS = [["log", LOG_BASE, LOG_LEN], ["scratch", SCRATCH_RAM, 16], ["stack", STACK_TOP - 48, 48],
           ["ustack", USTACK_TOP - 8, 8], ["card", CARD_BASE, 8]]

# Architectural regions of the 1 MiB external space (pce500/memory.py overlays, sc62015/core/src/pce500.rs map).
# The LCD controller windows are the only addresses whose *read* changes device state; they are never probed.
LCD_WINDOWS = ((0x02000, 0x02FFF), (0x0A000, 0x0AFFF))
CARD_START, CARD_END = 0x40000, 0x4FFFF
RAM_START = 0xB8000
ROM_START, ROM_END = 0xC0000, 0xFFFFF
EDGE = 64  # bytes probed on each side of a region boundary
SWEEP_REGIONS = (("low", 0x00000, 0x3FFFF), ("card", 0x40000, 0x4FFFF), ("mid", 0x50000, 0xB7FFF),
                 ("ram", 0xB8000, 0xBFFFF), ("rom", 0xC0000, 0xFFFFF))
XRAM_STARTS = (0x50000, 0x60000, 0x78000)  # always below the 0x80000 mirror window
XRAM_SIZES = (0x800, 0x2000, 0x8000)

# key name -> (column, row) as in pce500/keyboard_matrix.py KEY_LOCATIONS (checked by selftest()).
KEYS = {"KEY_Q": (0, 1), "KEY_A": (0, 3), "KEY_W": (1, 0), "KEY_SPACE": (2, 6), "KEY_ENTER": (4, 7)}


def matrix_code(key: str) -> int:
    col, row = KEYS[key]
    return ((col & 0x0F) << 3) | (row & 7)


Instr = Tuple[bytes, str]  # (encoding, expected rendered text)


def _imem_txt(n: int) -> str:
    return IMEM_NAMES.get(n, f"{n:02X}")


def mv_imem_imm(n: int, v: int) -> Instr:
    return bytes([0x32, 0xCC, n, v]), f"MV    ({_imem_txt(n)}), {v:02X}"


def mv_a_imem(n: int) -> Instr:
    return bytes([0x32, 0x80, n]), f"MV    A, ({_imem_txt(n)})"


def mv_imem_a(n: int) -> Instr:
    return bytes([0x32, 0xA0, n]), f"MV    ({_imem_txt(n)}), A"


def mv_a_imm(v: int) -> Instr:
    return bytes([0x08, v]), f"MV    A, {v:02X}"


def mv_i_imm(v: int) -> Instr:
    return bytes([0x0B, v & 0xFF, (v >> 8) & 0xFF]), f"MV    I, {v:04X}"


def log_a() -> Instr:
    return bytes([0xB0, 0x24]), "MV    [X++], A"


def mv_abs_a(addr: int) -> Instr:
    return bytes([0xA8, addr & 0xFF, (addr >> 8) & 0xFF, (addr >> 16) & 0x0F]), f"MV    [{addr:05X}], A"


def mv_a_abs(addr: int) -> Instr:
    return bytes([0x88, addr & 0xFF, (addr >> 8) & 0xFF, (addr >> 16) & 0x0F]), f"MV    A, [{addr:05X}]"


def call(addr: int) -> Instr:
    return bytes([0x04, addr & 0xFF, (addr >> 8) & 0xFF]), f"CALL  {addr & 0xFFFF:04X}"


def callf(addr: int) -> Instr:
    return bytes([0x05, addr & 0xFF, (addr >> 8) & 0xFF, (addr >> 16) & 0x0F]), f"CALLF {addr & 0xFFFFF:05X}"


def jpf(addr: int) -> Instr:
    return bytes([0x03, addr & 0xFF, (addr >> 8) & 0xFF, (addr >> 16) & 0x0F]), f"JPF   {addr & 0xFFFFF:05X}"


def jr_back(n: int) -> Instr:
    return bytes([0x13, n]), f"JR    -{n:02X}"


def inc_imem(n: int) -> Instr:
    return bytes([0x32, 0x6D, n]), f"INC   ({_imem_txt(n)})"


NOP: Instr = (b"\x00", "NOP")
RETI: Instr = (b"\x01", "RETI")
RET: Instr = (b"\x06", "RET")
RETF: Instr = (b"\x07", "RETF")
HALT: Instr = (b"\xDE", "HALT")
OFF: Instr = (b"\xDF", "OFF")
WAIT: Instr = (b"\xEF", "WAIT")
SC: Instr = (b"\x97", "SC")
RC: Instr = (b"\x9F", "RC")
INC_A: Instr = (b"\x6C\x00", "INC   A")
PUSHS_F: Instr = (b"\x4F", "PUSHS F")
POPS_F: Instr = (b"\x5F", "POPS  F")
PUSHU_A: Instr = (b"\x28", "PUSHU A")
POPU_A: Instr = (b"\x38", "POPU  A")

_verified: Dict[bytes, str] = {}


def verify(ins: Instr) -> None:
    """Decode the template with the repository's decoder; text and length must match."""
    code, want = ins
    if _verified.get(code) == want:
        return
    from . import gen_enc as G

    r = G.text_of(code + G.NOP_PAD, 0xC0000)
    if r is None or r[1] != len(code) or r[0].strip() != want.strip():
        raise HarnessError(f"C16 template self-test failed: {code.hex()} expected {want!r} got {r!r}")
    _verified[code] = want


def selftest() -> None:
    from pce500.keyboard_matrix import KEY_LOCATIONS

    for k, (c, r) in KEYS.items():
        loc = KEY_LOCATIONS.get(k)
        if loc is None or (loc.column, loc.row) != (c, r):
            raise HarnessError(f"C16 key table out of date for {k}: {loc}")
    for ins in (NOP, RETI, RET, HALT, OFF, WAIT, SC, RC, INC_A, PUSHS_F, POPS_F, PUSHU_A, POPU_A, log_a(),
                mv_imem_imm(IMR, 0x85), mv_a_imem(KIL), mv_imem_a(0x10), mv_a_imm(0x55), mv_i_imm(3),
                mv_abs_a(0x2000), mv_a_abs(0x40010), call(SUB), jr_back(9), inc_imem(0x10), RETF, callf(0xD1234),
                jpf(0xE1234)):
        verify(ins)


PROFILES = ("timer-irq", "key-irq", "halt", "off-onk", "wait", "lcd", "card", "sio-usr", "mixed",
            "nested-irq", "key-flood", "edge-mem", "call-flow")

# WAIT idles I cycles (timers and the keyboard scan keep running): short counts exercise "timer about to fire",
# long counts let slow device state machines (debounce -> auto-repeat -> FIFO overflow) reach their late states.
WAIT_SHORT = (1, 2, 3, 4, 5, 6)
WAIT_LONG = (0x18, 0x30, 0x60, 0x90)


def edge_addresses(cfg_xram: Optional[Dict[str, int]]) -> List[int]:
    """Addresses a program may read: first/last bytes of every data-backed region."""
    out = [ROM_END, ROM_END - 1, ROM_END - 2, IRQ_VEC, ROM_START, ROM_START + 1, ROM_START - 1, RAM_START,
           CARD_END + 1, CARD_START - 1]
    if cfg_xram:
        x0 = int(cfg_xram["start"])
        x1 = x0 + int(cfg_xram["size"]) - 1
        out += [x0, x1, x1 - 1, x1 + 1]
    return out


def probes_for(card: Optional[Dict[str, int]], xram: Optional[Dict[str, int]]) -> List[List[Any]]:
    """[name, start, len] bus ranges around every region boundary (never inside an LCD window)."""
    pr: List[List[Any]] = [
        ["bus:low-start", 0x00000, EDGE],
        ["bus:card-start", CARD_START - EDGE, 2 * EDGE],
        ["bus:card-end", CARD_END + 1 - EDGE, 2 * EDGE],
        ["bus:ram-start", RAM_START - EDGE, 2 * EDGE],
        ["bus:rom-start", ROM_START - EDGE, 2 * EDGE],
        ["bus:rom-end", ROM_END + 1 - EDGE, EDGE],
        ["bus:mirror-start", 0x80000 - EDGE, 2 * EDGE],
    ]
    if card:
        pr.append(["bus:card-image-end", CARD_START + int(card["size"]) - EDGE, 2 * EDGE])
    if xram:
        x0 = int(xram["start"])
        x1 = x0 + int(xram["size"])
        pr.append(["bus:xram-start", x0 - EDGE, 2 * EDGE])
        pr.append(["bus:xram-end", x1 - EDGE, 2 * EDGE])
    return pr


def _lcd_ops(st: Stream) -> List[Instr]:
    """A short LCD command: instruction or data write to both/left/right chip, or a status/data read."""
    r = st.below(10)
    if r < 3:  # instruction write: on/off, set page, set y, start line
        val = st.choice((0x3F, 0x3E, 0xB8 | st.below(8), 0x40 | st.below(64), 0xC0 | st.below(64)))
        addr = st.choice((0x2000, 0x2004, 0x2008, 0xA000))
        return [mv_a_imm(val), mv_abs_a(addr)]
    if r < 7:  # data write
        addr = st.choice((0x2002, 0x2006, 0x200A, 0xA002))
        return [mv_a_imm(st.byte()), mv_abs_a(addr)]
    if r < 9:  # status read (busy flag / on-off) -> log
        addr = st.choice((0x2005, 0x2009))
        return [mv_a_abs(addr), log_a()]
    addr = st.choice((0x2007, 0x200B))  # data read -> log
    return [mv_a_abs(addr), log_a()]


# ---------------------------------------------------------------------------------------------------------
# control-flow skeletons (round 5): what the scenario program *does* between two snapshot points
# ---------------------------------------------------------------------------------------------------------
# A generated call graph (DAG) of routines spread over the four 64 KiB pages of the ROM window.  A routine is
# entered either by a near CALL (16-bit return address on the stack, the page is implicit) or by CALLF (20-bit
# return address); its body is work items, calls of further routines (near: in the page currently executing;
# far: anywhere), optional JPF continuations into another page, and it ends with the matching RET / RETF --
# directly or through a shared tail (several routines JPF into the same RET / RETF tail).  The executor state
# behind this (return addresses on the S stack, but also whatever bookkeeping an implementation keeps per call
# frame: depth counters, page of the caller, ...) becomes part of "the reachable machine state" at every
# snapshot point inside the graph.
#
# RET combines the popped 16 bits with a page.  The program is written so that it is well defined whichever page
# that is: for every near-CALL return offset r (called from page P) every other ROM page holds `JPF P:r` at the
# same offset r ("page-return pad").  Chunk slots are allocated from one offset space shared by all pages, so a
# pad never collides with code.
FLOW_PAGES = (0xC0000, 0xD0000, 0xE0000, 0xF0000)
FLOW_SLOT0, FLOW_SLOT_SIZE, FLOW_SLOTS = 0x1000, 0x40, 120  # offsets 0x1000..0x2DFF of every page
FLOW_MAX_DEPTH = 3
FLOW_MAX_ROUTINES = 9


class Flow:
    def __init__(self, st: Stream, work: Any) -> None:
        self.st = st
        self.work = work  # callable -> List[Instr]: one work item
        order = list(range(FLOW_SLOTS))
        for i in range(len(order) - 1, 0, -1):  # seeded shuffle
            j = st.below(i + 1)
            order[i], order[j] = order[j], order[i]
        self._slots = order
        self.chunks: List[Tuple[int, List[Instr], str]] = []  # (address, instructions, kind)
        self.ret_sites: List[Tuple[int, int]] = []  # (page of the near CALL, return offset)
        self.done: List[Dict[str, Any]] = []  # completed routines {"kind", "page", "entry", "depth"}
        self.tails: Dict[str, List[int]] = {"near": [], "far": []}
        self.count = 0

    def _slot(self) -> int:
        return FLOW_SLOT0 + self._slots.pop() * FLOW_SLOT_SIZE + self.st.below(8)

    def _tail(self, kind: str) -> int:
        st = self.st
        if self.tails[kind] and (len(self.tails[kind]) >= 2 or st.chance(1, 2)):
            return st.choice(self.tails[kind])
        addr = st.choice(FLOW_PAGES) | self._slot()
        code = self.work() + [RET if kind == "near" else RETF]
        self.chunks.append((addr, code, "ret-tail" if kind == "near" else "retf-tail"))
        self.tails[kind].append(addr)
        return addr

    def routine(self, kind: str, page: int, depth: int) -> int:
        """Build a routine entered by a near CALL (kind "near", must start in `page`) or CALLF; returns its entry."""
        st = self.st
        self.count += 1
        entry = page | self._slot()
        start, cur_page, code, size = entry, page, [], 0
        base_kind = f"{kind}-routine"

        def add(instrs: Sequence[Instr]) -> None:
            nonlocal size
            code.extend(instrs)
            size += sum(len(i[0]) for i in instrs)

        def flush() -> None:
            self.chunks.append((start, list(code), base_kind + ("" if (start & 0xF0000) == page else ":moved")))

        calls = 0
        for seg in range(1 + st.below(3)):
            if size > 0x18:
                break
            for _ in range(st.below(3)):
                add(self.work())
            if depth < FLOW_MAX_DEPTH and calls < 2 and st.chance(3, 4):
                calls += 1
                ckind = "near" if st.chance(1, 2) else "far"
                cands = [r for r in self.done if r["kind"] == ckind and (ckind == "far" or r["page"] == cur_page)]
                if cands and (self.count >= FLOW_MAX_ROUTINES or st.chance(1, 3)):
                    child = st.choice(cands)["entry"]  # shared callee (completed routines only: no cycles)
                elif self.count >= FLOW_MAX_ROUTINES:
                    child = None
                else:
                    child = self.routine(ckind, cur_page if ckind == "near" else st.choice(FLOW_PAGES), depth + 1)
                if child is not None and ckind == "near":
                    add([call(child)])
                    self.ret_sites.append((cur_page, (start + size) & 0xFFFF))
                    add([NOP])  # keeps return offsets >= 4 bytes apart (room for the page-return pads)
                elif child is not None:
                    add([callf(child)])
            if st.chance(1, 3):  # the routine continues in another page
                npage = st.choice([p for p in FLOW_PAGES if p != cur_page])
                nstart = npage | self._slot()
                add([jpf(nstart)])
                flush()
                start, cur_page, code, size = nstart, npage, [], 0
        if st.chance(2, 5):
            add([jpf(self._tail(kind))])  # return through a shared tail (any page)
        else:
            add(self.work() if st.chance(1, 2) else [])
            add([RET if kind == "near" else RETF])
        flush()
        self.done.append({"kind": kind, "page": page, "entry": entry, "depth": depth})
        return entry

    def call_item(self, page: int = MAIN & 0xF0000) -> List[Instr]:
        """A call of one of the root routines from code running in `page` (main loop / interrupt handler)."""
        st = self.st
        roots = [r for r in self.done if r["depth"] == 0 and (r["kind"] == "far" or r["page"] == page)]
        r = st.choice(roots)
        return [call(r["entry"]), NOP] if r["kind"] == "near" else [callf(r["entry"])]

    def note_near_calls(self, base: int, instrs: Sequence[Instr]) -> None:
        """Return sites of near CALLs placed outside the graph (main loop, handler)."""
        pos = base
        for code, _txt in instrs:
            pos += len(code)
            if code[0] == 0x04 and code != call(SUB)[0]:
                self.ret_sites.append((base & 0xF0000, pos & 0xFFFF))

    def emit(self, listing: List[str]) -> Tuple[List[List[Any]], List[List[Any]]]:
        """(rom chunks, [start, end, kind] ranges)"""
        rom: List[List[Any]] = []
        ranges: List[List[Any]] = []
        for addr, code, kind in self.chunks:
            blob = _emit(addr, code, listing)
            if len(blob) > FLOW_SLOT_SIZE - 8:
                raise HarnessError(f"C16 flow chunk of {len(blob)} bytes does not fit its slot")
            rom.append([addr, blob.hex()])
            ranges.append([addr, addr + len(blob), kind])
        for page, off in sorted(set(self.ret_sites)):
            for q in FLOW_PAGES:
                if q != page:
                    blob = _emit(q | off, [jpf(page | off)], listing)
                    rom.append([q | off, blob.hex()])
                    ranges.append([q | off, (q | off) + len(blob), "page-return"])
        return rom, ranges


def flow_kind(scen: Dict[str, Any], pc: int) -> Optional[str]:
    for a, b, kind in (scen.get("flow") or {}).get("ranges", []):
        if a <= pc < b:
            return str(kind)
    return None


def _body(st: Stream, profile: str, n_items: int, in_handler: bool, keys: Sequence[str],
          edges: Sequence[int] = (ROM_END,), xr: Tuple[int, int] = (0x50000, 0x51FFF),
          flow: Optional[Flow] = None) -> List[Instr]:
    out: List[Instr] = []
    w = {"nop": 2, "inc": 2, "kil": 2, "rd_imem": 2, "wr_imem": 2, "kol": 1, "lcd": 1, "card": 1, "ram": 1,
         "halt": 0, "off": 0, "wait": 0, "call": 1, "stack": 1, "flags": 1, "usr": 0, "isr_clr": 1,
         "imr": 1, "lcc": 0, "longwait": 0, "edge_rd": 1, "xram": 1, "flow": 0}
    if profile == "timer-irq":
        w.update(imr=3, isr_clr=2, rd_imem=3)
    elif profile == "key-irq":
        w.update(kil=5, kol=4, imr=2, isr_clr=3)
    elif profile == "halt":
        w.update(halt=4, imr=2, kol=2)
    elif profile == "off-onk":
        w.update(off=3, imr=2, halt=1)
    elif profile == "wait":
        w.update(wait=5, imr=2)
    elif profile == "lcd":
        w.update(lcd=9)
    elif profile == "card":
        w.update(card=7, ram=3)
    elif profile == "sio-usr":
        w.update(usr=5, lcc=3, kil=3, kol=2)
    elif profile == "mixed":
        w.update(halt=1, off=1, wait=1, lcd=2, card=2, usr=1, lcc=1, kil=3, kol=2, imr=2, longwait=1)
    elif profile == "nested-irq":
        w.update(imr=3, isr_clr=2, rd_imem=4, kil=1, wait=1)
    elif profile == "key-flood":
        # keys stay down and nobody drains the queue: no KIL reads, no strobe changes
        w.update(longwait=6, kil=0, kol=0, rd_imem=3, imr=0, isr_clr=1, wait=1)
    elif profile == "edge-mem":
        w.update(edge_rd=6, xram=6, ram=2, card=1)
    elif profile == "call-flow":
        w.update(flow=7, kil=3, imr=2, isr_clr=2, wait=1, stack=2)
    if in_handler:
        w.update(halt=0, off=0, wait=w["wait"] // 3, call=0, isr_clr=w["isr_clr"] + 3, kil=w["kil"] + 1,
                 longwait=0)
        if profile == "key-flood":
            w.update(kil=0, isr_clr=1)
        if profile == "nested-irq":
            # the only IMR write of this handler is the re-enable placed by generate()
            w.update(imr=0)
        if profile == "call-flow":
            w.update(flow=4)  # calls from inside the interrupt handler as well
    if flow is None:
        w.update(flow=0)
    kinds = [k for k, v in w.items() for _ in range(v)]
    while len(out) < n_items:
        kind = st.choice(kinds)
        if kind == "nop":
            out.append(NOP)
        elif kind == "inc":
            out.append(st.choice((INC_A, inc_imem(0x10 + st.below(4)))))
        elif kind == "kil":
            out += [mv_a_imem(KIL), log_a()]
        elif kind == "rd_imem":
            out += [mv_a_imem(st.choice((ISR, IMR, SSR, USR, LCC, 0x10, KOL, KOH, SCR))), log_a()]
        elif kind == "wr_imem":
            out.append(mv_imem_imm(0x10 + st.below(4), st.byte()))
        elif kind == "kol":
            cols = [KEYS[k][0] for k in keys] or [0]
            val = st.choice((0x00, 0xFF, 1 << st.choice(cols), 0x01 | (1 << st.choice(cols))))
            out.append(mv_imem_imm(KOL, val & 0xFF))
            if st.chance(1, 4):
                out.append(mv_imem_imm(KOH, st.choice((0x00, 0x07, 0x01))))
        elif kind == "imr":
            if profile == "nested-irq":  # keep the master bit and the ON-key/timer sources open
                out.append(mv_imem_imm(IMR, st.choice((0x8F, 0x8F, 0x8B, 0x8D, 0x89, 0x8E))))
            else:
                out.append(mv_imem_imm(IMR, st.choice((0x80, 0x85, 0x8F, 0x8F, 0x0F, 0x00, 0x81, 0x84, 0x88))))
        elif kind == "isr_clr":
            out.append(mv_imem_imm(ISR, st.choice((0x00, 0x00, 0x0B, 0x0E, 0x04, 0x01))))
        elif kind == "usr":
            out.append(mv_imem_imm(st.choice((USR, USR, UCR, SCR, SSR)), st.choice((0x00, 0x3F, 0xFF, 0x07, 0x20))))
        elif kind == "lcc":
            out.append(mv_imem_imm(LCC, st.choice((0x00, 0x04, 0x84, 0x80))))
        elif kind == "lcd":
            out += _lcd_ops(st)
        elif kind == "card":
            if st.chance(2, 3):
                out += [mv_a_imm(st.byte() | 1), mv_abs_a(CARD_BASE + st.below(8))]
            else:
                out += [mv_a_abs(CARD_BASE + st.below(8)), log_a()]
        elif kind == "ram":
            out += [mv_a_imm(st.byte()), mv_abs_a(SCRATCH_RAM + st.below(16))]
        elif kind == "halt":
            out.append(HALT)
        elif kind == "off":
            out.append(OFF)
        elif kind == "wait":
            out += [mv_i_imm(st.choice(WAIT_SHORT)), WAIT]
        elif kind == "longwait":
            out += [mv_i_imm(st.choice(WAIT_LONG)), WAIT]
        elif kind == "edge_rd":
            out += [mv_a_abs(st.choice(edges)), log_a()]
        elif kind == "xram":
            x0, x1 = xr
            addr = st.choice((x0, x1, x1, x1 - 1, x0 + 1 + st.below(max(1, x1 - x0 - 1))))
            if st.chance(2, 3):
                out += [mv_a_imm(st.byte() | 1), mv_abs_a(addr)]
            else:
                out += [mv_a_abs(addr), log_a()]
        elif kind == "call":
            out.append(call(SUB))
        elif kind == "flow":
            assert flow is not None
            out += flow.call_item()
        elif kind == "stack":
            out += st.choice(([PUSHS_F, SC, POPS_F], [PUSHU_A, INC_A, POPU_A]))
        elif kind == "flags":
            out.append(st.choice((SC, RC)))
    return out


def _emit(base: int, instrs: Sequence[Instr], listing: List[str]) -> bytes:
    blob = b""
    for ins in instrs:
        verify(ins)
        listing.append(f"{base + len(blob):05X}: {ins[0].hex():<10} {ins[1]}")
        blob += ins[0]
    return blob


# index -> profile slots: the two profiles whose target state is reached in only a fraction of the scenarios
# (a handler frame left over after a nested return; a completely full key queue) get extra slots
PROFILE_SLOTS = PROFILES + ("nested-irq", "nested-irq", "key-flood", "call-flow")


def generate(seed: int, index: int, n: int, k: int) -> Dict[str, Any]:
    st = Stream(seed, 0xC16, index)
    profile = PROFILE_SLOTS[index % len(PROFILE_SLOTS)] if st.chance(3, 4) else st.choice(PROFILE_SLOTS)
    keys = list(KEYS)
    nkeys = 1 + st.below(3)
    if profile == "key-flood":
        nkeys = 2 + st.below(2)
    used_keys = [keys[(st.below(len(keys)) + i) % len(keys)] for i in range(nkeys)]
    used_keys = sorted(set(used_keys))

    # memory configuration (decided first: the program reads/writes the region edges it defines)
    card = {"size": 8192, "fill": st.byte()} if (profile == "card" or st.chance(1, 4)) else None
    xram = None
    if profile == "edge-mem" or st.chance(1, 4):
        xram = {"start": st.choice(XRAM_STARTS), "size": st.choice(XRAM_SIZES)}
    xr = (xram["start"], xram["start"] + xram["size"] - 1) if xram else (0x50000, 0x51FFF)
    edges = edge_addresses(xram)

    listing: List[str] = []
    # prologue: interrupt mask, key strobes
    pro: List[Instr] = []
    imr0 = st.choice((0x8F, 0x8F, 0x85, 0x84, 0x81, 0x88, 0x0F, 0x00))
    if profile == "nested-irq":
        imr0 = st.choice((0x8F, 0x8F, 0x8B, 0x8D, 0x89))
    elif profile == "key-flood":
        # the main timer (whose tick scans the keyboard) is never delivered, so the main loop keeps running and
        # idling; the key interrupt is masked, or delivered to a handler that never reads KIL
        imr0 = st.choice((0x8A, 0x0B, 0x00, 0x88, 0x8A, 0x8C))
    pro.append(mv_imem_imm(IMR, imr0))
    if profile == "key-flood":
        pro.append(mv_imem_imm(KOL, 0xFF))
    elif profile in ("key-irq", "halt", "mixed", "sio-usr", "nested-irq") or st.chance(1, 2):
        cols = [KEYS[kname][0] for kname in used_keys]
        mask = 0
        for c in cols:
            if st.chance(3, 4):
                mask |= 1 << c
        pro.append(mv_imem_imm(KOL, mask & 0xFF))
    flow: Optional[Flow] = None
    if profile == "call-flow":
        def work() -> List[Instr]:
            r = st.below(8)
            if r == 0:
                return [NOP]
            if r == 1:
                return [INC_A]
            if r == 2:
                return [inc_imem(0x10 + st.below(4))]
            if r == 3:
                return [mv_a_imem(st.choice((0x10, 0x11, ISR, KIL, SSR, IMR))), log_a()]
            if r == 4:
                return [mv_a_imm(st.byte()), mv_abs_a(SCRATCH_RAM + st.below(16))]
            if r == 5:
                return [PUSHU_A, INC_A, POPU_A]
            if r == 6:
                return [st.choice((SC, RC))]
            return [INC_A, log_a()]

        flow = Flow(st, work)
        # root routines: at least one near root in the page of the main loop / handler and one far root
        flow.routine("near", MAIN & 0xF0000, 0)
        flow.routine("far", st.choice(FLOW_PAGES), 0)
        if st.chance(1, 2):
            flow.routine("near" if st.chance(1, 2) else "far", MAIN & 0xF0000, 0)
    body = _body(st, profile, 5 + st.below(9), False, used_keys, edges, xr, flow)
    # the profile's signature instruction is guaranteed to be in the main loop
    sig = {"halt": [HALT], "off-onk": [OFF], "wait": [mv_i_imm(st.choice(WAIT_SHORT)), WAIT],
           "key-flood": [mv_i_imm(st.choice(WAIT_LONG)), WAIT],
           }.get(profile)
    if flow is not None:
        # every root routine is called from the main loop at least once
        for r in [r for r in flow.done if r["depth"] == 0]:
            item = [call(r["entry"]), NOP] if r["kind"] == "near" else [callf(r["entry"])]
            if not any(i == item[0] for i in body):
                pos = st.below(len(body) + 1)
                while pos > 0 and body[pos - 1][0][0] == 0x04:  # never between a near CALL and its NOP
                    pos -= 1
                body = body[:pos] + item + body[pos:]
    if sig and not any(i[0] == sig[-1][0] for i in body):
        pos = st.below(len(body) + 1)
        body = body[:pos] + sig + body[pos:]
    body_len = sum(len(i[0]) for i in body)
    while body_len + 2 > 0xFF:  # JR -n reach
        body.pop()
        body_len = sum(len(i[0]) for i in body)
    loop = body + [jr_back(body_len + 2)]
    main_blob = _emit(MAIN, pro + loop, listing)
    if profile == "nested-irq":
        # the handler re-enables the master bit (and a generated subset of sources) near its start, so a second
        # request raised while it runs is delivered inside it
        # (mostly without the timer sources: the interrupted handler's own, still-set status bit would otherwise
        # be re-delivered one instruction after every inner RETI and the outer handler would never resume)
        reen = mv_imem_imm(IMR, st.choice((0x88, 0x88, 0x88, 0x8C, 0x8A, 0x89, 0x8F)))
        hb = _body(st, profile, 8 + st.below(7), True, used_keys, edges, xr)
        pos = st.below(2)
        handler = hb[:pos] + [reen] + hb[pos:] + [RETI]
    else:
        handler = _body(st, profile, 2 + st.below(5), True, used_keys, edges, xr, flow) + [RETI]
    handler_blob = _emit(HANDLER, handler, listing)
    sub = [st.choice((inc_imem(0x12), INC_A, NOP)), RET]
    sub_blob = _emit(SUB, sub, listing)
    vec = bytes([HANDLER & 0xFF, (HANDLER >> 8) & 0xFF, (HANDLER >> 16) & 0xFF,
                 MAIN & 0xFF, (MAIN >> 8) & 0xFF, (MAIN >> 16) & 0xFF])
    rom = [[MAIN, main_blob.hex()], [HANDLER, handler_blob.hex()], [SUB, sub_blob.hex()], [IRQ_VEC, vec.hex()]]
    # generated filler at both ends of the ROM window (otherwise 00): a lost or shifted byte must be visible
    rom.append([ROM_START + 0x3000, bytes(st.byte() | 0x01 for _ in range(16)).hex()])
    rom.append([ROM_END + 1 - 0x40, bytes(st.byte() | 0x01 for _ in range(0x40 - 6)).hex()])
    flow_meta: Optional[Dict[str, Any]] = None
    if flow is not None:
        flow.note_near_calls(MAIN, pro + loop)
        flow.note_near_calls(HANDLER, handler)
        frombs, franges = flow.emit(listing)
        rom += frombs
        flow_meta = {"ranges": franges, "routines": len(flow.done), "ret_sites": len(set(flow.ret_sites))}

    timer_on = st.chance(5, 6) if profile != "off-onk" else st.chance(1, 2)
    mti = st.choice((2, 3, 3, 5, 7, 11, 16))
    sti = st.choice((13, 29, 64, 1000))
    if profile == "nested-irq":
        # handler entries every few main-loop instructions, so that most ON-key taps arrive inside a handler
        timer_on = True
        mti = st.choice((11, 16, 23, 37))
        sti = st.choice((7, 13, 13, 29))
    elif profile == "key-flood":
        timer_on = True
        mti = st.choice((2, 2, 3, 5))
    # per-step windows are also compared across the two models after a cross-load, so they stay inside regions
    # both models map the same way (e.g. not into the 0x80000 internal-RAM mirror of the Rust core); what lies
    # beyond a region's end is covered by the per-model bus probes
    windows = [list(w) for w in WINDOWS] + [["rom-end", ROM_END - 7, 8], ["rom-start", ROM_START - 4, 8],
                                            ["xram-end", xr[1] - 7, 8], ["xram-start", xr[0], 6]]
    cfg: Dict[str, Any] = {
        "timer": {"enabled": bool(timer_on), "mti": mti, "sti": sti},
        "regs": {"S": STACK_TOP, "U": USTACK_TOP, "X": LOG_BASE, "Y": 0x12345},
        "card": card,
        "xram": xram,
        "windows": windows,
        "probes": probes_for(card, xram),
        "sweep": [st.below(1021), 1021],
        # Rust only: "pce500" builds the machine through pce500::load_pce500_rom_window (device memory map with its
        # write-protected windows), "bare" through CoreRuntime::load_rom alone.
        "map": "pce500" if st.chance(1, 2) else "bare",
    }

    # host events
    events: Dict[str, List[List[Any]]] = {}
    pressed: set = set()
    on_down = False
    rate = {"key-irq": 5, "halt": 6, "off-onk": 6, "sio-usr": 6, "mixed": 6, "nested-irq": 4,
            "key-flood": 16}.get(profile, 12)
    if profile == "nested-irq":
        # ON-key double taps: the first press starts a handler when none is running, the second one 2-6 steps
        # later arrives inside it (after it re-enabled the master bit) and is delivered nested; then a pause of
        # two handler lengths or more so that the inner handler returns and the outer one resumes and returns too
        rate = 10
        gap_max = st.choice((4, 10, 20))
        j = 1 + st.below(8)
        while j < n + k:
            d = 2 + st.below(5)
            for t in (j, j + d):
                events.setdefault(str(t), []).append(["on_press", "KEY_ON", 0])
                events.setdefault(str(t + 1), []).append(["on_release", "KEY_ON", 0])
            j += d + 2 * len(handler) + st.below(gap_max)
    if profile == "key-flood":
        # all keys go down right at the start and mostly stay down
        for i, key in enumerate(used_keys):
            events.setdefault(str(i), []).append(["press", key, matrix_code(key)])
            pressed.add(key)
    for j in range(n + k):
        if not st.chance(1, rate):
            continue
        if profile == "key-flood" and j < len(used_keys):
            continue
        r = st.below(10)
        ev: Optional[List[Any]] = None
        if profile == "nested-irq" and r == 0:
            continue  # ON-key taps of this profile are already placed
        if profile == "off-onk" and r < 4 or r == 0:
            if on_down:
                ev, on_down = ["on_release", "KEY_ON", 0], False
            else:
                ev, on_down = ["on_press", "KEY_ON", 0], True
        elif pressed and r < (2 if profile == "key-flood" else 5):
            key = sorted(pressed)[st.below(len(pressed))]
            pressed.discard(key)
            ev = ["release", key, matrix_code(key)]
        else:
            cand = [x for x in used_keys if x not in pressed]
            if cand:
                key = st.choice(cand)
                pressed.add(key)
                ev = ["press", key, matrix_code(key)]
        if ev is not None:
            events.setdefault(str(j), []).append(ev)
    scen = {"rom": rom, "cfg": cfg, "events": events, "n": n, "k": k, "profile": profile,
            "listing": listing, "index": index}
    if flow_meta is not None:
        scen["flow"] = flow_meta
    return scen


def gen_chains(seed: int, index: int, n: int, count: int, cross_points: Sequence[int]) -> List[Dict[str, Any]]:
    """Snapshot generations as a generated dimension (generation 1 = every step index, enumerated by the main
    run).  A chain {"pts": [k1, k2(, k3)], "origin": ...} means: a fresh machine loads the bundle taken before
    step k1, runs on to k2 and is saved again; a fresh machine loads that second-generation bundle (and, for
    three points, runs on to k3, is saved, and a fourth machine loads the third-generation bundle).  Gaps
    between the points range from 0 (save right after load) over a few steps (still inside the same handler /
    LCD burst) to most of the run.  origin "own": the first bundle was written by the model under test;
    "other": by the other implementation (cross-loaded image as the machine's ancestry; k1 is then one of the
    scenario's cross-load points)."""
    st = Stream(seed, 0xC16C, index)
    out: List[Dict[str, Any]] = []
    seen = set()
    xp = [int(p) for p in cross_points if int(p) < n] or [int(p) for p in cross_points]
    for _ in range(count * 3):
        if len(out) >= count:
            break
        gens = 3 if st.chance(1, 3) else 2
        origin = "other" if (xp and st.chance(1, 4)) else "own"
        k1 = st.choice(xp) if origin == "other" else st.below(n)
        pts = [k1]
        for _g in range(gens - 1):
            room = n - pts[-1]
            if room <= 0 or st.chance(1, 8):
                gap = 0
            else:
                gap = 1 + st.below(min(room, st.choice((3, 8, 16, n))))
            pts.append(pts[-1] + gap)
        key = (tuple(pts), origin)
        if key in seen:
            continue
        seen.add(key)
        out.append({"pts": pts, "origin": origin})
    return out


def rom_image(scen: Dict[str, Any]) -> bytes:
    img = bytearray(0x40000)
    for addr, hx in scen["rom"]:
        data = bytes.fromhex(hx)
        img[addr - ROM_BASE:addr - ROM_BASE + len(data)] = data
    return bytes(img)
