"""Coverage-guided driver (atheris / libFuzzer) for EXISTING Hypothesis strategies and EXISTING verdict functions.

A property module that wants this phase exposes

    COVFUZZ = True                                   # a constant: set False to switch the phase off
    def covfuzz_test(target, rep, extra) -> test     # a @given(...) test (settings: database=None, deadline=None) whose
                                                     # body feeds the generated case to the module's evaluate function,
                                                     # writing into `rep`; nothing else

and calls `cov_fuzz_many(...)` from run().  Every campaign runs in a CHILD process (`python -m
vp_harness.covfuzz_child`): `atheris.Fuzz()` never returns and libFuzzer installs its own signal handlers, so it
cannot live in the runner.  The child imports the listed repository modules under atheris' bytecode instrumentation,
lets libFuzzer mutate a byte string, hands `input + pad[len(input):]` to `test.hypothesis.fuzz_one_input` (the pad is
a fixed pseudo-random byte string derived from the shard seed: Hypothesis' BytestringProvider rejects a buffer that
runs out, and its rejection-sampling integer draws never terminate on zeros), and after `runs` calls pickles the
Report plus counters to a result file and leaves with os._exit(0).

Soundness: the cases come out of the module's own strategies and go into the module's own verdict function, so this
phase can raise nothing the Hypothesis phase could not raise.  libFuzzer's `-seed` with `-runs` pins a campaign only
approximately (its scheduling is deterministic for a fixed binary, coverage map and timing-independent options, but
that is not a contract): no verdict depends on which inputs the campaign happens to reach.  A child that dies
without a result file is a HarnessError (exit 2), never a violation; a time budget hit is INCONCLUSIVE.
"""

from __future__ import annotations

import os
import pickle
import re
import shutil
import subprocess
import sys
import tempfile
import time
from typing import Any, Dict, List, Optional, Sequence

from .core import HarnessError, Report

ONLY_PHASE_ENV = "VERIF_ONLY_PHASE"
STATUS_RE = re.compile(r"^#(\d+)\s+(\w+)\s+cov: (\d+) ft: (\d+) corp: (\d+)/(\S+)")

ASSUMPTION = ("covfuzz phase: libFuzzer's -seed/-runs pin a campaign only approximately (scheduling inside libFuzzer "
              "is not a contract); the cases are drawn by the module's own Hypothesis strategies from the fuzzer's byte "
              "string and judged by the module's own verdict function, so no verdict depends on the campaign")


def only_phase() -> Optional[str]:
    """VERIF_ONLY_PHASE=covfuzz restricts run() of a wired module to that phase (debugging / sensitivity runs)."""
    v = os.environ.get(ONLY_PHASE_ENV, "").strip().lower()
    return v or None


def available() -> bool:
    try:
        import atheris  # noqa: F401
        return True
    except Exception:
        return False


def _parse_status(path: str) -> Dict[str, Any]:
    out: Dict[str, Any] = {"cov": None, "ft": None, "corpus": None, "new_events": 0}
    try:
        with open(path, "r", errors="replace") as fh:
            for line in fh:
                m = STATUS_RE.match(line)
                if m:
                    out["cov"], out["ft"], out["corpus"] = int(m.group(3)), int(m.group(4)), int(m.group(5))
                    if m.group(2) == "NEW":
                        out["new_events"] += 1
    except OSError:
        pass
    return out


def cov_fuzz_many(module: str, target: str, seeds: Sequence[int], runs: int, max_len: int, instrument: List[str],
                  preimport: List[str], extra: Optional[Dict[str, Any]] = None, budget_s: float = 0.0,
                  pad_len: int = 0) -> Report:
    """One target, len(seeds) single-process campaigns in parallel (see cov_fuzz_jobs)."""
    return cov_fuzz_jobs(module, [{"target": target, "seeds": list(seeds), "runs": runs, "max_len": max_len,
                                   "pad_len": pad_len, "extra": extra or {}, "budget_s": budget_s}],
                         instrument, preimport)


def cov_fuzz_jobs(module: str, jobs: List[Dict[str, Any]], instrument: List[str], preimport: List[str]) -> Report:
    """Run every (job, seed) campaign as its own child process, all in parallel (keep the total <= 16); merged Report
    with per-target summaries and per-shard counters under rep.extra["covfuzz"][target].  job = {target, seeds, runs,
    max_len, pad_len, extra, budget_s}; `budget_s` (per child, 0 = none): on expiry the child stops and reports."""
    if not available():
        raise HarnessError("atheris is not importable (run ./setup.sh; PYTHONPATH must end in <verif>/.deps)")
    tmp = tempfile.mkdtemp(prefix="vp-covfuzz-")
    procs: List[Any] = []
    t0 = time.time()
    try:
        for j, job in enumerate(jobs):
            for i, seed in enumerate(job["seeds"]):
                d = os.path.join(tmp, f"j{j}s{i}")
                os.makedirs(os.path.join(d, "corpus"))
                task = {"module": module, "target": job["target"], "seed": int(seed) & 0x7FFFFFFF,
                        "runs": int(job["runs"]), "max_len": int(job["max_len"]),
                        "pad_len": int(job.get("pad_len") or job["max_len"]), "instrument": list(instrument),
                        "preimport": list(preimport), "extra": job.get("extra") or {},
                        "budget_s": float(job.get("budget_s") or 0.0),
                        "corpus": os.path.join(d, "corpus"), "result": os.path.join(d, "result.pkl")}
                with open(os.path.join(d, "task.pkl"), "wb") as fh:
                    pickle.dump(task, fh)
                err = open(os.path.join(d, "stderr.txt"), "wb")
                p = subprocess.Popen([sys.executable, "-m", "vp_harness.covfuzz_child", os.path.join(d, "task.pkl")],
                                     stdin=subprocess.DEVNULL, stdout=err, stderr=err, cwd=d, env=dict(os.environ))
                procs.append((j, i, d, p, err, task))
        max_budget = max(float(job.get("budget_s") or 0.0) for job in jobs)
        hard = (max_budget + 180.0) if max_budget else 3600.0
        rep = Report()
        by_target: Dict[str, Dict[str, Any]] = {}
        for j, i, d, p, err, task in procs:
            target = task["target"]
            try:
                rc = p.wait(timeout=max(5.0, hard - (time.time() - t0)))
            except subprocess.TimeoutExpired:
                p.kill()
                rc = -9
            err.close()
            if not os.path.exists(task["result"]):
                tail = ""
                try:
                    with open(os.path.join(d, "stderr.txt"), "r", errors="replace") as fh:
                        tail = "".join(fh.readlines()[-12:])
                except OSError:
                    pass
                raise HarnessError(f"covfuzz child {target}#{i} ended (rc={rc}) without a result: {tail[-900:]}")
            with open(task["result"], "rb") as fh:
                res = pickle.load(fh)
            if res.get("error"):
                raise HarnessError(f"covfuzz child {target}#{i}: {res['error'][-1200:]}")
            st = _parse_status(os.path.join(d, "stderr.txt"))
            child_rep: Report = res["report"]
            summ = by_target.setdefault(target, {
                "driver": "atheris 3.1 / libFuzzer, single process per shard, empty corpus, "
                          f"-max_len={task['max_len']}, input padded to {task['pad_len']} bytes with a per-shard "
                          "pseudo-random pad",
                "instrumented_modules": res.get("instrumented", []), "runs_per_shard": task["runs"], "calls": 0,
                "cases_executed": 0, "rejected_by_hypothesis": 0, "distinct_nontrivial": 0, "shards": [],
                "_nt": set()})
            summ["shards"].append({"seed": task["seed"], "calls": res["calls"], "executed": res["executed"],
                                   "rejected_by_hypothesis": res["calls"] - res["executed"], "cov": st["cov"],
                                   "ft": st["ft"], "corpus": st["corpus"], "new_coverage_events": st["new_events"],
                                   "nontrivial": len(child_rep.nontrivial), "wall_s": round(res["wall_s"], 2),
                                   "setup_s": round(res["setup_s"], 2),
                                   "exec_per_s": round(res["calls"] / max(res["wall_s"], 1e-6), 1),
                                   "stopped": res["stopped"],
                                   "violation_class_first_seen_at_call": res.get("first_seen", {})})
            summ["calls"] += res["calls"]
            summ["cases_executed"] += res["executed"]
            summ["rejected_by_hypothesis"] += res["calls"] - res["executed"]
            summ["_nt"] |= child_rep.nontrivial
            if res["stopped"] == "budget":
                child_rep.inconclusive.append(f"covfuzz {target}: time budget reached in a shard before "
                                              f"{task['runs']} runs")
            rep.merge(child_rep)
        for target, summ in by_target.items():
            summ["distinct_nontrivial"] = len(summ.pop("_nt"))
            calls, rejected = summ["calls"], summ["rejected_by_hypothesis"]
            if calls >= 200 and rejected / calls > 0.05:
                raise HarnessError(f"covfuzz {target}: Hypothesis rejected {rejected} of {calls} fuzzer inputs (> 5 %)")
        rep.extra = dict(rep.extra)
        rep.extra["covfuzz"] = by_target
        rep.extra["covfuzz_wall_s"] = round(time.time() - t0, 2)
        if ASSUMPTION not in rep.assumptions:
            rep.assumptions.append(ASSUMPTION)
        return rep
    finally:
        for _j, _i, _d, p, err, _t in procs:
            if p.poll() is None:
                p.kill()
            try:
                err.close()
            except Exception:
                pass
        shutil.rmtree(tmp, ignore_errors=True)


def merge_covfuzz(into: Report, part: Report) -> Report:
    """Report.merge keeps the first value of a non-numeric extra: merge the per-target covfuzz summaries by hand."""
    cf = dict(into.extra.get("covfuzz") or {})
    cf.update(part.extra.get("covfuzz") or {})
    part.extra = {k: v for k, v in part.extra.items() if k != "covfuzz"}
    into.merge(part)
    into.extra["covfuzz"] = cf
    return into
