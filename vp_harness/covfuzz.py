"""Coverage-guided driver (atheris / libFuzzer) for EXISTING Hypothesis strategies and EXISTING verdict functions.

A property module that wants this phase exposes

    COVFUZZ = True                                   # a constant: set False to switch the phase off
    def covfuzz_test(target, rep, extra) -> test     # a @given(...) test (settings: database=None, deadline=None) whose
                                                     # body feeds the generated case to the module's evaluate function,
                                                     # writing into `rep`; nothing else

and calls `cov_fuzz_many(...)` from run().  Every campaign runs in a CHILD process (`python -m
vp_harness.covfuzz_child`): `atheris.Fuzz()` never returns and libFuzzer installs its own signal handlers, so it
cannot live in the runner.  The child imports the listed repository modules under atheris' bytecode instrumentation,
lets libFuzzer mutate a byte string, hands `input + pad[len(input):]` to `test.hypothesis.fuzz_one_input` (the pad is
a fixed pseudo-random byte string derived from the shard seed: Hypothesis' BytestringProvider rejects a buffer that
runs out, and its rejection-sampling integer draws never terminate on zeros), and after `runs` calls pickles the
Report plus counters to a result file and leaves with os._exit(0).

Soundness: the cases come out of the module's own strategies and go into the module's own verdict function, so this
phase can raise nothing the Hypothesis phase could not raise.  libFuzzer's `-seed` with `-runs` pins a campaign only
approximately (its scheduling is deterministic for a fixed binary, coverage map and timing-independent options, but
that is not a contract): no verdict depends on which inputs the campaign happens to reach.  A child that dies
without a result file is a HarnessError (exit 2), never a violation; a time budget hit is INCONCLUSIVE.
"""

from __future__ import annotations

import os
import pickle
import re
import shutil
import subprocess
import sys
import tempfile
import time
from typing import Any, Dict, List, Optional, Sequence

from .core import HarnessError, Report

ONLY_PHASE_ENV = "VERIF_ONLY_PHASE"
STATUS_RE = re.compile(r"^#(\d+)\s+(\w+)\s+cov: (\d+) ft: (\d+) corp: (\d+)/(\S+)")

ASSUMPTION = ("covfuzz phase: libFuzzer's -seed/-runs pin a campaign only approximately (scheduling inside libFuzzer "
              "is not a contract); the cases are drawn by the module's own Hypothesis strategies from the fuzzer's byte "
              "string and judged by the module's own verdict function, so no verdict depends on the campaign")


def only_phase() -> Optional[str]:
    """VERIF_ONLY_PHASE=covfuzz restricts run() of a wired module to that phase (debugging / sensitivity runs)."""
    v = os.environ.get(ONLY_PHASE_ENV, "").strip().lower()
    return v or None


def available() -> bool:
    try:
        import atheris  # noqa: F401
        return True
    except Exception:
        return False


def _parse_status(path: str) -> Dict[str, Any]:
    out: Dict[str, Any] = {"cov": None, "ft": None, "corpus": None, "new_events": 0}
    try:
        with open(path, "r", errors="replace") as fh:
            for line in fh:
                m = STATUS_RE.match(line)
                if m:
                    out["cov"], out["ft"], out["corpus"] = int(m.group(3)), int(m.group(4)), int(m.group(5))
                    if m.group(2) == "NEW":
                        out["new_events"] += 1
    except OSError:
        pass
    return out


def cov_fuzz_many(module: str, target: str, seeds: Sequence[int], runs: int, max_len: int, instrument: List[str],
                  preimport: List[str], extra: Optional[Dict[str, Any]] = None, budget_s: float = 0.0,
                  pad_len: int = 0) -> Report:
    """Run len(seeds) single-process campaigns in parallel; merged Report with per-shard counters under
    rep.extra["covfuzz"][target].  `budget_s` (per child, 0 = none): on expiry the child stops and reports."""
    if not available():
        raise HarnessError("atheris is not importable (run ./setup.sh; PYTHONPATH must end in <verif>/.deps)")
    tmp = tempfile.mkdtemp(prefix="vp-covfuzz-")
    procs = []
    t0 = time.time()
    try:
        for i, seed in enumerate(seeds):
            d = os.path.join(tmp, f"s{i}")
            os.makedirs(os.path.join(d, "corpus"))
            task = {"module": module, "target": target, "seed": int(seed) & 0x7FFFFFFF, "runs": int(runs),
                    "max_len": int(max_len), "pad_len": int(pad_len or max_len), "instrument": list(instrument),
                    "preimport": list(preimport), "extra": extra or {}, "budget_s": float(budget_s),
                    "corpus": os.path.join(d, "corpus"), "result": os.path.join(d, "result.pkl")}
            with open(os.path.join(d, "task.pkl"), "wb") as fh:
                pickle.dump(task, fh)
            err = open(os.path.join(d, "stderr.txt"), "wb")
            p = subprocess.Popen([sys.executable, "-m", "vp_harness.covfuzz_child", os.path.join(d, "task.pkl")],
                                 stdin=subprocess.DEVNULL, stdout=err, stderr=err, cwd=d, env=dict(os.environ))
            procs.append((i, d, p, err, task))
        hard = (budget_s + 180.0) if budget_s else 3600.0
        rep = Report()
        shards: List[Dict[str, Any]] = []
        instrumented: List[str] = []
        for i, d, p, err, task in procs:
            try:
                rc = p.wait(timeout=max(5.0, hard - (time.time() - t0)))
            except subprocess.TimeoutExpired:
                p.kill()
                rc = -9
            err.close()
            if not os.path.exists(task["result"]):
                tail = ""
                try:
                    with open(os.path.join(d, "stderr.txt"), "r", errors="replace") as fh:
                        tail = "".join(fh.readlines()[-12:])
                except OSError:
                    pass
                raise HarnessError(f"covfuzz child {target}#{i} ended (rc={rc}) without a result: {tail[-900:]}")
            with open(task["result"], "rb") as fh:
                res = pickle.load(fh)
            if res.get("error"):
                raise HarnessError(f"covfuzz child {target}#{i}: {res['error'][-1200:]}")
            st = _parse_status(os.path.join(d, "stderr.txt"))
            child_rep: Report = res["report"]
            shards.append({"seed": task["seed"], "calls": res["calls"], "executed": res["executed"],
                           "rejected_by_hypothesis": res["calls"] - res["executed"], "cov": st["cov"], "ft": st["ft"],
                           "corpus": st["corpus"], "new_coverage_events": st["new_events"],
                           "nontrivial": len(child_rep.nontrivial), "wall_s": round(res["wall_s"], 2),
                           "exec_per_s": round(res["calls"] / max(res["wall_s"], 1e-6), 1),
                           "stopped": res["stopped"]})
            instrumented = res.get("instrumented", instrumented)
            if res["stopped"] == "budget":
                child_rep.inconclusive.append(f"covfuzz {target}: time budget reached in a shard before {runs} runs")
            rep.merge(child_rep)
        calls = sum(s["calls"] for s in shards)
        rejected = sum(s["rejected_by_hypothesis"] for s in shards)
        rep.extra = dict(rep.extra)
        summary = {"driver": "atheris 3.1 / libFuzzer, single process per shard, empty corpus, "
                             f"-max_len={max_len}, input padded to {pad_len or max_len} bytes with a per-shard "
                             "pseudo-random pad",
                   "instrumented_modules": instrumented, "runs_per_shard": runs, "calls": calls,
                   "cases_executed": calls - rejected, "rejected_by_hypothesis": rejected,
                   "distinct_nontrivial": len(rep.nontrivial), "shards": shards,
                   "wall_s": round(time.time() - t0, 2)}
        if calls and rejected / calls > 0.05 and calls >= 200:
            raise HarnessError(f"covfuzz {target}: Hypothesis rejected {rejected} of {calls} fuzzer inputs (> 5 %)")
        rep.extra["covfuzz"] = {target: summary}
        if ASSUMPTION not in rep.assumptions:
            rep.assumptions.append(ASSUMPTION)
        return rep
    finally:
        for _i, _d, p, err, _t in procs:
            if p.poll() is None:
                p.kill()
            try:
                err.close()
            except Exception:
                pass
        shutil.rmtree(tmp, ignore_errors=True)


def merge_covfuzz(into: Report, part: Report) -> Report:
    """Report.merge keeps the first value of a non-numeric extra: merge the per-target covfuzz summaries by hand."""
    cf = dict(into.extra.get("covfuzz") or {})
    cf.update(part.extra.get("covfuzz") or {})
    part.extra = {k: v for k, v in part.extra.items() if k != "covfuzz"}
    into.merge(part)
    into.extra["covfuzz"] = cf
    return into
