"""Structural instruction-encoding enumeration shared by C01-C07, C09.

A *structural head* is (pre, opcode, b2): pre in {None} + the 15 PRE opcodes, opcode 0..255, b2 0..255
(the first operand byte: mode/selector byte for most memory forms).  The remaining operand bytes are the
*tail* (<= 4 more).  Nothing here imports operand classes: validity is always decided by asking the
repository's own decoder (arch.get_instruction_info).
"""

from __future__ import annotations

from typing import Iterator, List, Optional, Sequence, Tuple

from .core import mix32

PRE_OPCODES: Tuple[int, ...] = (0x21, 0x22, 0x23, 0x24, 0x25, 0x26, 0x27,
                                0x30, 0x31, 0x32, 0x33, 0x34, 0x35, 0x36, 0x37)
PRES: Tuple[Optional[int], ...] = (None,) + PRE_OPCODES
MAX_LEN = 7  # prefix + opcode + 5 operand bytes
NOP_PAD = bytes([0x00] * 8)

_ARCH = None


def arch():
    global _ARCH
    if _ARCH is None:
        from sc62015.arch import SC62015

        _ARCH = SC62015()
    return _ARCH


def head_bytes(pre: Optional[int], op: int, b2: int) -> bytes:
    return (bytes([pre]) if pre is not None else b"") + bytes([op, b2])


def hash_tail(seed: int, pre: Optional[int], op: int, b2: int, n: int = 5) -> bytes:
    p = 0 if pre is None else pre
    return bytes(mix32(seed, p, op, b2, i) & 0xFF for i in range(n))


def all_heads() -> Iterator[Tuple[Optional[int], int, int]]:
    for pre in PRES:
        for op in range(256):
            for b2 in range(256):
                yield pre, op, b2


def info_len(data: bytes, addr: int = 0x1000) -> Optional[int]:
    """Length reported by the instruction-info callback, or None if rejected."""
    info = arch().get_instruction_info(bytes(data), addr)
    if info is None:
        return None
    return int(info.length)


def text_of(data: bytes, addr: int = 0x1000) -> Optional[Tuple[str, int]]:
    r = arch().get_instruction_text(bytes(data), addr)
    if r is None:
        return None
    toks, ln = r
    return "".join(str(getattr(t, "text", t)) for t in toks), ln


def is_pre(op: int) -> bool:
    return op in PRE_OPCODES


BOUNDARY_BYTES: Tuple[int, ...] = (0x00, 0x01, 0x07, 0x0F, 0x10, 0x7F, 0x80, 0xEC, 0xFB, 0xFF)


_VALID_B2: dict = {}


def valid_b2(op: int) -> List[int]:
    """Second-byte values for which the repository's decoder accepts `op b2 00 00 00 00` (computed by asking the
    decoder, cached per process).  Used only to *construct* candidates; acceptance of the final byte string is
    still decided by the decoder."""
    v = _VALID_B2.get(op)
    if v is None:
        v = [b2 for b2 in range(256) if info_len(bytes([op, b2, 0, 0, 0, 0]) + NOP_PAD) is not None]
        _VALID_B2[op] = v
    return v


def sample_valid_encodings(seed: int, count: int, pres: Sequence[Optional[int]] = PRES,
                           opcodes: Optional[Sequence[int]] = None,
                           addr: int = 0x1000) -> Tuple[List[Tuple[Optional[int], bytes]], int]:
    """Stratified sample of decoder-accepted encodings: cycles over (pre, opcode) so that every pair
    appears, with b2 and tail from the seeded hash (boundary bytes mixed in).  Returns ([(pre, bytes
    without prefix...)], n_filtered).  Bytes returned include the prefix and are cut to the decoded
    length.  Rejected draws (invalid mode bytes) are redrawn up to 8 times and counted."""
    out: List[Tuple[Optional[int], bytes]] = []
    filtered = 0
    ops = list(opcodes) if opcodes is not None else [o for o in range(256) if not is_pre(o)]
    i = 0
    n_pairs = len(pres) * len(ops)
    while len(out) < count:
        pre = pres[(i // len(ops)) % len(pres)]
        op = ops[i % len(ops)]
        ok = False
        for attempt in range(8):
            h = mix32(seed, i, attempt, 77)
            b2 = BOUNDARY_BYTES[h % len(BOUNDARY_BYTES)] if (h >> 8) % 4 == 0 else (h >> 16) & 0xFF
            vb = valid_b2(op)
            if vb and b2 not in vb and attempt < 7:
                b2 = vb[(h >> 12) % len(vb)]
            tail = bytearray(hash_tail(h, pre, op, b2, 5))
            for j in range(5):
                hh = mix32(h, j, 5)
                if hh % 5 == 0:
                    tail[j] = BOUNDARY_BYTES[(hh >> 8) % len(BOUNDARY_BYTES)]
            data = head_bytes(pre, op, b2) + bytes(tail)
            ln = info_len(data + NOP_PAD, addr)
            if ln is None:
                filtered += 1
                continue
            out.append((pre, data[:ln]))
            ok = True
            break
        i += 1
        if i > 20 * max(count, n_pairs):
            break
        _ = ok
    return out, filtered


# ---------------------------------------------------------------------------------------------------------------
# Landmark operand values: whole-operand values that are architecturally special or coupled to the instruction's own
# address.  Hash tails and boundary *bytes* essentially never produce them (a 16-bit operand equal to the address of
# the following instruction has probability 2^-16), yet code tends to special-case exactly these.
FIXED_LANDMARKS: Tuple[int, ...] = (
    0x00000, 0x00001, 0x000FF, 0x00100, 0x0FFFF, 0x10000, 0x7FFFF, 0x80000, 0xFFFFF,
    0x02000, 0x0A000, 0x40000, 0x90000, 0xB8000, 0xC0000, 0xE0000,      # LCD windows, card, section bases, mirror, ROM
    0xFFFFA, 0xFFFFD, 0xFFFFC, 0xFFFFB,                                  # interrupt / reset vectors and neighbours
    0x100000, 0x1000EC, 0x1000F0, 0x1000FB, 0x1000FF,                    # internal window: start, BP, KOL, IMR, last
)


def landmark_values(addr: int) -> List[Tuple[str, int]]:
    """(tag, value): fixed landmarks plus values derived from the instruction's own address."""
    out = [(f"fixed:{v:05X}", v) for v in FIXED_LANDMARKS]
    out.append(("self", addr))
    out.append(("self-1", (addr - 1) & 0xFFFFFF))
    for k in range(1, 8):
        out.append((f"self+{k}", (addr + k) & 0xFFFFFF))
    out.append(("self^page", addr ^ 0x10000))
    return out


def landmark_buffers(pre: Optional[int], op: int, addr: int, seed: int) -> List[Tuple[str, bytes]]:
    """Buffers for one (pre, opcode): every landmark value little-endian right after the opcode, and right after each of
    up to two decoder-accepted second bytes; remaining bytes from the hash."""
    p = bytes([pre]) if pre is not None else b""
    out: List[Tuple[str, bytes]] = []
    vb = valid_b2(op)
    picks = [vb[mix32(seed, op, j) % len(vb)] for j in range(2)] if vb else []
    for tag, v in landmark_values(addr):
        le = bytes([v & 0xFF, (v >> 8) & 0xFF, (v >> 16) & 0xFF])
        fill = bytes(mix32(seed, op, v, j) & 0xFF for j in range(3))
        out.append((tag + "@0", p + bytes([op]) + le + fill))
        for b2 in picks:
            out.append((tag + "@1", p + bytes([op, b2]) + le + fill[:2]))
    return out
