"""C11 reference memory model, written from the property text and the documentation -- it never calls the
implementation's canonicalisation or lookup functions.

Sources for each rule
  * property C11 statement: two disjoint spaces (256 B internal, 1 MiB external); canonical form = 24-bit wrap
    (+ documented RAM mirror window); ROM / read-only windows ignore writes; multi-byte access == little-endian
    composition of byte accesses, *each byte at its own canonical address*.
  * pce500/README.md "Memory Map": ROM 0xC0000-0xFFFFF, internal RAM 0xB8000-0xBFFFF, card slot 0x40000-0x4FFFF.
  * sc62015/pysc62015/constants.py: "contiguous 256-byte block of memory immediately following the external
    address space" (INTERNAL_MEMORY_START = 0x100000).
  * pce500/memory.py comments: "24-bit address space", "internal memory (0x100000-0x1000FF)",
    offset = (address - 0x100000) & 0xFF  -> Python: every 24-bit address >= 0x100000 is internal, modulo 256.
  * PCE500Memory.set_memory_card_present docstring: absent card reads 0, ignores writes; __init__ comment:
    default = present writable 64 KiB card of zeroes.
  * sc62015/core/src/memory.rs: ADDRESS_MASK 0xFFFFFF, internal window 0x100000..0x1000FF only, "External
    memory fallback with wrap" (mod 1 MiB), mirror window 0x80000..=0xBFFFF -> 0xB8000 + (a & 0x7FFF)
    (test internal_ram_mirror_routes_0x80000_window), absent slot overlay comment + test, ROM overlay test.
  * sc62015/core/src/pce500.rs configure_pce500_memory_map: read-only 0x00000-0x3FFFF and 0xC0000-0xFFFFF.

A cell is an int: external canonical address 0..0xFFFFF, or INT + offset for the 256 internal bytes.
Cell classes: ram (store then load returns it), ro (content fixed), absent (reads 0, ignores writes),
unspec (documentation silent about writability: either behaviour accepted, but it must be *a* memory
behaviour), dev (device register/window: never checked), ovlp (cell covered by two or more overlays whose
relative precedence is undocumented: it must behave, consistently, like ONE of the covering overlays -- the
model keeps one "personality" per covering overlay and drops those an observation contradicts).

Overlays registered INSIDE the internal window (start >= 0x100000, wholly within 0x100000..0x1000FF): nothing
documents whether the 256-byte internal memory consults the overlay table (upstream: Rust never does, Python only
for an overlay lying inside the key-port block 0xF0..0xF2) -> such a cell is an overlap cell ("int-ovlp") whose
candidates are the plain internal RAM byte and the covering overlay(s); every internal cell NOT covered by an
overlay stays plain internal RAM whatever overlays exist elsewhere.

Rejected / empty configuration calls (["rej", kind, arg] in cfg["seq"] and in the history): the model ignores
them -- a call that is refused (Err / exception) or that names no location (zero-sized overlay, removal of an
unknown name) must not change what any location reads.

Configuration order: the card-slot calls (load_memory_card / set_memory_card_present /
set_memory_card_slot_present) and the overlay registrations are applied in the order given by cfg["seq"]
(see steps / card_outcome); the reference outcome is "the later call wins":
  * a card loaded after the slot was declared absent is present (Python: load_memory_card sets
    _card_present = True; Rust: load_memory_card_maps_sizes test -- the loaded image is what the window reads);
  * set_memory_card_present(False) / set_memory_card_slot_present(false) after a load: absent (docstring, test);
  * Python set_memory_card_present(True) after False: "Enable/disable memory card emulation" -> the card is back;
  * Rust set_memory_card_slot_present(true) after the absent call removed the card: nothing documents what the
    window holds -> unspec, unknown content.
"""

from __future__ import annotations

from typing import Any, Dict, List, Optional, Sequence, Tuple

from .core import mix32

INT = 0x100000
EXT_MASK = 0xFFFFF
MIRROR_LO, MIRROR_HI, MIRROR_BASE, MIRROR_SIZE = 0x80000, 0xBFFFF, 0xB8000, 0x8000
CARD_LO, CARD_HI = 0x40000, 0x4FFFF
ROM_LO, ROM_HI = 0xC0000, 0xFFFFF
CODE_LO, CODE_HI = 0xBF000, 0xBF00F  # rs-cpu: where the one-instruction programs are poked


# --------------------------------------------------------------------------------------- pattern data
def pat(k: int, i: int) -> int:
    return (i * 131 + (i >> 8) * 29 + (i >> 16) * 7 + k * 53 + 1) & 0xFF


_ROW = bytes((lo * 131) & 0xFF for lo in range(256))
_ADD = [bytes((v + c) & 0xFF for v in range(256)) for c in range(256)]
_PAT_CACHE: Dict[Tuple[int, int, int], bytes] = {}


def pat_bytes(k: int, base: int, n: int) -> bytes:
    """bytes(pat(k, base+i) for i in range(n)), built row-wise (fast) and cached."""
    key = (k, base, n)
    hit = _PAT_CACHE.get(key)
    if hit is not None:
        return hit
    first_row = base >> 8
    last_row = (base + n - 1) >> 8 if n else first_row
    parts = []
    for hi in range(first_row, last_row + 1):
        c = (hi * 29 + (hi >> 8) * 7 + k * 53 + 1) & 0xFF
        parts.append(_ROW.translate(_ADD[c]))
    blob = b"".join(parts)
    off = base - (first_row << 8)
    out = blob[off:off + n]
    if len(_PAT_CACHE) > 24:
        _PAT_CACHE.clear()
    _PAT_CACHE[key] = out
    return out


# --------------------------------------------------------------------------------------- configuration order
def steps(cfg: Dict[str, Any]) -> List[List[Any]]:
    """Ordered card-slot / overlay configuration steps of a cfg:
         ["card", {"size","k","writable"}] | ["slot", bool] | ["ovl", index into cfg["ovl"]]
         | ["rm", index into cfg["ovl"]] (remove_overlay of that overlay's name) | ["rej", kind, a, b]
    cfg["seq"] gives the order explicitly; overlays it does not mention are registered afterwards.  Older cases
    without "seq" (keys "card"/"slot") mean: load the card, then declare the slot state, then the overlays."""
    out: List[List[Any]] = []
    if cfg.get("seq") is not None:
        out = [list(x) for x in cfg["seq"]]
    else:
        if cfg.get("card") is not None:
            out.append(["card", cfg["card"]])
        if cfg.get("slot") is not None:
            out.append(["slot", bool(cfg["slot"])])
    named = {x[1] for x in out if x[0] == "ovl"}
    for i in range(len(cfg.get("ovl") or [])):
        if i not in named:
            out.append(["ovl", i])
    return out


def live_overlays(cfg: Dict[str, Any]) -> set:
    """Indices of the cfg["ovl"] overlays that are registered when the history starts: ["rm", i] =
    remove_overlay(name of overlay i) -- a no-op when it comes before the registration (unknown name)."""
    live = set()
    for stp in steps(cfg):
        if stp[0] == "ovl":
            live.add(stp[1])
        elif stp[0] == "rm":
            live.discard(stp[1])
    return live


def card_outcome(cfg: Dict[str, Any]) -> Dict[str, Any]:
    """What the card window holds after the configuration sequence ("the later call wins", see module docstring).
    -> {"card": card dict | None, "absent": bool, "reseat": bool}"""
    py = cfg["model"].startswith("py")
    card = None
    absent = False
    removed = False  # Rust: a loaded card was taken out by set_memory_card_slot_present(false)
    reseat = False
    for stp in steps(cfg):
        if stp[0] == "card":
            card = stp[1]
            removed = reseat = False
            if py:
                absent = False
        elif stp[0] == "slot":
            if stp[1]:
                if absent and not py and removed:
                    reseat = True
                absent = False
            else:
                absent = True
                reseat = False
                if not py:
                    removed = removed or card is not None
                    card = None
    return {"card": card, "absent": absent, "reseat": reseat}


# --------------------------------------------------------------------------------------- model
class Model:
    """Reference model for one configuration.  cfg keys (all optional except model):
    model: py | py-emu | rs | rs-cpu;  fill: k|None;  mirror: bool (rs);  rom: {"k","api"} with api in
    load_rom (py) / slice (rs, unprotected) / window (rs, load_pce500_rom_window = map) / sysimg (rs,
    load_pce500_system_image = image of rom["len"] bytes + map; >= 1 MiB: whole external space);  map: bool (rs);
    ro: [[s,e]..] (rs);  card: {"size","k","writable"};  slot: None|True|False;
    ovl: [{"kind": ram|rom, "start", "size", "k"}]."""

    def __init__(self, cfg: Dict[str, Any]) -> None:
        self.cfg = cfg
        self.kind = cfg["model"]
        self.py = self.kind.startswith("py")
        self.cpu = self.kind == "rs-cpu"
        self.emu = self.kind == "py-emu"
        if self.py:
            self.mirror = False
        else:
            self.mirror = bool(cfg.get("mirror", self.cpu))  # CoreRuntime::new enables it for the PC-E500
        self.fill = cfg.get("fill")
        self.mem: Dict[int, Any] = {}
        # region table in precedence order: (lo, hi, name, cls, init); the first region containing a cell gives
        # its class; init: ("pat", k) | ("zero",) | ("unknown",) | ("base",) = content comes from the next
        # lower layer that has data (ROM image, RAM fill)
        regs: List[Tuple[int, int, str, str, Tuple]] = []
        if self.emu:
            regs.append((0x2000, 0x2FFF, "lcd", "dev", ("unknown",)))
            regs.append((0xA000, 0xAFFF, "lcd", "dev", ("unknown",)))
        if self.cpu:
            regs.append((0x2000, 0x2FFF, "lcd", "dev", ("unknown",)))
            regs.append((0xA000, 0xAFFF, "lcd", "dev", ("unknown",)))
            regs.append((CODE_LO, CODE_HI, "code", "dev", ("unknown",)))
        ovl_idx: List[int] = []  # regions that are overlays of the implementation (precede every base layer)

        def overlay(*reg: Any) -> None:
            ovl_idx.append(len(regs))
            regs.append(tuple(reg))

        self.int_ovl = False
        live = live_overlays(cfg)
        for i, o in enumerate(cfg.get("ovl") or []):
            if i not in live:
                continue  # registered and removed again before the first access: as if never registered
            lo, hi = o["start"], o["start"] + o["size"] - 1
            if lo >= INT:
                self.int_ovl = True
            if o["kind"] == "ram":
                overlay(lo, hi, "oram", "ram", ("zero",))
            else:
                overlay(lo, hi, "orom", "ro", ("pat", o["k"]))
        # Python: a (data-backed) overlay lying wholly inside the key-port block 0x1000F0..0x1000F2 is taken for the
        # keyboard port overlay by PCE500Memory.add_overlay (situation flag kb-data-ovl, see describe)
        self.kb_data_ovl = self.py and any(
            INT + 0xF0 <= o["start"] and o["start"] + o["size"] - 1 <= INT + 0xF2 for o in cfg.get("ovl") or [])
        if self.int_ovl:
            # overlays inside the internal window: the plain internal RAM is the other candidate of every cell they
            # cover (see module docstring), so it takes part in the overlap computation like an overlay
            overlay(INT, INT + 0xFF, "int", "ram", ("zero",))
        oc = card_outcome(cfg)
        card, absent = oc["card"], oc["absent"]
        late: List[Tuple] = []  # card-window regions that are NOT overlays (base array): below every overlay
        if oc["reseat"]:
            # Rust: slot re-declared present after the absent call removed the card: content undocumented
            late.append((CARD_LO, CARD_HI, "card-reseat", "unspec", ("unknown",)))
        elif self.py:
            # PCE500Memory: one handler overlay over the whole window, whatever the card size
            if absent:
                overlay(CARD_LO, CARD_HI, "card-absent", "absent", ("zero",))
            elif card is not None:
                end = CARD_LO + card["size"] - 1
                overlay(CARD_LO, end, "card" if card.get("writable", True) else "card-ro",
                        "ram" if card.get("writable", True) else "ro", ("pat", card["k"]))
                if end < CARD_HI:
                    overlay(end + 1, CARD_HI, "card-beyond", "unspec", ("unknown",))
            else:
                overlay(CARD_LO, CARD_HI, "card", "ram", ("zero",))
        else:
            if card is not None:
                end = CARD_LO + card["size"] - 1
                overlay(CARD_LO, end, "card", "ram", ("pat", card["k"]))
                if end < CARD_HI:
                    if absent:  # the absent-slot handler is still installed underneath (card loaded later)
                        overlay(end + 1, CARD_HI, "card-beyond", "unspec", ("unknown",))
                    else:       # base array; writability undocumented
                        late.append((end + 1, CARD_HI, "card-beyond", "unspec", ("base",)))
            elif absent:
                overlay(CARD_LO, CARD_HI, "card-absent", "absent", ("zero",))
        regs.extend(late)
        rom = cfg.get("rom")
        if rom is not None:
            api = rom["api"]
            if api == "load_rom":
                overlay(ROM_LO, ROM_HI, "rom", "ro", ("pat", rom["k"]))  # PCE500Memory.load_rom: an overlay
            elif api in ("window", "sysimg"):
                regs.append((ROM_LO, ROM_HI, "rom", "ro", ("pat", rom["k"])))
                regs.append((0x00000, 0x3FFFF, "ro", "ro", ("base",)))
                if api == "sysimg" and rom.get("len", 0) >= 0x100000:
                    # load_pce500_system_image with a full image: the whole 1 MiB external space is the image
                    # ("system_image_loads_low_and_high_windows" test); the PC-E500 map protects both windows
                    self.fill = rom["k"]
        for r in cfg.get("ro") or []:
            regs.append((r[0], r[1], "ro", "ro", ("base",)))
        if cfg.get("map"):
            regs.append((0x00000, 0x3FFFF, "ro", "ro", ("base",)))
            regs.append((ROM_LO, ROM_HI, "ro", "ro", ("base",)))
        if rom is not None and rom["api"] == "slice":
            # CoreRuntime::load_rom alone: named ROM, but nothing documents write protection -> unspec
            regs.append((ROM_LO, ROM_HI, "romslice", "unspec", ("pat", rom["k"])))
        self.regions = regs
        # overlay-type regions (user overlays, card window, Python ROM image) and the spans where two or more of
        # them overlap: inside such a span precedence is undocumented -> class "ovlp" (see module docstring)
        self.ovl_idx = ovl_idx
        self.ovlp_spans: List[Tuple[int, int]] = []
        pts = sorted({regs[i][0] for i in self.ovl_idx} | {regs[i][1] + 1 for i in self.ovl_idx})
        for a, b in zip(pts, pts[1:]):
            if sum(1 for i in self.ovl_idx if regs[i][0] <= a and b - 1 <= regs[i][1]) >= 2:
                if self.ovlp_spans and self.ovlp_spans[-1][1] == a - 1:
                    self.ovlp_spans[-1] = (self.ovlp_spans[-1][0], b - 1)
                else:
                    self.ovlp_spans.append((a, b - 1))
        self.pers: Dict[int, List[List[Any]]] = {}

    # ---- canonicalisation (from the documentation, see module docstring) ----
    def canon(self, addr: int) -> int:
        a = addr & 0xFFFFFF
        if self.py:
            if a >= INT:
                return INT + ((a - INT) & 0xFF)
            return a
        if INT <= a < INT + 0x100:
            return a
        e = a & EXT_MASK
        if self.mirror and MIRROR_LO <= e <= MIRROR_HI:
            e = MIRROR_BASE + (e & (MIRROR_SIZE - 1))
        return e

    def cells(self, addr: int, nbytes: int) -> List[int]:
        return [self.canon((addr + i) & 0xFFFFFFFF) for i in range(nbytes)]

    # ---- regions ----
    def info(self, cell: int) -> Tuple[str, str]:
        if cell >= INT:
            off = cell - INT
            if (self.cpu or self.emu) and off >= 0xF0:
                # keyboard KOL/KOH/KIL, E-port, SIO (a TXD write changes USR), IMR/ISR, SCR/LCC/SSR: device
                # registers once the machine's peripherals are attached (C12/C14 cover them)
                return "int-io", "dev"
            if self.int_ovl and self.in_overlap(cell):
                return "int-ovlp", "ovlp"
            return "int", "ram"
        if self.ovlp_spans and self.in_overlap(cell):
            return "ovlp", "ovlp"
        for lo, hi, name, cls, _ in self.regions:
            if lo <= cell <= hi:
                return name, cls
        if self.py and cell >= 0xFFF00:
            return "ram-top256", "ram"  # plain RAM by the documentation (no ROM image / overlay here)
        if self.mirror and MIRROR_BASE <= cell <= MIRROR_HI:
            return "mram", "ram"  # the RAM every mirror-window address is canonicalised to
        return "ram", "ram"

    def in_overlap(self, cell: int) -> bool:
        for lo, hi in self.ovlp_spans:
            if lo <= cell <= hi:
                return True
        return False

    def in_overlay(self, cell: int) -> bool:
        """Is the (external) cell covered by any overlay-type region (user overlay, card window, Python ROM)?"""
        if cell >= INT:
            return False
        for i in self.ovl_idx:
            if self.regions[i][0] <= cell <= self.regions[i][1]:
                return True
        return False

    def _base_init(self, cell: int) -> int:
        if self.fill is None or cell >= INT:
            return 0
        if self.py and cell >= 0xFFF00:
            return 0
        return pat(self.fill, cell)

    def init(self, cell: int, first: int = 0) -> Any:
        """Initial content of a cell as seen through region #first and the layers below it."""
        if cell >= INT and not self.int_ovl:
            return 0
        for lo, hi, name, cls, ini in self.regions[first:]:
            if lo <= cell <= hi:
                if cls == "dev":
                    return None
                if ini[0] == "pat":
                    return pat(ini[1], cell)
                if ini[0] == "zero":
                    return 0
                if ini[0] == "unknown":
                    return None
                # ("base",): keep looking for a lower layer with data
        return self._base_init(cell)

    # ---- cell state: int (known) | None (unknown) | tuple (allowed values) ----
    def _pers(self, cell: int) -> List[List[Any]]:
        """Personalities of an overlap cell: one [class, value state] per covering overlay still consistent with
        everything observed so far."""
        ps = self.pers.get(cell)
        if ps is None:
            ps = []
            for i in self.ovl_idx:
                lo, hi, name, cls, ini = self.regions[i]
                if lo <= cell <= hi:
                    ps.append([cls, self.init(cell, i)])
            self.pers[cell] = ps
        return ps

    def ovlp_classes(self, cell: int) -> set:
        """Classes of the covering overlays of an overlap cell that are still consistent with every observation."""
        return {p[0] for p in self._pers(cell)}

    def get(self, cell: int) -> Any:
        if self.ovlp_spans and (cell < INT or self.int_ovl) and self.in_overlap(cell):
            vals = set()
            for cls, val in self._pers(cell):
                if val is None:
                    return None
                vals.update(val if isinstance(val, tuple) else (val,))
            return tuple(sorted(vals)) if len(vals) != 1 else next(iter(vals))
        if cell in self.mem:
            return self.mem[cell]
        return self.init(cell)

    @staticmethod
    def _stored(cls: str, cur: Any, b: int) -> Any:
        """Value state of a cell of class cls (ram/ro/absent/unspec) holding cur after a store of byte b."""
        if cls == "ram":
            return b
        if cls == "unspec":
            if cur is None:
                return None
            allowed = set(cur) if isinstance(cur, tuple) else {cur}
            allowed.add(b)
            return tuple(sorted(allowed)) if len(allowed) > 1 else b
        return cur  # ro / absent

    def store_byte(self, cell: int, b: int) -> None:
        cls = self.info(cell)[1]
        if cls == "ovlp":
            for p in self._pers(cell):
                p[1] = self._stored(p[0], p[1], b)
            return
        if cls == "ram":
            self.mem[cell] = b
        elif cls == "dev":
            self.mem[cell] = None
        elif cls == "unspec":
            cur = self.get(cell)
            if cur is None:
                return
            allowed = set(cur) if isinstance(cur, tuple) else {cur}
            allowed.add(b)
            self.mem[cell] = tuple(sorted(allowed)) if len(allowed) > 1 else b
        # ro / absent: unchanged

    def store(self, addr: int, nbytes: int, value: int) -> None:
        for i, c in enumerate(self.cells(addr, nbytes)):
            self.store_byte(c, (value >> (8 * i)) & 0xFF)

    def poke(self, cell: int, b: Optional[int]) -> None:
        self.mem[cell] = b

    def observe(self, cell: int, v: int) -> bool:
        """Compare an observed byte with the model; adopt it where the model allows several. False = mismatch."""
        cls = self.info(cell)[1]
        if cls == "dev":
            return True
        if cls == "ovlp":
            keep = []
            for p in self._pers(cell):
                cur = p[1]
                if cur is None or (v in cur if isinstance(cur, tuple) else cur == v):
                    keep.append([p[0], v])
            if not keep:
                return False
            self.pers[cell] = keep
            return True
        cur = self.get(cell)
        if cur is None:
            self.mem[cell] = v
            return True
        if isinstance(cur, tuple):
            if v in cur:
                self.mem[cell] = v
                return True
            return False
        return cur == v

    def canon_addr(self, cell: int) -> int:
        """A raw address that is already canonical for this cell."""
        return cell


# --------------------------------------------------------------------------------------- aliases & probes
def aliases(m: Model, cell: int) -> List[Tuple[int, str]]:
    """A few non-canonical raw addresses that the documentation maps to `cell` (deterministic in cell)."""
    h = mix32(0xC11, cell)
    out: List[Tuple[int, str]] = []
    out.append((cell + (1 + h % 255) * 0x1000000, "alias:wrap24"))
    if m.py:
        if cell >= INT:
            out.append((cell + 0x100 * (1 + (h >> 8) % 0xEFFF), "alias:int-mod256"))
    else:
        if cell < INT:
            j = 1 + (h >> 8) % 15
            hi = cell + j * 0x100000
            if not (INT <= hi < INT + 0x100):
                out.append((hi, "alias:mod1M"))
            if m.mirror and MIRROR_BASE <= cell <= MIRROR_HI:
                w = (h >> 12) % 7
                out.append((MIRROR_LO + w * MIRROR_SIZE + (cell - MIRROR_BASE), "alias:mirror"))
    return [(a, t) for a, t in out if m.canon(a) == cell]


STATED_ALIASES = ("alias:wrap24", "alias:mirror")  # the canonical forms the property statement names


def op_probes(m: Model, addr: int, nbytes: int, alias_level: int = 2) -> List[Tuple[int, str]]:
    """Raw probe addresses (8-bit loads) tagged by their relation to the access (tags feed fingerprints only).
    alias_level 0: only the 2^24-wrap alias (plain/edge profiles); 1: + mirror-window aliases (alias profile);
    2: + the implied modulo-1-MiB (Rust) / modulo-256 (Python) aliases of 0x100100..0xFFFFFF (mixed profile)."""
    cells = m.cells(addr, nbytes)
    out: List[Tuple[int, str]] = []
    seen = set()

    def add(a: int, tag: str) -> None:
        a &= 0xFFFFFFFF
        if a in seen:
            return
        if m.info(m.canon(a))[1] == "dev":
            return
        seen.add(a)
        out.append((a, tag))

    for c in cells:
        add(c, "target")
    for i in range(nbytes):
        add((addr + i) & 0xFFFFFFFF, "alias:self")  # the access's own byte addresses (model-free composition)
    for c in cells:
        for a, t in aliases(m, c):
            if alias_level >= 2 or t == "alias:wrap24" or (alias_level >= 1 and t in STATED_ALIASES):
                add(a, t)
    for c in cells:
        if c >= INT:
            off = c - INT
            add(off, "xspace:ext-low8")
            add(0xFFF00 + off, "xspace:ext-top256")
            add(INT + ((off + 1) & 0xFF), "neighbor")
            add(INT + ((off - 1) & 0xFF), "neighbor")
        else:
            if c >= 0xFFF00:
                add(INT + (c & 0xFF), "xspace:int-top256")
            add(INT + (c & 0xFF), "xspace:int-low8")
            add((c + 1) & EXT_MASK, "neighbor")
            add((c - 1) & EXT_MASK, "neighbor")
    c0 = cells[0]
    a24 = addr & 0xFFFFFF
    for i in range(nbytes + 1):
        if c0 < INT:
            add((c0 + i) & EXT_MASK, "linear-from-base")
        else:
            add(INT + ((c0 - INT + i) & 0xFF), "linear-from-base")
        add((a24 + i) & EXT_MASK, "raw-low20")
    return out


def sentinels(m: Model, seed: int) -> List[int]:
    """Fixed per-machine canonical probe addresses covering every region (+ documented boundaries)."""
    pts = [0x00000, 0x000FF, 0x00100, 0x3FFFF, 0x40000, 0x41FFF, 0x42000, 0x4FFFF, 0x50000, 0x7FFFF,
           0xB7FFF, 0xB8000, 0xBFFFE, 0xBFFFF, 0xC0000, 0xFFF00, 0xFFFFA, 0xFFFFF,
           INT, INT + 0x7F, INT + 0xEF, INT + 0xFB, INT + 0xFF]
    for lo, hi, name, cls, _ in m.regions:
        pts.append(lo)
        pts.append(hi)
        pts.append(lo + mix32(seed, lo, hi) % (hi - lo + 1))
    for lo, hi in m.ovlp_spans:  # overlapping overlays: both ends and one interior cell of every overlap
        pts += [lo, hi, lo + mix32(seed, lo, hi, 7) % (hi - lo + 1)]
    for j in range(6):
        pts.append(mix32(seed, j, 0x5E) & EXT_MASK)
        pts.append(INT + (mix32(seed, j, 0x5F) & 0xFF))
    out: List[int] = []
    seen = set()
    for p in pts:
        c = m.canon(p)
        if c in seen or m.info(c)[1] == "dev":
            continue
        seen.add(c)
        out.append(c)
    return out


# --------------------------------------------------------------------------------------- describing accesses
PLAIN_REGIONS = ("ram", "ram-top256", "int", "int-io", "card-beyond", "card-reseat", "romslice", "lcd", "code")


def describe(m: Model, addr: int, nbytes: int) -> Tuple[str, List[str]]:
    """(regions string, situation flags) of an access -- semantic, no raw values.

    flags: a24 (address >= 2^24), hi-mapped / hi-plain (some byte address lies in 0x100100..0xFFFFFF and the access
    touches / does not touch a cell in an overlay, read-only range, ROM or the mirror target RAM), mir (a byte address is a non-canonical mirror
    alias), split (the bytes' canonical cells are not consecutive), int-end (multi-byte access running past internal
    offset 0xFF), ext-top (multi-byte access running from external space into 0x100000), mir-split (mir + split),
    ovl-edge (multi-byte access with some bytes inside overlays and some outside every overlay), ro-edge
    (multi-byte access with some bytes in a read-only range / ROM window and some not), kb-data-ovl (Python, a
    property of the configuration: a RAM/ROM overlay lies wholly inside the key-port block 0x1000F0..0x1000F2, which
    PCE500Memory takes for the keyboard port overlay), sysimg (Rust, a property of the configuration: the ROM image
    was loaded through the system-image entry point)."""
    cells = m.cells(addr, nbytes)
    names: List[str] = []
    per_byte: List[str] = []
    for c in cells:
        n = m.info(c)[0]
        per_byte.append(n)
        if not names or names[-1] != n:
            names.append(n)
    flags: List[str] = []
    if addr >= 0x1000000:
        flags.append("a24")
    hi = mir = False
    for i in range(nbytes):
        r = ((addr + i) & 0xFFFFFFFF) & 0xFFFFFF
        if r >= INT + 0x100:
            hi = True
        elif r < INT and m.mirror and MIRROR_LO <= r < MIRROR_BASE:
            mir = True
    if hi:
        # an access through 0x100100..0xFFFFFF: does it touch any mapped (overlay / read-only / ROM / mirror-RAM) cell?
        plain = all(n in PLAIN_REGIONS for n in per_byte) and not any(m.in_overlay(c) for c in cells)
        flags.append("hi-plain" if plain else "hi-mapped")
    if mir:
        flags.append("mir")
    split = False
    for i in range(len(cells) - 1):
        a, b = cells[i], cells[i + 1]
        if b != a + 1 or (a < INT) != (b < INT):
            split = True
            break
    if split:
        flags.append("split")
    if m.kb_data_ovl:
        flags.append("kb-data-ovl")
    if (m.cfg.get("rom") or {}).get("api") == "sysimg":
        flags.append("sysimg")  # configuration: ROM image through load_pce500_system_image (names the entry point)
    if nbytes > 1:
        first = addr & 0xFFFFFF
        last = first + nbytes - 1
        if INT <= first < INT + 0x100 and last >= INT + 0x100:
            flags.append("int-end")
        if first < INT <= last:
            flags.append("ext-top")
        if mir and split:
            flags.append("mir-split")
        if len({m.in_overlay(c) for c in cells}) > 1:
            flags.append("ovl-edge")
        ro = [n in ("ro", "rom") for n in per_byte]
        if any(ro) and not all(ro):
            flags.append("ro-edge")
    return "|".join(names), flags
