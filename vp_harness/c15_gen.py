"""C15 history generator: deterministic (gen_state.Stream) sequences of LCD-window accesses.

An op is ["w", addr, value], ["r", addr], or one of the bulk verbs ["W", addr, v0, step, n] (n writes of
(v0 + i*step) & 0xFF to the same address) / ["R", addr, n] (n reads of the same address).  Addresses: window base 0x2000 / 0xA000, bits 4-11 arbitrary
(both models declare 4 KiB windows folded onto the low nibble), low nibble = cs<<2 | di<<1 | rw.

Profiles
  strict   every write goes to a write address (A0=0) and every read to a read address (A0=1); all four chip
           selects (both / right / left / none) for both directions.
  hostile  additionally raw accesses over all 16 low-nibble decodings in both directions (writes to read
           addresses, reads from write addresses).

Long-range dimensions (round 3)
  * data runs / read sweeps of 65..500+ accesses in ONE stretch (the 64-column counter wraps several times);
  * "un-polled stretches": the number of writes a chip accepts between two status polls is a boundary-weighted
    dimension (2^k - 1, 2^k, 2^k + 1 for the usual counter widths, up to 2^17); the stretch is assembled from
    1-3 bulk verbs (own chip select or CS=both, instruction or data, either window) so that, together with what
    the history already wrote since the chip's last poll, the total is exactly the chosen count.
  The size of a history is bounded by `budget` (expanded accesses); one history per shard gets a forced stretch
  of `big` writes (2^15 .. 3*2^16).
"""

from __future__ import annotations

from typing import Any, List, Optional

from .gen_state import Stream

CS_BOTH, CS_RIGHT, CS_LEFT, CS_NONE = 0, 1, 2, 3
_CS_WRITE = (CS_LEFT, CS_LEFT, CS_LEFT, CS_RIGHT, CS_RIGHT, CS_RIGHT, CS_BOTH, CS_BOTH, CS_NONE)
_CS_READ = (CS_LEFT, CS_LEFT, CS_LEFT, CS_LEFT, CS_RIGHT, CS_RIGHT, CS_RIGHT, CS_RIGHT, CS_BOTH, CS_NONE)
_CS_CHIP = (CS_LEFT, CS_RIGHT)


def addr(st: Stream, cs: int, di: int, rw: int) -> int:
    base = st.choice((0x2000, 0xA000))
    k = st.below(8)
    hi = 0 if k < 4 else (0xFF if k == 4 else st.below(256))
    return base | (hi << 4) | (cs << 2) | (di << 1) | rw


def instr_value(st: Stream, kind: int) -> int:
    if kind == 0:  # on/off: only bit 0 counts; bits 1-5 are don't-care in the byte
        return st.choice((0x3F, 0x3E, 0x01, 0x00, st.below(64)))
    if kind == 1:  # set Y
        return 0x40 | st.choice((0, 1, 55, 56, 62, 63, st.below(64), st.below(64)))
    if kind == 2:  # set page: 3 bits; bits 3-5 don't-care
        return 0x80 | st.choice((st.below(8), st.below(8), 0x38 | st.below(8), st.below(64)))
    return 0xC0 | st.below(64)



RUN_LENGTHS = (65, 127, 128, 129, 130, 191, 192, 193, 200, 256, 257, 500)
STEPS = (1, 1, 3, 5, 7, 0x11, 0x3F, 0, 0xFF)
BOUND_SMALL = (15, 16, 17, 63, 64, 65, 127, 128, 129, 255, 256, 257, 511, 512, 513, 1023, 1024, 1025)
BOUND_MEDIUM = (2047, 2048, 4095, 4096, 4097, 8192)
BOUND_BIG = (65536, 65535, 131072, 65537, 32768, 196608, 131071, 32767)
BUDGET = {"small": 2600, "medium": 14000}


def gen_history(st: Stream, profile: str, target: int, budget: str = "small",
                big: Optional[int] = None) -> List[List[Any]]:
    ops: List[List[Any]] = []
    unpolled = [0, 0]  # generator-side bookkeeping: writes emitted for [left, right] since the chip's last poll
    room = [BUDGET.get(budget, BUDGET["small"])]

    def note(a: int, is_write: bool, n: int = 1) -> None:
        cs, di, rw = (a >> 2) & 3, (a >> 1) & 1, a & 1
        chips = ((0, 1), (1,), (0,), ())[cs]
        if is_write and rw == 0:
            for ci in chips:
                unpolled[ci] += n
        elif not is_write and rw == 1 and di == 0 and len(chips) == 1:
            unpolled[chips[0]] = 0

    def w(cs: int, di: int, v: int) -> None:
        a = addr(st, cs, di, 0)
        ops.append(["w", a, v & 0xFF])
        note(a, True)

    def r(cs: int, di: int) -> None:
        a = addr(st, cs, di, 1)
        ops.append(["r", a])
        note(a, False)

    def wrun(cs: int, di: int, n: int) -> None:
        if n <= 0:
            return
        if n == 1:
            w(cs, di, st.byte())
            return
        a = addr(st, cs, di, 0)
        ops.append(["W", a, st.byte(), st.choice(STEPS), n])
        note(a, True, n)
        room[0] -= n

    def rrun(cs: int, di: int, n: int) -> None:
        a = addr(st, cs, di, 1)
        ops.append(["R", a, n])
        note(a, False)
        room[0] -= n

    def stretch(count: int) -> None:
        """Make one chip accept exactly `count` writes between two status polls, then poll it."""
        chip_cs = st.choice(_CS_CHIP)
        ci = 0 if chip_cs == CS_LEFT else 1
        if st.chance(1, 2) or unpolled[ci] >= count:
            r(chip_cs, 0)
        need = count - unpolled[ci]
        parts = st.choice((1, 1, 2, 3))
        while need > 0:
            n = need if parts <= 1 else 1 + st.below(need)
            parts -= 1
            wrun(st.choice((chip_cs, chip_cs, CS_BOTH)), st.choice((0, 1, 1)), n)
            need -= n
            if need > 0 and st.chance(1, 3):  # accesses that do not poll this chip may sit in between
                k = st.below(3)
                if k == 0:
                    r(chip_cs, 1)
                elif k == 1:
                    r(_CS_CHIP[1 - _CS_CHIP.index(chip_cs)], 0)
                else:
                    r(st.choice((CS_NONE, CS_BOTH)), 0)
        if st.chance(1, 4):
            r(chip_cs, 1)
        r(chip_cs, 0)
        r(chip_cs, 0)

    # usually switch the chips on first (otherwise on/off is rarely exercised in its "on" state)
    if st.chance(3, 4):
        w(st.choice((CS_BOTH, CS_BOTH, CS_LEFT, CS_RIGHT)), 0, 0x3F)
    big_at = 1 + st.below(12) if big else -1
    while len(ops) < target:
        if big and len(ops) >= big_at:
            stretch(big)
            big = None
            continue
        k = st.below(100)
        if k < 20:  # single instruction write
            w(st.choice(_CS_WRITE), 0, instr_value(st, st.below(4)))
        elif k < 36:  # single data write
            w(st.choice(_CS_WRITE), 1, st.byte())
        elif k < 45:  # single data read
            r(st.choice(_CS_READ), 1)
        elif k < 52:  # status read
            r(st.choice(_CS_READ), 0)
        elif k < 60:  # fill a page (and a bit more): column wrap-around
            cs = st.choice((CS_LEFT, CS_RIGHT, CS_BOTH))
            w(cs, 0, instr_value(st, 2))
            if st.chance(2, 3):
                w(cs, 0, instr_value(st, 1))
            n = st.choice((3, 9, 64, 65, 66, 70, 129, 130, 200)) if st.chance(1, 2) else 1 + st.below(80)
            for _ in range(n):
                w(cs, 1, st.byte())
        elif k < 67:  # read sweep (dummy read + data, across the wrap)
            cs = st.choice(_CS_CHIP)
            if st.chance(3, 4):
                w(st.choice((cs, cs, CS_BOTH)), 0, instr_value(st, 1))
            for _ in range(st.choice((2, 3, 5, 64, 65, 66, 1 + st.below(70)))):
                r(cs, 1)
        elif k < 74:  # read-modify-write of one column
            cs = st.choice(_CS_CHIP)
            yv = instr_value(st, 1)
            w(cs, 0, yv)
            r(cs, 1)
            r(cs, 1)
            w(cs, 0, yv)
            w(cs, 1, st.byte())
        elif k < 79:  # write then poll status (busy flag), twice
            cs = st.choice(_CS_CHIP)
            w(st.choice((cs, CS_BOTH)), st.below(2), st.byte())
            r(cs, 0)
            r(cs, 0)
        elif k < 84:  # interleave the two chips
            for _ in range(2 + st.below(6)):
                cs = st.choice(_CS_CHIP)
                if st.chance(1, 2):
                    w(cs, 1, st.byte())
                else:
                    r(cs, 1)
        elif k < 88:  # one long data run: the column counter wraps several times without any instruction between
            cs = st.choice((CS_LEFT, CS_RIGHT, CS_BOTH))
            if st.chance(1, 2):
                w(cs, 0, instr_value(st, 2))
            if st.chance(1, 2):
                w(cs, 0, instr_value(st, 1))
            n = st.choice(RUN_LENGTHS) if st.chance(2, 3) else 64 * (2 + st.below(6)) + st.below(64)
            if n <= room[0]:
                wrun(cs, 1, n)
        elif k < 90:  # one long read run (data sweep over several wraps / repeated status polls)
            cs = st.choice(_CS_CHIP)
            if st.chance(2, 3):
                n = st.choice(RUN_LENGTHS)
                if n <= room[0]:
                    rrun(cs, 1, n)
            else:
                rrun(cs, 0, st.choice((2, 3, 255, 256, 257)))
        elif k < 94:  # un-polled stretch with a boundary count
            pool = BOUND_SMALL + (BOUND_MEDIUM if budget != "small" else ())
            count = st.choice(pool)
            if count <= room[0]:
                stretch(count)
        elif profile == "hostile":
            # raw accesses: any of the 16 decodings in either direction (reads twice as often as writes: a
            # write to a read address currently ends the comparison of a history, see known findings)
            for _ in range(1 + st.below(3)):
                lo = st.below(16)
                a = addr(st, (lo >> 2) & 3, (lo >> 1) & 1, lo & 1)
                if st.chance(1, 3):
                    ops.append(["w", a, st.byte()])
                    note(a, True)
                else:
                    ops.append(["r", a])
                    note(a, False)
        else:
            w(CS_NONE, st.below(2), st.byte())
            r(st.choice((CS_NONE, CS_BOTH)), st.below(2))
    return ops


# ---------------------------------------------------------------------------------------------------------
# Round 5: bystander operations -- things a program / host does to the live LCD that are NOT accesses to the LCD
# windows: observations through the public surface ("S") and snapshot restores the implementation refuses ("L").
# Whatever they are, the chips' state and every later read value must remain a function of the window accesses.
# ---------------------------------------------------------------------------------------------------------

OBSERVERS = ("snapshot", "display", "stats", "save", "save")
RESTORE_DEFECTS = ("payload-size", "payload-size", "payload-size", "geometry", "chip-count", "missing-field")
_SIZES = (0, 1, 63, 511, 512, 513, 700, 1023, 1025, 1087, 1536, 2047, 2048)


def _payload_hex(seed: int, n: int) -> str:
    from .core import mix32

    block = bytes(mix32(seed, 0x10AD, i) & 0xFF for i in range(64))
    return (block * (n // 64 + 1))[:n].hex()


def gen_observer(st: Stream) -> List[Any]:
    return ["S", st.choice(OBSERVERS)]


def gen_refused_restore(st: Stream) -> List[Any]:
    """A foreign snapshot (generated registers / VRAM) with ONE generated defect that makes both implementations
    refuse it: wrong payload size for a well-formed geometry, wrong geometry, wrong chip count, missing field.
    Lengths are chosen so that the payload never matches len(chips) * pages * width (the Python acceptance rule)
    nor 2 * 8 * 64 with a well-formed header (the Rust one); whether it WAS refused is decided by the
    implementation's own answer, never assumed."""
    defect = st.choice(RESTORE_DEFECTS)
    chips = []
    for _ in range(2):
        chips.append({"on": st.chance(1, 2), "start_line": st.below(64), "page": st.below(8),
                      "y_address": st.below(64), "busy": st.chance(1, 2),
                      "instruction_count": st.below(1000), "data_write_count": st.below(1000),
                      "data_read_count": st.below(1000)})
    meta = {"kind": "hd61202", "chip_count": 2, "pages": 8, "width": 64, "chips": chips,
            "cs_both_count": st.below(100), "cs_left_count": st.below(100), "cs_right_count": st.below(100)}
    n = 1024
    if defect == "payload-size":
        n = st.choice(_SIZES + (st.below(2100),))
    elif defect == "geometry":
        if st.chance(1, 2):
            meta["pages"] = st.choice((1, 4, 7, 9, 16))
        else:
            meta["width"] = st.choice((32, 63, 65, 128))
    elif defect == "chip-count":
        meta["chip_count"] = st.choice((0, 1, 3, 4))
        n = meta["chip_count"] * 512
    else:
        del meta[st.choice(("chip_count", "pages", "width"))]
        n = st.choice((512, 1023, 1025, 1536))
    if n == len(chips) * int(meta.get("pages", 8)) * int(meta.get("width", 64)):
        n += 1 + st.below(64)
    return ["L", meta, _payload_hex(st.below(1 << 30), n), defect]


def add_bystanders(st: Stream, ops: List[List[Any]]) -> List[List[Any]]:
    """Insert 1-4 bystander operations at generated positions (half of them directly behind a write op, i.e. inside
    the BUSY window of the written chip / over non-power-on state) and, in half of the histories, append per chip a
    `write ; bystander ; status poll ; status poll` sandwich."""
    out = [list(o) for o in ops]

    def one() -> List[Any]:
        return gen_refused_restore(st) if st.chance(2, 5) else gen_observer(st)

    for _ in range(1 + st.below(4)):
        after_write = [i + 1 for i, o in enumerate(out) if o[0] in ("w", "W") and not (o[1] & 1)]
        if after_write and st.chance(1, 2):
            pos = st.choice(after_write)
        else:
            pos = st.below(len(out) + 1)
        out.insert(pos, one())
    if st.chance(1, 2):
        for cs in (_CS_CHIP if st.chance(1, 2) else (st.choice(_CS_CHIP),)):
            di = st.below(2)
            out.append(["w", addr(st, st.choice((cs, cs, CS_BOTH)), di, 0), st.byte() if di else instr_value(st, st.below(4))])
            out.append(one())
            out.append(["r", addr(st, cs, 0, 1)])
            out.append(["r", addr(st, cs, 0, 1)])
    return out
