"""C15 history generator: deterministic (gen_state.Stream) sequences of LCD-window accesses.

An op is ["w", addr, value] or ["r", addr].  Addresses: window base 0x2000 / 0xA000, bits 4-11 arbitrary
(both models declare 4 KiB windows folded onto the low nibble), low nibble = cs<<2 | di<<1 | rw.

Profiles
  strict   every write goes to a write address (A0=0) and every read to a read address (A0=1); all four chip
           selects (both / right / left / none) for both directions.
  hostile  additionally raw accesses over all 16 low-nibble decodings in both directions (writes to read
           addresses, reads from write addresses).
"""

from __future__ import annotations

from typing import Any, List

from .gen_state import Stream

CS_BOTH, CS_RIGHT, CS_LEFT, CS_NONE = 0, 1, 2, 3
_CS_WRITE = (CS_LEFT, CS_LEFT, CS_LEFT, CS_RIGHT, CS_RIGHT, CS_RIGHT, CS_BOTH, CS_BOTH, CS_NONE)
_CS_READ = (CS_LEFT, CS_LEFT, CS_LEFT, CS_LEFT, CS_RIGHT, CS_RIGHT, CS_RIGHT, CS_RIGHT, CS_BOTH, CS_NONE)
_CS_CHIP = (CS_LEFT, CS_RIGHT)


def addr(st: Stream, cs: int, di: int, rw: int) -> int:
    base = st.choice((0x2000, 0xA000))
    k = st.below(8)
    hi = 0 if k < 4 else (0xFF if k == 4 else st.below(256))
    return base | (hi << 4) | (cs << 2) | (di << 1) | rw


def instr_value(st: Stream, kind: int) -> int:
    if kind == 0:  # on/off: only bit 0 counts; bits 1-5 are don't-care in the byte
        return st.choice((0x3F, 0x3E, 0x01, 0x00, st.below(64)))
    if kind == 1:  # set Y
        return 0x40 | st.choice((0, 1, 55, 56, 62, 63, st.below(64), st.below(64)))
    if kind == 2:  # set page: 3 bits; bits 3-5 don't-care
        return 0x80 | st.choice((st.below(8), st.below(8), 0x38 | st.below(8), st.below(64)))
    return 0xC0 | st.below(64)


def gen_history(st: Stream, profile: str, target: int) -> List[List[Any]]:
    ops: List[List[Any]] = []

    def w(cs: int, di: int, v: int) -> None:
        ops.append(["w", addr(st, cs, di, 0), v & 0xFF])

    def r(cs: int, di: int) -> None:
        ops.append(["r", addr(st, cs, di, 1)])

    # usually switch the chips on first (otherwise on/off is rarely exercised in its "on" state)
    if st.chance(3, 4):
        w(st.choice((CS_BOTH, CS_BOTH, CS_LEFT, CS_RIGHT)), 0, 0x3F)
    while len(ops) < target:
        k = st.below(100)
        if k < 22:  # single instruction write
            w(st.choice(_CS_WRITE), 0, instr_value(st, st.below(4)))
        elif k < 40:  # single data write
            w(st.choice(_CS_WRITE), 1, st.byte())
        elif k < 50:  # single data read
            r(st.choice(_CS_READ), 1)
        elif k < 58:  # status read
            r(st.choice(_CS_READ), 0)
        elif k < 66:  # fill a page (and a bit more): column wrap-around
            cs = st.choice((CS_LEFT, CS_RIGHT, CS_BOTH))
            w(cs, 0, instr_value(st, 2))
            if st.chance(2, 3):
                w(cs, 0, instr_value(st, 1))
            n = st.choice((3, 9, 64, 65, 66, 70, 130)) if st.chance(1, 2) else 1 + st.below(80)
            for _ in range(n):
                w(cs, 1, st.byte())
        elif k < 74:  # read sweep (dummy read + data, across the wrap)
            cs = st.choice(_CS_CHIP)
            if st.chance(3, 4):
                w(st.choice((cs, cs, CS_BOTH)), 0, instr_value(st, 1))
            for _ in range(st.choice((2, 3, 5, 64, 65, 66, 1 + st.below(70)))):
                r(cs, 1)
        elif k < 82:  # read-modify-write of one column
            cs = st.choice(_CS_CHIP)
            yv = instr_value(st, 1)
            w(cs, 0, yv)
            r(cs, 1)
            r(cs, 1)
            w(cs, 0, yv)
            w(cs, 1, st.byte())
        elif k < 88:  # write then poll status (busy flag), twice
            cs = st.choice(_CS_CHIP)
            w(st.choice((cs, CS_BOTH)), st.below(2), st.byte())
            r(cs, 0)
            r(cs, 0)
        elif k < 94:  # interleave the two chips
            for _ in range(2 + st.below(6)):
                cs = st.choice(_CS_CHIP)
                if st.chance(1, 2):
                    w(cs, 1, st.byte())
                else:
                    r(cs, 1)
        elif profile == "hostile":
            # raw accesses: any of the 16 decodings in either direction (reads twice as often as writes: a
            # write to a read address currently ends the comparison of a history, see known findings)
            for _ in range(1 + st.below(3)):
                lo = st.below(16)
                a = addr(st, (lo >> 2) & 3, (lo >> 1) & 1, lo & 1)
                if st.chance(1, 3):
                    ops.append(["w", a, st.byte()])
                else:
                    ops.append(["r", a])
        else:
            w(CS_NONE, st.below(2), st.byte())
            r(st.choice((CS_NONE, CS_BOTH)), st.below(2))
    return ops
