"""C12 helper: drive the Python PC-E500 machine (pce500.PCE500Emulator) through a scenario and report one
observation record per step boundary.  Same record layout as rust/harness/src/machine.rs.

scenario = {"prog": {...c12_rom program spec...}, "imr0", "isr0", "f0", "mti", "sti", "steps",
            "events": [[step_index, kind, arg], ...],
            optional: "bp0"/"px0"/"py0" (initial IMEM base pointer / index registers), "imfill" (seed of a
            pattern written to the user IMEM 00-EB), "kbirq" (keyboard-interrupt enable of the machine),
            "stkwin" (bytes of stack below STACK_TOP that are observed; default c12_rom.STACK_WINDOW),
            "s0" (initial system stack pointer; default STACK_TOP; 0..4 = firmware has not loaded S yet)}
kinds: key_down/key_up/key_inject (arg = key name), on_down, on_up.

Observation: {"pc","s","f","ba","i","x","y","u","imr","isr","pw" (0 running, 1 halted, 2 off), "ic" (instructions
executed), "cyc", "irq" (model's own delivery counter), "inint", "pend", "lat", "nm","ns" (next timer targets),
"src" (model's last delivered source), "stk" (hex of STACK_WINDOW bytes below the initial S), "im" (hex of the
internal-memory bytes IM_LO..IM_HI-1: user RAM and BP/PX/PY)}.
run() returns {"obs0": record after setup, "steps": [{"b": record after host events (only when events were
applied), "a": record after the step, "dl": [[addr, value, isr_now, imr_now], ...] stack-window writes during the
step (Python only; lets the monitor see the ISR/IMR bytes at the instant of the frame push)}], "err": str|None}.

The adapter only sets up, pokes documented registers the way the maintainers' own pce500 tests do, calls the
public step()/press_key()/release_key() and reads state; the write log wraps memory.write_byte for observation
only.
"""

from __future__ import annotations

import contextlib
import io
from typing import Any, Dict, List, Optional

from . import c12_rom as R

INT = 0x100000
_CACHE: Dict[str, Any] = {}


def _mods():
    if not _CACHE:
        with contextlib.redirect_stdout(io.StringIO()):
            from pce500 import PCE500Emulator
            from sc62015.pysc62015.emulator import RegisterName
        _CACHE["E"] = PCE500Emulator
        _CACHE["R"] = RegisterName
    return _CACHE["E"], _CACHE["R"]


class PyMachine:
    def __init__(self, sc: Dict[str, Any]) -> None:
        E, RN = _mods()
        self.RN = RN
        segs, self.meta = R.layout(sc["prog"])
        emu = E(perfetto_trace=False, save_lcd_on_exit=False)
        self.emu = emu
        emu.load_rom(R.image(segs))
        emu.reset()
        self.reset_pc = int(emu.cpu.regs.get(RN.PC))
        regs = emu.cpu.regs
        regs.set(RN.PC, R.MAIN)
        regs.set(RN.S, R.initial_s(sc))
        regs.set(RN.U, R.USTACK_TOP)
        regs.set(RN.BA, int(sc.get("ba0", 0x1234)))
        regs.set(RN.I, int(sc.get("i0", 0x0001)))
        regs.set(RN.X, int(sc.get("x0", 0x0B8100)))
        regs.set(RN.Y, int(sc.get("y0", 0x0B8200)))
        regs.set(RN.F, int(sc.get("f0", 0)) & 0xFF)
        mti, sti = int(sc.get("mti", 0)), int(sc.get("sti", 0))
        emu._timer_enabled = bool(mti or sti)
        emu._timer_mti_period = mti
        emu._timer_sti_period = sti
        emu._timer_next_mti = emu.cycle_count + mti
        emu._timer_next_sti = emu.cycle_count + sti
        mem = emu.memory
        # strobe every keyboard column so that key presses are visible to the matrix scan
        mem.write_byte(INT + 0xF0, 0xFF)
        mem.write_byte(INT + 0xF1, 0x07)
        # initial internal memory of the interrupted program: pattern-filled user RAM, BP / PX / PY
        for off, data in R.imem_init(sc):
            for i, b in enumerate(data):
                mem.write_byte(INT + off + i, b)
        if sc.get("fast"):
            # documented execution mode of PCE500Emulator.step ("Minimal execution path for speed"): a public attribute
            # that pce500/run_pce500.py and pce500/cli.py switch on (default for the LLAMA backend and for long runs)
            emu.fast_mode = True
        if sc.get("kbirq") is not None:
            # keyboard-interrupt enable of the machine: a snapshot field restored by load_snapshot(); set directly
            # the way pce500/tests/test_snapshot_roundtrip.py does
            emu._kb_irq_enabled = bool(sc["kbirq"])
        mem.write_byte(INT + R.ISR, int(sc.get("isr0", 0)) & 0xFF)
        mem.write_byte(INT + R.IMR, int(sc.get("imr0", 0)) & 0xFF)
        self.lo = R.STACK_TOP - R.stack_window(sc)
        self.hi = R.STACK_TOP
        self.dl: List[List[int]] = []
        ext = mem.external_memory
        orig = mem.write_byte
        lo, hi, dl = self.lo, self.hi, self.dl

        def logged(address: int, value: int, cpu_pc: Optional[int] = None) -> None:
            a = address & 0xFFFFFF
            if lo <= a < hi:
                n = len(ext)
                dl.append([a, value & 0xFF, ext[n - 256 + R.ISR], ext[n - 256 + R.IMR]])
            return orig(address, value, cpu_pc)

        mem.write_byte = logged  # type: ignore[method-assign]

    def observe(self) -> Dict[str, Any]:
        emu, RN = self.emu, self.RN
        g = emu.cpu.regs.get
        ext = emu.memory.external_memory
        n = len(ext)
        return {
            "pc": int(g(RN.PC)), "s": int(g(RN.S)), "f": int(g(RN.F)) & 0xFF, "ba": int(g(RN.BA)),
            "i": int(g(RN.I)), "x": int(g(RN.X)), "y": int(g(RN.Y)), "u": int(g(RN.U)),
            "imr": ext[n - 256 + R.IMR], "isr": ext[n - 256 + R.ISR],
            "pw": 1 if bool(getattr(emu.cpu.state, "halted", False)) else 0,
            "ic": int(emu.instruction_count), "cyc": int(emu.cycle_count),
            "irq": int(emu.irq_counts.get("total", 0)),
            "inint": bool(emu._in_interrupt), "pend": bool(emu._irq_pending), "lat": bool(emu._key_irq_latched),
            "nm": int(emu._timer_next_mti), "ns": int(emu._timer_next_sti),
            "src": emu.last_irq.get("src"),
            "stk": bytes(ext[self.lo:self.hi]).hex(),
            "im": bytes(ext[n - 256 + R.IM_LO:n - 256 + R.IM_HI]).hex(),
        }

    def event(self, kind: str, arg: Any) -> None:
        emu = self.emu
        if kind in ("key_down", "key_inject"):
            emu.press_key(str(arg))
        elif kind == "key_up":
            emu.release_key(str(arg))
        elif kind == "on_down":
            emu.press_key("KEY_ON")
        elif kind == "on_up":
            emu.release_key("KEY_ON")
        else:
            raise ValueError(f"unknown event {kind}")

    def close(self) -> None:
        try:
            self.emu.save_lcd_on_exit = False
            self.emu.close()
        except Exception:
            pass


def run(sc: Dict[str, Any]) -> Dict[str, Any]:
    with contextlib.redirect_stdout(io.StringIO()):
        m = PyMachine(sc)
        out: Dict[str, Any] = {"obs0": m.observe(), "steps": [], "err": None, "reset_pc": m.reset_pc}
        evs: Dict[int, List[List[Any]]] = {}
        for ev in sc.get("events", []):
            evs.setdefault(int(ev[0]), []).append(ev)
        try:
            for k in range(int(sc["steps"])):
                rec: Dict[str, Any] = {}
                if k in evs:
                    for ev in evs[k]:
                        m.event(ev[1], ev[2] if len(ev) > 2 else None)
                    rec["b"] = m.observe()
                del m.dl[:]
                try:
                    m.emu.step()
                except Exception as exc:  # noqa: BLE001 - reported to the monitor
                    out["err"] = f"step {k}: {type(exc).__name__}: {str(exc)[:160]}"
                    break
                rec["a"] = m.observe()
                if m.dl:
                    rec["dl"] = [list(x) for x in m.dl]
                out["steps"].append(rec)
        finally:
            m.close()
    return out
