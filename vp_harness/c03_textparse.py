"""Rendered token stream -> (mnemonic, [operand AST]) for the C03/C04 reference semantics.

Works only from token *kinds* and punctuation, i.e. from what a Binary Ninja user sees in the
disassembly.  Nothing here imports operand classes from the repository; the only repository function used
is the decoder+renderer through vp_harness.textparse.tokens().

Operand AST (plain tuples so that they are JSON-able and hashable):
    ("reg",  name)                              A B IL IH BA I X Y U S F IMR PC
    ("imm",  value, nbytes)                     nbytes from the number of printed hex digits (2/4/5 -> 1/2/3)
    ("rel",  signed_offset)                     "+nn" / "-nn" outside brackets (JR forms)
    ("imem", mode, n)                           mode in N BP_N PX_N PY_N BP_PX BP_PY ; n None for BP_PX/BP_PY
    ("eabs", addr)                              [lmn]
    ("ereg", reg, kind, offset)                 kind in simple postinc predec offset ; offset signed (0 otherwise)
    ("eind", imem_operand, offset)              [(n)] / [(m)+n] / [(m)-n]

Internal-memory register *names* printed inside "( )" are translated through the README "Internal Memory
Map" / "Logic Registers" tables (copied below from the README, not from opcodes.py).
"""

from __future__ import annotations

from typing import Any, List, Optional, Tuple

from . import textparse as TP

Tok = Tuple[str, str]

# README.md "Internal Memory Map" and "Logic Registers" tables.
README_IMEM_NAMES = {
    "BP": 0xEC, "PX": 0xED, "PY": 0xEE, "AMC": 0xEF, "KOL": 0xF0, "KOH": 0xF1, "KIL": 0xF2, "EOL": 0xF3,
    "EOH": 0xF4, "EIL": 0xF5, "EIH": 0xF6, "UCR": 0xF7, "USR": 0xF8, "RXD": 0xF9, "TXD": 0xFA, "IMR": 0xFB,
    "ISR": 0xFC, "SCR": 0xFD, "LCC": 0xFE, "SSR": 0xFF,
    "BL": 0xD4, "BH": 0xD5, "CL": 0xD6, "CH": 0xD7, "DL": 0xD8, "DH": 0xD9,
    # SI / DI are 3-byte pointers "[SI], [SI+1], [SI+2]" at 0xDA.. / 0xDD.. ; IOCS_WS at 0xE6..0xE8
    "SI": 0xDA, "SI1": 0xDB, "SI2": 0xDC, "DI": 0xDD, "DI1": 0xDE, "DI2": 0xDF,
    "IOCS_WS": 0xE6, "IOCS_WS1": 0xE7, "IOCS_WS2": 0xE8,
}

REG_WIDTH = {"A": 1, "B": 1, "IL": 1, "IH": 1, "BA": 2, "I": 2, "X": 3, "Y": 3, "U": 3, "S": 3, "PC": 3,
             "F": 1, "IMR": 1}


class ParseError(Exception):
    pass


def _hexval(t: str) -> int:
    return int(t, 16)


def _parse_imem(inner: List[Tok]) -> Tuple[str, str, Optional[int]]:
    """Tokens between "(" and ")"."""
    kinds = [k for k, _ in inner]
    texts = [t for _, t in inner]
    if len(inner) == 1:
        k, t = inner[0]
        if k == "Int":
            return ("imem", "N", _hexval(t))
        if k == "Text":
            if t not in README_IMEM_NAMES:
                raise ParseError(f"unknown internal-memory name {t!r}")
            return ("imem", "N", README_IMEM_NAMES[t])
        raise ParseError(f"unexpected token in ( ): {inner}")
    if len(inner) == 3 and kinds[0] == "Text" and texts[1] == "+":
        base = texts[0]
        if kinds[2] == "Int":
            n = _hexval(texts[2])
            if base == "BP":
                return ("imem", "BP_N", n)
            if base == "PX":
                return ("imem", "PX_N", n)
            if base == "PY":
                return ("imem", "PY_N", n)
        elif kinds[2] == "Text" and base == "BP":
            if texts[2] == "PX":
                return ("imem", "BP_PX", None)
            if texts[2] == "PY":
                return ("imem", "BP_PY", None)
    raise ParseError(f"unrecognised internal operand {texts}")


def _signed(t: str) -> int:
    if t[0] == "+":
        return _hexval(t[1:])
    if t[0] == "-":
        return -_hexval(t[1:])
    raise ParseError(f"offset without sign: {t}")


def _parse_emem(inner: List[Tok]) -> Tuple[Any, ...]:
    """Tokens between "[" and "]"."""
    kinds = [k for k, _ in inner]
    texts = [t for _, t in inner]
    if kinds == ["Addr"]:
        return ("eabs", _hexval(texts[0]))
    if kinds == ["Reg"]:
        return ("ereg", texts[0], "simple", 0)
    if kinds == ["Reg", "Text"] and texts[1] == "++":
        return ("ereg", texts[0], "postinc", 0)
    if kinds == ["Text", "Reg"] and texts[0] == "--":
        return ("ereg", texts[1], "predec", 0)
    if kinds == ["Reg", "Int"] and texts[1][0] in "+-":
        return ("ereg", texts[0], "offset", _signed(texts[1]))
    if kinds and kinds[0] == "BegMem" and texts[0] == "(":
        # [(..)] or [(..)+nn]
        try:
            close = next(i for i, (k, t) in enumerate(inner) if k == "EndMem" and t == ")")
        except StopIteration:
            raise ParseError("unterminated ( inside [ ]")
        im = _parse_imem(inner[1:close])
        rest = inner[close + 1:]
        if not rest:
            return ("eind", im, 0)
        if len(rest) == 1 and rest[0][0] == "Int" and rest[0][1][0] in "+-":
            return ("eind", im, _signed(rest[0][1]))
    raise ParseError(f"unrecognised external operand {texts}")


def parse_operand(toks: List[Tok]) -> Tuple[Any, ...]:
    if not toks:
        raise ParseError("empty operand")
    k0, t0 = toks[0]
    if k0 == "BegMem":
        kl, tl = toks[-1]
        if kl != "EndMem":
            raise ParseError("memory operand without closing bracket")
        if t0 == "(" and tl == ")":
            return _parse_imem(toks[1:-1])
        if t0 == "[" and tl == "]":
            return _parse_emem(toks[1:-1])
        raise ParseError("mismatched brackets")
    if len(toks) == 1:
        if k0 == "Reg":
            if t0 not in REG_WIDTH:
                raise ParseError(f"unknown register {t0}")
            return ("reg", t0)
        if k0 == "Int":
            if t0[0] in "+-":
                return ("rel", _signed(t0))
            nb = {2: 1, 4: 2, 5: 3}.get(len(t0))
            if nb is None:
                raise ParseError(f"immediate with {len(t0)} digits")
            return ("imm", _hexval(t0), nb)
    raise ParseError(f"unrecognised operand {toks}")


def split_operands(toks: List[Tok]) -> List[List[Tok]]:
    """Operand token lists split at the ", " separators; the "+" separators inside ( ) are kept."""
    ops: List[List[Tok]] = []
    cur: List[Tok] = []
    seen_instr = False
    for k, t in toks:
        if k == "Instr" and not seen_instr:
            seen_instr = True
            continue
        if k == "Sep":
            if "," in t:
                ops.append(cur)
                cur = []
                continue
            if t.strip() == "":
                continue  # padding between mnemonic and operands
        cur.append((k, t))
    if cur:
        ops.append(cur)
    return ops


def parse(toks: List[Tok]) -> Tuple[str, List[Tuple[Any, ...]]]:
    """(mnemonic, operands).  Raises ParseError for anything not understood (caller counts and skips)."""
    mn = TP.mnemonic(toks)
    ops = [parse_operand(o) for o in split_operands(toks)]
    return mn, ops


def op_class(op: Tuple[Any, ...]) -> str:
    """Abstract operand class used in fingerprints (no raw values, no addressing mode)."""
    k = op[0]
    if k == "reg":
        return {1: "r1", 2: "r2", 3: "r3"}[REG_WIDTH[op[1]]] if op[1] not in ("F", "IMR", "PC", "B") else op[1]
    if k == "imm":
        return "imm"
    if k == "rel":
        return "rel"
    if k == "imem":
        return "(imem)"
    if k == "eabs":
        return "[abs]"
    if k == "ereg":
        return {"simple": "[r3]", "postinc": "[r3++]", "predec": "[--r3]", "offset": "[r3+-n]"}[op[2]]
    if k == "eind":
        return "[(imem)+-n]" if op[2] else "[(imem)]"
    return "?"


def where_of(mn: str, ops: List[Tuple[Any, ...]]) -> str:
    return mn + (" " + ",".join(op_class(o) for o in ops) if ops else "")
