"""Persistent pipe client for the Rust harness binary (rust/target/release/vh).

build() compiles the harness against /repo's *current* Rust sources (cargo's incremental build is a
no-op when nothing changed); it must be called once in the parent before forking shard workers.
"""

from __future__ import annotations

import fcntl
import json
import os
import subprocess
from typing import Any, Dict, List, Optional

from .core import ROOT, HarnessError

RUST_DIR = os.path.join(ROOT, "rust")
BIN = os.path.join(RUST_DIR, "target", "release", "vh")
_built = False


def build(force: bool = False) -> str:
    """cargo build --offline --release (serialised by a file lock). Raises HarnessError on failure."""
    global _built
    if _built and not force:
        return BIN
    env = dict(os.environ)
    env["CARGO_NET_OFFLINE"] = "true"
    os.makedirs(os.path.join(RUST_DIR, "target"), exist_ok=True)
    lock_path = os.path.join(RUST_DIR, "target", ".vh-build.lock")
    with open(lock_path, "w") as lock:
        fcntl.flock(lock, fcntl.LOCK_EX)
        try:
            proc = subprocess.run(
                ["cargo", "build", "--offline", "--release", "-q"],
                cwd=RUST_DIR, env=env, stdout=subprocess.PIPE, stderr=subprocess.STDOUT, text=True)
        finally:
            fcntl.flock(lock, fcntl.LOCK_UN)
    if proc.returncode != 0 or not os.path.exists(BIN):
        tail = "\n".join(proc.stdout.splitlines()[-40:])
        raise HarnessError(f"cargo build of the Rust harness failed (rc={proc.returncode}):\n{tail}")
    _built = True
    return BIN


class Rust:
    """One harness subprocess. Not fork-safe: create it inside the worker."""

    def __init__(self) -> None:
        if not os.path.exists(BIN):
            build()
        # buffered pipes (multi-megabyte replies would otherwise be read one byte per syscall); stdin is
        # flushed explicitly after every request
        self.proc = subprocess.Popen([BIN], stdin=subprocess.PIPE, stdout=subprocess.PIPE,
                                     bufsize=1 << 16, cwd=RUST_DIR)

    def _spawn(self) -> None:
        self.proc = subprocess.Popen([BIN], stdin=subprocess.PIPE, stdout=subprocess.PIPE,
                                     bufsize=1 << 16, cwd=RUST_DIR)

    def call(self, req: Dict[str, Any], retry: bool = False) -> Dict[str, Any]:
        """One request/response. retry=True (only for requests that do not depend on harness-side session
        state) restarts a dead harness process once and repeats the request."""
        assert self.proc.stdin is not None and self.proc.stdout is not None
        data = (json.dumps(req, separators=(",", ":")) + "\n").encode()
        for attempt in (0, 1):
            try:
                self.proc.stdin.write(data)
                self.proc.stdin.flush()
                line = self.proc.stdout.readline()
                if line:
                    return json.loads(line)
                err = f"rust harness died (rc={self.proc.poll()})"
            except (BrokenPipeError, OSError) as exc:
                err = f"rust harness pipe failed: {exc!r}"
            if retry and attempt == 0:
                try:
                    self.proc.kill()
                except Exception:
                    pass
                self._spawn()
                continue
            raise HarnessError(f"{err} on request {str(req)[:200]}")
        raise HarnessError("unreachable")

    def cpu_batch(self, cases: List[Dict[str, Any]]) -> List[Dict[str, Any]]:
        stateless = not any(c.get("keep") for c in cases)
        resp = self.call({"cmd": "cpu.batch", "cases": cases}, retry=stateless)
        if not resp.get("ok"):
            raise HarnessError(f"cpu.batch failed: {resp}")
        return resp["results"]

    def close(self) -> None:
        try:
            if self.proc.stdin:
                self.proc.stdin.close()
            self.proc.wait(timeout=5)
        except Exception:
            self.proc.kill()

    def __enter__(self) -> "Rust":
        return self

    def __exit__(self, *a: Any) -> None:
        self.close()


_shared: Optional[Rust] = None
_shared_pid: Optional[int] = None


def shared() -> Rust:
    """Per-process shared client (re-created after fork)."""
    global _shared, _shared_pid
    if _shared is None or _shared_pid != os.getpid() or _shared.proc.poll() is not None:
        _shared = Rust()
        _shared_pid = os.getpid()
    return _shared
