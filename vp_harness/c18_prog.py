"""C18 helper: program / machine-image generator for the async-vs-sync CPU equivalence, and its verdict function.

A CPU *case* (everything the Rust harness needs, no generators involved on replay):
    {"kind": "cpu", "image": [[addr, hex], ...], "imem": [[off, val], ...], "regs": {...},
     "timer": {"enabled": b, "mti": n, "sti": n}, "keys": [matrix codes], "warm": w,
     "slice": s | absent (runner default), "calls": [n1, n2, ...], "fresh_runner": bool,
     "interludes": [script | None, ...]}   # optional, aligned with calls: before call i (and before a fresh
                                           # runner is built) block_on of a scripted future that sleeps and
                                           # emits events runs on the thread (c18_sched: interlude scripts)
Twin A: w x CoreRuntime::step, then AsyncRuntimeRunner::run_instructions(n_i) for each call.
Twin B: w x CoreRuntime::step, then CoreRuntime::step(n_i) for each call.
"""

from __future__ import annotations

from typing import Any, Dict, List, Optional, Tuple

from .core import HarnessError, Violation, mix32
from . import gen_enc as G
from .gen_state import Stream
from . import c18_sched as SC

# hand-encoded templates, checked against the repository's decoder by self_test()
TEMPLATES: Dict[str, Tuple[str, str]] = {
    "NOP": ("00", "NOP"),
    "WAIT": ("ef", "WAIT"),
    "HALT": ("de", "HALT"),
    "OFF": ("df", "OFF"),
    "RETI": ("01", "RETI"),
    "IR": ("fe", "IR"),
    "RET": ("06", "RET"),
    "SC": ("97", "SC"),
    "RC": ("9f", "RC"),
    "INC_A": ("6c00", "INC   A"),
    "DEC_A": ("7c00", "DEC   A"),
    "PUSHU_A": ("28", "PUSHU A"),
    "POPU_A": ("38", "POPU  A"),
    "PUSHU_IMR": ("2f", "PUSHU IMR"),
    "POPU_IMR": ("3f", "POPU  IMR"),
    "MV_A_3": ("0803", "MV    A, 03"),
    "MV_I_3": ("0b0300", "MV    I, 0003"),
    "JRNZ_M4": ("1b04", "JRNZ  -04"),
    "JR_P2": ("1202", "JR    +02"),
    "CALL_1000": ("040010", "CALL  1000"),
    "MV_IMR_80": ("32ccfb80", "MV    (IMR), 80"),
    # parking constructs (idle loops): a jump that lands on itself / a few instructions back
    "JR_M2": ("1302", "JR    -02"),
    "JRZ_M2": ("1902", "JRZ   -02"),
    "JRNZ_M2": ("1b02", "JRNZ  -02"),
    "JRC_M2": ("1d02", "JRC   -02"),
    "JRNC_M2": ("1f02", "JRNC  -02"),
    "JR_M3": ("1303", "JR    -03"),
    "JP_1234": ("023412", "JP    1234"),
    "JPF_51234": ("03341205", "JPF   51234"),
}

BASES = (0x00100, 0x08000, 0x30000, 0x7F000, 0xC0000, 0xF0000)
SLICES: Tuple[Optional[int], ...] = (1, 2, 3, 7, 10_000, None)
COUNTS = (0, 1, 2, 3, 5, 8, 13, 21, 40, 100)


def self_test() -> None:
    for name, (hx, text) in TEMPLATES.items():
        r = G.text_of(bytes.fromhex(hx) + G.NOP_PAD)
        if r is None or r[0] != text or r[1] != len(hx) // 2:
            raise HarnessError(f"c18 template {name} ({hx}) decodes as {r}, expected {text!r}")


def _t(name: str) -> bytes:
    return bytes.fromhex(TEMPLATES[name][0])


def gen_program(st: Stream, pool: List[bytes]) -> Tuple[Dict[str, Any], List[str]]:
    """One machine image + initial state.  Returns (partial case, labels)."""
    labels: List[str] = []
    base = st.choice(BASES)
    n_items = 4 + st.below(28)
    body = bytearray()
    sub_at: Optional[int] = None
    profile = st.below(4)  # 0: mostly templates, 1: mostly random encodings, 2/3: mixed
    used = set()
    # A program may *park*: spin on a self-targeting jump or run an endless short loop (the usual way firmware
    # waits for an interrupt), so that timer ticks and interrupt deliveries arrive while the PC does not advance.
    # (half of the parking programs park within their first items so that the spin is reached before a HALT/OFF/
    # wild jump of the generated prologue and lasts for most of the run)
    park_at = -1
    if st.chance(1, 3):
        park_at = st.below(min(n_items, 4)) if st.chance(1, 2) else st.below(n_items)
    starts: List[int] = []
    for item in range(n_items):
        starts.append(len(body))
        if item == park_at:
            kind = st.below(8)
            here = base + len(body)
            if kind <= 1:
                body += _t("JR_M2")
                used.add("park:self-jump")
            elif kind == 2:
                body += bytes([0x02, here & 0xFF, (here >> 8) & 0xFF])  # JP <self> (same 64 KiB page)
                used.add("park:self-jump")
            elif kind == 3:
                body += bytes([0x03, here & 0xFF, (here >> 8) & 0xFF, (here >> 16) & 0xFF])  # JPF <self>
                used.add("park:self-jump")
            elif kind == 4:
                body += _t(st.choice(("JRZ_M2", "JRNZ_M2", "JRC_M2", "JRNC_M2")))  # spins or falls through (F)
                used.add("park:conditional-self-jump")
            elif kind == 5:
                body += _t("NOP") + _t("JR_M3")
                used.add("park:loop")
            else:
                back = [s0 for s0 in starts if len(body) + 2 - s0 <= 0xFF]
                s0 = st.choice(back[-6:])
                body += bytes([0x13, len(body) + 2 - s0])  # JR back to the start of an earlier item
                used.add("park:loop")
            continue
        r = st.below(100)
        if profile == 1:
            r = r % 40 if st.chance(3, 4) else r
        elif profile == 0:
            r = 40 + r % 60 if st.chance(3, 4) else r
        if r < 40 and pool:
            body += st.choice(pool)
            used.add("random-encoding")
        elif r < 48:
            body += _t("NOP") * (1 + st.below(3))
        elif r < 58:
            # WAIT burns I extra cycles inside one instruction (cycle counter runs ahead of the driver clock)
            body += bytes([0x0B, st.below(7), 0x00]) + _t("WAIT")
            used.add("WAIT")
        elif r < 64:
            # counted loop: MV A,k ; INC-ish body ; DEC A ; JRNZ back
            k = 1 + st.below(4)
            body += bytes([0x08, k]) + _t("SC") + _t("DEC_A") + bytes([0x1B, 0x04])
            used.add("loop")
        elif r < 70:
            body += _t("HALT")
            used.add("HALT")
        elif r < 72:
            body += _t("OFF")
            used.add("OFF")
        elif r < 76:
            body += _t("IR")
            used.add("IR")
        elif r < 79:
            body += _t("RETI")
            used.add("RETI")
        elif r < 84:
            body += _t("PUSHU_A") + _t("INC_A") + _t("POPU_A")
        elif r < 88:
            body += _t("PUSHU_IMR") + _t("POPU_IMR")
            used.add("PUSHU IMR")
        elif r < 94:
            body += bytes([0x32, 0xCC, 0xFB, st.choice((0x00, 0x80, 0x81, 0x83, 0x87, 0xFF))])
            used.add("MV (IMR),n")
        elif r < 97:
            # CALL to a tiny subroutine placed after the body (same 64 KiB page)
            sub_at = -1
            body += b"\x04\x00\x00"  # patched below
            used.add("CALL")
        else:
            body += bytes([0x12, st.below(3)])  # JR +n
    # tail: NOP sled (memory is zero-filled anyway)
    if any(u == "CALL" for u in used):
        sub_addr = (base + len(body) + 8) & 0xFFFF
        # patch every CALL placeholder
        i = 0
        while True:
            j = body.find(b"\x04\x00\x00", i)
            if j < 0:
                break
            body[j + 1] = sub_addr & 0xFF
            body[j + 2] = (sub_addr >> 8) & 0xFF
            i = j + 3
        sub = _t("INC_A") + _t("RET")
        body += bytes(8) + sub
    handler = 0xE0000 + 0x10 * st.below(16)
    hcode = bytearray()
    for _ in range(st.below(4)):
        hcode += st.choice((_t("INC_A"), _t("NOP"), _t("SC"), _t("RC"), _t("PUSHU_A") + _t("POPU_A")))
    hcode += _t("RETI")
    image = [[base, bytes(body).hex()], [handler, bytes(hcode).hex()],
             [0xFFFFA, bytes([handler & 0xFF, (handler >> 8) & 0xFF, (handler >> 16) & 0xFF]).hex()]]
    if st.chance(1, 3):
        # non-zero filler after the program so that wild jumps do not only meet NOPs
        fill_at = (base + len(body) + 64) & 0xFFFFF
        filler = b"".join(st.choice(pool) for _ in range(8)) if pool else b""
        if fill_at + len(filler) < 0xE0000 or fill_at > 0xE1000:
            image.append([fill_at, filler.hex()])
            labels.append("filler")
    s_ok = not st.chance(1, 10)
    regs = {
        "PC": base,
        "BA": st.word(),
        "I": st.below(6) if st.chance(1, 2) else st.word(),
        "X": st.pointer()[0],
        "Y": st.pointer()[0],
        "U": 0xBE000 + 0x10 * st.below(16),
        "S": (0xBFC00 + 0x10 * st.below(16)) if s_ok else 0,
        "F": st.below(4),
    }
    if not s_ok:
        labels.append("S=0")
    imr = st.choice((0x00, 0x80, 0x81, 0x83, 0x87, 0x8F, 0xFF))
    isr = st.choice((0, 0, 0, 1, 2, 4, 8, 3))
    imem = [[0xFB, imr], [0xFC, isr], [0xEC, st.byte()], [0xED, st.byte()], [0xEE, st.byte()]]
    for _ in range(st.below(6)):
        imem.append([st.below(0xE0), st.byte()])
    t_on = st.chance(3, 4)
    timer = {"enabled": t_on, "mti": st.choice((1, 2, 3, 5, 7, 50)) if t_on else 0,
             "sti": st.choice((0, 2, 4, 9, 100)) if t_on else 0}
    labels.append("timers:on" if t_on else "timers:off")
    labels.append("imr-master:on" if imr & 0x80 else "imr-master:off")
    keys: List[int] = []
    if st.chance(1, 5):
        keys = [st.below(64)]
        labels.append("key-held")
    for u in sorted(used):
        labels.append("prog:" + u)
    case = {"kind": "cpu", "image": image, "imem": imem, "regs": regs, "timer": timer, "keys": keys}
    return case, labels


def variants(st: Stream, prog: Dict[str, Any], n_variants: int) -> List[Tuple[Dict[str, Any], List[str]]]:
    out = []
    for v in range(n_variants):
        case = dict(prog)
        sl = SLICES[(v + st.below(len(SLICES))) % len(SLICES)] if v else st.choice(SLICES)
        if st.chance(1, 8):
            sl = st.choice((4, 5, 16, 100, 2 ** 40, 2 ** 64 - 1))
        if sl is not None:
            case["slice"] = sl
        ncalls = 1 if st.chance(1, 2) else 2 + st.below(3)
        case["calls"] = [st.choice(COUNTS) for _ in range(ncalls)]
        case["warm"] = st.choice((0, 0, 1, 3, 10))
        case["fresh_runner"] = st.chance(1, 3)
        labels = [f"slice:{'default' if sl is None else sl if sl in (1, 2, 3, 7, 10_000) else 'other'}",
                  f"calls:{'1' if ncalls == 1 else '>1'}", "warm:0" if case["warm"] == 0 else "warm:>0"]
        if ncalls > 1:
            labels.append("runner:fresh-per-call" if case["fresh_runner"] else "runner:reused")
        if 0 in case["calls"]:
            labels.append("count:0")
        # other users of the thread's scheduler channel before a call (separate stream: the programs and the
        # variants above stay what they were)
        ist = Stream(st.s, v, 0xB10C)
        if ist.chance(2, 5):
            final_ok = ist.chance(1, 4)
            inter: List[Optional[Dict[str, Any]]] = []
            for _ in range(ncalls):
                inter.append(gen_interlude(ist, final_ok) if ist.chance(3, 4) else None)
            if any(x is not None for x in inter):
                case["interludes"] = inter
                labels.append("block_on-before-call:" + (SC.interlude_flavour(inter) or "no-events"))
        out.append((case, labels))
    return out


# The only event id a block_on future emits in CPU cases is 1, the id AsyncRuntimeRunner uses internally for "CPU
# task done" (events of a foreign future are not inputs of the runner, so it must be harmless).  Any other id could
# reach the machine state only by making the runner wait forever for a "done" event that was crowded out of the
# one-event slot -- non-termination is something the harness can only report as exit 2 after its watchdog, never as
# a verdict, so it is not generated.
BO_EVENT_IDS = (1,)


def gen_interlude(st: Stream, final_ok: bool) -> Dict[str, Any]:
    ops = []
    for _ in range(st.below(4)):
        ops.append([st.choice((0, 1, 1, 2, 3, 9, SC.YIELD)), st.choice(BO_EVENT_IDS) if st.chance(1, 2) else None])
    e: Dict[str, Any] = {"ops": ops}
    if st.chance(1, 2):
        e["se"] = st.choice(BO_EVENT_IDS)
    if not final_ok:
        e = SC.strip_final_emit(e)
    return e


def make_pool(seed: int, n: int) -> Tuple[List[bytes], int]:
    encs, filtered = G.sample_valid_encodings(seed, n)
    return [code for _, code in encs], filtered


# ------------------------------------------------------------------------------------------------
# verdict
# ------------------------------------------------------------------------------------------------

# Instrumentation, not machine state: MemoryImage's read/write perf counters.  (While the CPU is OFF every
# step(1) call re-reads ISR, a synchronous step(n) returns after the first look; the async runner therefore
# counts more reads for the same machine state.)  Reported as a label only.
PERF_COUNTERS = ("reads", "writes")


def _diff_state(a: Dict[str, Any], b: Dict[str, Any]) -> List[str]:
    fields: List[str] = []
    for k in sorted(set(a) | set(b)):
        va, vb = a.get(k), b.get(k)
        if va == vb or k in PERF_COUNTERS:
            continue
        if k == "regs" and isinstance(va, dict) and isinstance(vb, dict):
            for r in sorted(set(va) | set(vb)):
                if va.get(r) != vb.get(r):
                    fields.append("reg " + ("TEMP" if r.startswith("TEMP") else r))
        elif k in ("timer", "irq") and isinstance(va, dict) and isinstance(vb, dict):
            for r in sorted(set(va) | set(vb)):
                if va.get(r) != vb.get(r):
                    fields.append(f"{k}.{r}")
        else:
            fields.append({"ext_changed": "external memory", "imem": "internal memory", "instr": "instruction count",
                           "cycles": "cycle count"}.get(k, k))
    return sorted(set(fields))


def _primary(fields: List[str]) -> str:
    """One coarse symptom per case (most fundamental difference first) so that one root cause is one bucket."""
    fs = set(fields)
    if "error result" in fs:
        return "error result"
    if fs & {"instructions executed", "instruction count"}:
        return "number of instructions executed"
    if fs & {"cycles executed", "cycle count"}:
        return "cycle count"
    if "power" in fs:
        return "power state"
    if any(f.startswith("reg ") for f in fs):
        return "registers"
    if fs & {"internal memory", "external memory"}:
        return "memory"
    return "interrupt/timer bookkeeping"


def check_cpu(case: Dict[str, Any], obs: Dict[str, Any]) -> Tuple[List[Violation], List[str], bool]:
    out: List[Violation] = []
    labels: List[str] = []
    if not obs.get("ok"):
        msg = str(obs.get("panic") or obs.get("error"))
        out.append(Violation("cpu-crash", "async/sync twin run", "panic or error in the harness run", case, msg[:300]))
        return out, ["crash"], False
    if obs["start"][0] != obs["start"][1] or obs["warm_err"][0] != obs["warm_err"][1]:
        raise HarnessError(f"c18: twins differ before the experiment starts: {_diff_state(*obs['start'])}")
    reused = not case.get("fresh_runner", False)
    inter = case.get("interludes") or []
    if obs.get("stall"):
        # call-count watchdog of the Rust adapter: the host loop AsyncRuntimeRunner::run_instructions runs around its
        # driver (run_for(slice) until the completion event) was rehearsed, bounded, on a scratch driver with the
        # runner's clock and slice and did not get anywhere -- the crate's own unbounded loop was not entered
        st = obs["stall"]
        out.append(Violation("no-progress", "AsyncDriver::run_for in the host loop of AsyncRuntimeRunner "
                             "(run_for(slice) until the task's completion event)",
                             "run_for keeps returning MaxCycles without advancing the clock although a task is due "
                             "inside its window" if st["idle_calls"] == st["calls"] else
                             "no completion event after the bounded number of run_for calls", case,
                             f"call {st['call']}: driver clock {st['clock']}, slice {st['slice']}: {st['calls']} run_for "
                             f"calls ({st['idle_calls']} returned MaxCycles with cycles_executed == 0), clock afterwards "
                             f"{st['clock_after']}, slice grown to {st['slice_after']}; the unchanged crate needs <= 3 calls"))
        labels.append("host-loop-stall")
    for i, (s, a) in enumerate(zip(obs["sync"], obs["async"])):
        where = "AsyncRuntimeRunner::run_instructions" + \
                (", later call on a reused runner" if (i > 0 and reused) else "") + \
                SC.interlude_suffix(inter[:i + 1], none="")
        fields: List[str] = []
        if s["err"] != a["err"]:
            fields.append("error result")
        if s["d_instr"] != a["d_instr"]:
            fields.append("instructions executed")
        if s["d_cycles"] != a["d_cycles"]:
            fields.append("cycles executed")
        fields += _diff_state(s["state"], a["state"])
        fields = sorted(set(fields))
        if fields:
            out.append(Violation("cpu-equivalence", where, "differs from CoreRuntime::step: " + _primary(fields),
                                 case, f"call {i} (n={case['calls'][i]}, slice={case.get('slice', 'default')}); "
                                       f"differing fields: {', '.join(fields[:12])}; "
                                       f"sync err={s['err']} d_instr={s['d_instr']} d_cycles={s['d_cycles']} "
                                       f"PC={s['state']['regs'].get('PC')}; async err={a['err']} "
                                       f"d_instr={a['d_instr']} d_cycles={a['d_cycles']} "
                                       f"PC={a['state']['regs'].get('PC')}"))
            break
        if a["err"] is None:
            # AsyncCpuStats (asserted by the maintainers' async_runner_matches_sync_for_nops)
            if a["stats_instr"] != a["d_instr"] or a["stats_cycles"] != a["d_cycles"]:
                which = []
                if a["stats_instr"] != a["d_instr"]:
                    which.append("instructions_executed")
                if a["stats_cycles"] != a["d_cycles"]:
                    which.append("cycles_executed")
                out.append(Violation("cpu-stats", where, "AsyncCpuStats differs from the runtime counters: " +
                                     ",".join(which), case,
                                     f"call {i}: stats=({a['stats_instr']},{a['stats_cycles']}) counters advanced by "
                                     f"({a['d_instr']},{a['d_cycles']})"))
                break
        else:
            labels.append("step-error")
        if any(s["state"].get(k) != a["state"].get(k) for k in PERF_COUNTERS):
            labels.append("perf-counters-differ(info)")
    # labels / non-triviality from the synchronous twin
    start = obs["start"][0]
    last = obs["sync"][-1]["state"] if obs["sync"] else start
    total_instr = last["instr"] - start["instr"]
    total_cyc = last["cycles"] - start["cycles"]
    changed = any(last["regs"].get(r) != start["regs"].get(r) for r in last["regs"] if r != "PC") or \
        last["imem"] != start["imem"] or bool(last["ext_changed"])
    if total_cyc > total_instr:
        labels.append("cycles>instructions")
    if total_cyc and total_instr == 0:
        labels.append("halted-idle-cycles")
    if last["power"] != "running":
        labels.append("ends:" + last["power"])
    if (last["irq"].get("irq_counts") or {}).get("total", 0) > (start["irq"].get("irq_counts") or {}).get("total", 0):
        labels.append("irq-delivered")
    if last["irq"].get("in_interrupt"):
        labels.append("ends-in-interrupt")
    nt = total_instr >= 2 and changed
    return out, labels, nt
