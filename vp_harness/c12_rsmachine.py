"""C12 helper: run scenarios on the Rust machine (rust/harness/src/machine.rs) -- same scenario and observation
layout as c12_pymachine.  Optional scenario field "batch" (Rust only): the host loop calls CoreRuntime::step(n)
with n > 1; the adapter then reports the instruction-by-instruction trace of that batched run (machine.rs
`run_parts`)."""

from __future__ import annotations

import time
from typing import Any, Dict, List, Optional

from . import c12_rom as R
from . import rsclient
from .core import HarnessError


def calls_of(sc: Dict[str, Any]) -> Optional[List[int]]:
    """Host batching of a scenario: with "batch" = b > 1 the host calls CoreRuntime::step(n) with n = b, cut short
    only where a host event is scheduled (events can only land between calls) and at the end of the run."""
    b = int(sc.get("batch") or 0)
    if b <= 1:
        return None
    steps = int(sc["steps"])
    cuts = sorted({0, steps} | {int(e[0]) for e in sc.get("events", []) if 0 < int(e[0]) < steps})
    calls: List[int] = []
    for lo, hi in zip(cuts, cuts[1:]):
        while lo < hi:
            n = min(b, hi - lo)
            calls.append(n)
            lo += n
    return calls


def request_of(sc: Dict[str, Any]) -> Dict[str, Any]:
    segs, _ = R.layout(sc["prog"])
    extra: Dict[str, Any] = {}
    calls = calls_of(sc)
    if calls:
        extra["calls"] = calls
    if sc.get("kbirq") is not None:
        extra["kbirq"] = bool(sc["kbirq"])
    if "s0" in sc and not calls:
        # scenarios that start with S not yet loaded: CoreRuntime::step documents that it returns an error while it
        # defers a delivery ("IRQ deferred: stack pointer not initialized"); the host keeps stepping and the error text
        # is attached to the step record for the monitor
        extra["step_errors"] = "record"
    return {
        **extra,
        "imem": [[o, d.hex()] for o, d in R.imem_init(sc)], "im_lo": R.IM_LO, "im_hi": R.IM_HI,
        "rom": [[a, d.hex()] for a, d in segs], "rom_base": R.ROM_BASE, "rom_size": R.ROM_SIZE,
        "pc": R.MAIN, "s": R.initial_s(sc), "u": R.USTACK_TOP,
        "ba": int(sc.get("ba0", 0x1234)), "i": int(sc.get("i0", 1)), "x": int(sc.get("x0", 0x0B8100)),
        "y": int(sc.get("y0", 0x0B8200)), "f": int(sc.get("f0", 0)) & 0xFF,
        "imr0": int(sc.get("imr0", 0)) & 0xFF, "isr0": int(sc.get("isr0", 0)) & 0xFF,
        "mti": int(sc.get("mti", 0)), "sti": int(sc.get("sti", 0)), "strobe": True,
        "win_lo": R.STACK_TOP - R.stack_window(sc), "win_hi": R.STACK_TOP,
        "steps": int(sc["steps"]), "events": sc.get("events", []),
    }


def run_batch(scs: List[Dict[str, Any]]) -> List[Dict[str, Any]]:
    if not scs:
        return []
    req = {"cmd": "machine.run", "scenarios": [request_of(s) for s in scs]}
    resp = None
    for attempt in range(4):
        # The harness subprocess is occasionally killed from outside on a shared box (rc -15/-9).  The request is a
        # pure function of the scenarios, so re-sending it to a fresh subprocess is sound; a reproducible crash
        # still ends as HarnessError (exit 2), never as a verdict.
        try:
            resp = rsclient.shared().call(req)
            break
        except HarnessError:
            if attempt == 3:
                raise
            time.sleep(0.5 * (attempt + 1))
    if not resp.get("ok"):
        raise HarnessError(f"machine.run failed: {str(resp)[:300]}")
    res = resp["results"]
    for r in res:
        if r.get("err") and str(r["err"]).startswith("setup:"):
            raise HarnessError(f"rust machine setup failed: {r['err']}")
    return res
