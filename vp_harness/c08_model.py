"""C08 reference register file.

Written from the property statement and the README register table (sc62015/pysc62015/README.md,
"CPU Registers"), NOT from the repository's code:

  * A, B, IL, IH 8 bits; BA, I 16 bits; F 8 bits; C, Z 1 bit each ("Part of F (bit 0)" / "(bit 1)").
  * PC and the pointer registers X, Y, U, S 20 bits (the statement fixes 20 bits for the pointers; the
    README says 24 -- the statement is the given property and wins, see DESIGN 4/C08 FA-risk).
  * A / B are the low / high byte of BA, IL / IH of I; a write to IL clears IH (statement).
  * a fresh register file reads 0 everywhere (maintainers' test_registers asserts exactly this).
  * TEMP0..TEMP13 are scratch registers that appear in neither the README nor the statement; the model keeps
    the 24 bits both code tables declare (REGISTER_SIZE = 3 bytes, Rust mask 0xFFFFFF) but the *verdict* code
    treats that width as an assumption (see c08.py: a TEMP value all implementations agree on and that is the
    written value truncated to some other width is not reported).

  * Rust-only names (round 3).  The Rust register file accepts more names than the Python one: the IMR mirror
    register (`RegName::IMR`, an 8-bit cell of its own; it overlaps none of the names above) and out-of-range
    scratch / unknown operand names (WNAMES).  The statement's law -- a read returns the last value written to
    the register *or to an overlapping register* -- makes every non-overlapping pair independent, so the model
    keeps IMR as a separate cell and lets writes to WNAMES change nothing else.  IMR is a mirror of the IMEM byte
    0xFB and is not part of a register snapshot, so the model only knows a *set* of acceptable IMR values
    (`Model.x`): after a write the written value truncated to some width 8..32; in a fresh register file that a
    snapshot was applied to either 0 (fresh) or the value in the snapshotted file (reproduced); after an executed
    instruction anything (None) until the next write.

The model is the "last value written to it or to an overlapping register, truncated to its architectural
width" law made executable.
"""

from __future__ import annotations

from typing import Dict, List, Optional, Sequence, Tuple

NUM_TEMPS = 14
TEMP_NAMES: Tuple[str, ...] = tuple(f"TEMP{i}" for i in range(NUM_TEMPS))
CORE_NAMES: Tuple[str, ...] = ("A", "B", "BA", "IL", "IH", "I", "X", "Y", "U", "S", "PC", "F", "FC", "FZ")
NAMES: Tuple[str, ...] = CORE_NAMES + TEMP_NAMES
INDEX: Dict[str, int] = {n: i for i, n in enumerate(NAMES)}

# architectural width in bits of every readable name
WIDTH: Dict[str, int] = {
    "A": 8, "B": 8, "IL": 8, "IH": 8, "BA": 16, "I": 16,
    "X": 20, "Y": 20, "U": 20, "S": 20, "PC": 20,
    "F": 8, "FC": 1, "FZ": 1,
    **{t: 24 for t in TEMP_NAMES},
}

# overlap groups: name -> backing store
GROUP: Dict[str, str] = {
    "A": "BA", "B": "BA", "BA": "BA", "IL": "I", "IH": "I", "I": "I",
    "F": "F", "FC": "F", "FZ": "F",
    **{n: n for n in ("X", "Y", "U", "S", "PC")},
    **{t: t for t in TEMP_NAMES},
}
MEMBERS: Dict[str, List[str]] = {}
for _n in NAMES:
    MEMBERS.setdefault(GROUP[_n], []).append(_n)

FLAG_NAME = {"C": "FC", "Z": "FZ"}

# names only the Rust register file accepts: read back (XNAMES) / written only (WNAMES)
XNAMES: Tuple[str, ...] = ("IMR",)
WNAMES: Tuple[str, ...] = ("TEMP14", "TEMP15", "TEMP255", "UNKNOWN")
RUST_ONLY = frozenset(XNAMES + WNAMES)
XOk = Optional[Tuple[int, ...]]   # acceptable values of a Rust-only register; None = anything


def x_written(value: int) -> Tuple[int, ...]:
    """Acceptable reads after writing `value` to a Rust-only register: truncated to some width 8..32."""
    v = value & 0xFFFFFFFF
    return tuple(sorted({v & ((1 << w) - 1) for w in range(8, 33)}))


def mask(name: str) -> int:
    return (1 << WIDTH[name]) - 1


class Model:
    """Backing stores BA, I, X, Y, U, S, PC, F, TEMPn."""

    def __init__(self) -> None:
        self.store: Dict[str, int] = {g: 0 for g in MEMBERS}
        # raw (untruncated) value of the last write to each TEMP register, for the width assumption
        self.temp_raw: Dict[str, int] = {t: 0 for t in TEMP_NAMES}
        self.x: Dict[str, XOk] = {n: (0,) for n in XNAMES}

    def set(self, name: str, value: int) -> None:
        if name in self.x:
            self.x[name] = x_written(value)
            return
        if name in WNAMES:
            return  # overlaps nothing: no other register may change (its own value is not modelled)
        v = value & mask(name)
        if name in ("BA", "I", "X", "Y", "U", "S", "PC", "F"):
            self.store[name] = v
        elif name == "A":
            self.store["BA"] = (self.store["BA"] & 0xFF00) | v
        elif name == "B":
            self.store["BA"] = (self.store["BA"] & 0x00FF) | (v << 8)
        elif name == "IL":
            self.store["I"] = v  # a write to IL clears IH
        elif name == "IH":
            self.store["I"] = (self.store["I"] & 0x00FF) | (v << 8)
        elif name == "FC":
            self.store["F"] = (self.store["F"] & 0xFE) | v
        elif name == "FZ":
            self.store["F"] = (self.store["F"] & 0xFD) | (v << 1)
        elif name in self.temp_raw:
            self.store[name] = v
            self.temp_raw[name] = value & 0xFFFFFFFF
        else:
            raise KeyError(name)

    def get(self, name: str) -> int:
        if name == "A":
            return self.store["BA"] & 0xFF
        if name == "B":
            return (self.store["BA"] >> 8) & 0xFF
        if name == "IL":
            return self.store["I"] & 0xFF
        if name == "IH":
            return (self.store["I"] >> 8) & 0xFF
        if name == "FC":
            return self.store["F"] & 1
        if name == "FZ":
            return (self.store["F"] >> 1) & 1
        return self.store[name]

    def read_all(self) -> List[int]:
        return [self.get(n) for n in NAMES]

    def read_x(self) -> List[XOk]:
        return [self.x[n] for n in XNAMES]

    def load(self, values: Sequence[int]) -> None:
        """Take over the values a register file was observed to hold (full registers and TEMPs)."""
        for g in MEMBERS:
            self.store[g] = int(values[INDEX[g]]) & mask(g)
        for t in TEMP_NAMES:
            self.temp_raw[t] = self.store[t]

    def x_fresh_after_snapshot(self, at_snapshot: Sequence[XOk]) -> None:
        """Rust-only registers of a fresh file that a snapshot was applied to: fresh (0) or reproduced."""
        for n, ok in zip(XNAMES, at_snapshot):
            self.x[n] = None if ok is None else tuple(sorted(set(ok) | {0}))

    def x_unknown(self) -> None:
        for n in XNAMES:
            self.x[n] = None
