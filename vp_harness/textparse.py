"""Token-stream helpers: rendered instruction -> (kind, text) tokens, abstract shape, operand split.

Works only from token *kinds* and punctuation as a Binary Ninja user sees them; never imports operand
classes.  Token kinds: Instr, Sep, Text, Int, Addr, Reg, BegMem, EndMem.
"""

from __future__ import annotations

from typing import List, Optional, Tuple

Tok = Tuple[str, str]


def tokens(data: bytes, addr: int = 0x1000) -> Optional[Tuple[List[Tok], int]]:
    """Decode with the repository's decoder and return ([(kind, text)], length) or None if rejected."""
    from sc62015.pysc62015.instr import decode, OPCODES
    from sc62015.pysc62015.instr.opcodes import InvalidInstruction
    from binaryninja import InstructionInfo

    try:
        ins = decode(bytes(data), addr, OPCODES)
        if ins is None:
            return None
        info = InstructionInfo()
        ins.analyze(info, addr)  # unfused PRE raises InvalidInstruction here
        toks = ins.render()
    except (AssertionError, InvalidInstruction):
        return None
    return [(type(t).__name__[1:], str(t)) for t in toks], int(ins.length())


def text(toks: List[Tok]) -> str:
    return "".join(t for _, t in toks)


def mnemonic(toks: List[Tok]) -> str:
    for k, t in toks:
        if k == "Instr":
            return t
    return "?"


def shape(toks: List[Tok]) -> str:
    """'MV    [X+0A], A' -> 'MV [X+n],A' (numbers abstracted, spacing normalised)."""
    out: List[str] = []
    for k, t in toks:
        if k in ("Int", "Addr"):
            out.append("n")
        elif k == "Sep":
            out.append("," if "," in t else " ")
        else:
            out.append(t)
    return "".join(out)


def split_operands(toks: List[Tok]) -> List[List[Tok]]:
    """Token lists of each operand (split at top-level ', ' separators), mnemonic dropped."""
    ops: List[List[Tok]] = []
    cur: List[Tok] = []
    seen_instr = False
    for k, t in toks:
        if k == "Instr" and not seen_instr:
            seen_instr = True
            continue
        if k == "Sep":
            if "," in t:
                ops.append(cur)
                cur = []
            continue
        cur.append((k, t))
    if cur:
        ops.append(cur)
    return ops
