"""Case generation for C03 / C04: valid encodings (by construction from per-opcode legal second bytes) x
machine states with the *distinct-modes guarantee* (DESIGN 2.3): BP, PX, PY are chosen so that for every
internal operand the six candidate addressing modes (n), (BP+n), (PX+n), (PY+n), (BP+PX), (BP+PY) denote
pairwise different addresses.  Everything is a pure function of the Stream.
"""

from __future__ import annotations

from typing import Any, Dict, List, Optional, Sequence, Tuple

from . import gen_enc as G
from . import gen_state as S
from . import textparse as TP
from . import c03_textparse as CP
from .core import mix32

IMEM = 0x100000
NUM_TEMPS = 14            # TEMP0..TEMP13 of the Python register file (emulator.NUM_TEMP_REGISTERS)
_LEGAL_B2: Dict[int, List[int]] = {}


def legal_b2(op: int) -> List[int]:
    """Second bytes the repository's decoder accepts for this opcode (asked once per opcode, then cached).
    The operand bytes after it never affect acceptance (checked by the caller's final decode)."""
    v = _LEGAL_B2.get(op)
    if v is None:
        v = [b2 for b2 in range(256) if G.info_len(bytes([op, b2, 0x10, 0x20, 0x30, 0x04]) + G.NOP_PAD) is not None]
        _LEGAL_B2[op] = v
    return v


def opcodes() -> List[int]:
    return [o for o in range(256) if not G.is_pre(o)]


def _biased(st: S.Stream, near_ptr: bool) -> int:
    # hi_bias: F0..FF (end of internal memory); near_ptr: D6..F6 (a run of up to 24 bytes from there, upwards or
    # downwards, passes over the BP/PX/PY cells EC..EE)
    return (0xD6 + st.below(0x21)) if near_ptr else (0xF0 + st.below(16))


def draw_encoding(st: S.Stream, pre: Optional[int], op: int, b2: Optional[int] = None, hi_bias: bool = False,
                  near_ptr: bool = False) -> Optional[bytes]:
    """b2 given: fixed second byte (focus grids); hi_bias: half of the operand bytes are drawn from F0..FF (internal
    operands near the end of internal memory, also in the direct (n) mode where BP cannot move them); near_ptr (with
    hi_bias): from D6..F6 instead (internal operands next to the BP/PX/PY cells)."""
    lb = legal_b2(op)
    if not lb:
        return None
    if b2 is not None:
        if hi_bias and len(lb) == 256 and st.chance(1, 2):
            b2 = _biased(st, near_ptr)
    elif len(lb) == 256 and st.chance(1, 3):
        b2 = st.choice(G.BOUNDARY_BYTES)
    else:
        b2 = lb[st.below(len(lb))]
    tail = bytearray()
    for _ in range(5):
        if hi_bias and st.chance(1, 2):
            tail.append(_biased(st, near_ptr))
        else:
            tail.append(st.choice(G.BOUNDARY_BYTES) if st.chance(1, 5) else (st.u32() & 0xFF))
    data = G.head_bytes(pre, op, b2) + bytes(tail)
    ln = G.info_len(data + G.NOP_PAD)
    if ln is None:
        return None
    return data[:ln]


_FOCUS: Dict[str, List[Tuple[int, int]]] = {}


def focus_heads(focus: str) -> List[Tuple[int, int]]:
    """(opcode, second byte) heads of a boundary grid, found by asking the repository's decoder/renderer:
    'blockwrap' -- every opcode rendered as MVL / MVLD (one head per distinct operand shape);
    'ptr-edge'  -- every (opcode, mode byte) whose text has a [r3++] or [--r3] operand."""
    v = _FOCUS.get(focus)
    if v is not None:
        return v
    v = []
    for op in opcodes():
        shapes = set()
        for b2 in legal_b2(op):
            r = TP.tokens(bytes([op, b2, 0x10, 0x20, 0x03, 0x04]) + G.NOP_PAD)
            if r is None:
                continue
            mn = TP.mnemonic(r[0])
            if focus == "blockwrap":
                if mn not in ("MVL", "MVLD"):
                    break
                sh = TP.shape(r[0])
                if sh not in shapes:
                    shapes.add(sh)
                    v.append((op, b2))
            else:
                try:
                    _, ops = CP.parse(r[0])
                except CP.ParseError:
                    continue
                if not any(o[0] in ("ereg", "eind", "imem") for o in ops):
                    break                    # the second byte is not a mode byte for this opcode
                if any(o[0] == "ereg" and o[2] in ("postinc", "predec") for o in ops):
                    v.append((op, b2))
    _FOCUS[focus] = v
    return v


def _imem_ops(ops: List[Tuple[Any, ...]]) -> List[Tuple[int, Tuple[Any, ...], bool]]:
    """(operand index, imem operand, is_pointer_cell)."""
    out = []
    for i, o in enumerate(ops):
        if o[0] == "imem":
            out.append((i, o, False))
        elif o[0] == "eind":
            out.append((i, o[1], True))
    return out


def _mode_addr(mode: str, n: Optional[int], bp: int, px: int, py: int) -> int:
    n = n or 0
    return {"N": n, "BP_N": bp + n, "PX_N": px + n, "PY_N": py + n, "BP_PX": bp + px, "BP_PY": bp + py}[mode] & 0xFF


def _operand_len(mn: str, ops: List[Tuple[Any, ...]], i: int, is_ptr: bool, regs: Dict[str, int]) -> Tuple[int, int]:
    """(length, direction) of the internal range the text denotes for operand i."""
    if is_ptr:
        return 3, 1
    if mn in S.COUNTED:
        n = max(1, regs["I"])
        if mn in ("MVLD", "DADL", "DSBL", "DSLL"):
            return n, -1
        if mn == "MVL" and any(o[0] == "ereg" and o[2] == "predec" for o in ops):
            return n, 0      # direction disputed (README vs tests): keep clear on both sides
        return n, 1
    if mn in ("MVW", "EXW", "CMPW"):
        return 2, 1
    if mn in ("MVP", "EXP", "CMPP", "JP"):
        return 3, 1
    for o in ops:
        if o[0] == "reg":
            return CP.REG_WIDTH.get(o[1], 1), 1
    for o in ops:
        if o[0] == "imm":
            return o[2], 1
    return 1, 1


def _range_of(mn: str, ops: List[Tuple[Any, ...]], i: int, o: Tuple[Any, ...], is_ptr: bool, regs: Dict[str, int],
              bp: int, px: int, py: int) -> Tuple[int, int]:
    ln, direction = _operand_len(mn, ops, i, is_ptr, regs)
    a = _mode_addr(o[1], o[2], bp, px, py)
    return (a, a + ln - 1) if direction > 0 else ((a - ln + 1, a) if direction < 0 else (a - ln + 1, a + ln - 1))


PTR_CELLS = (0xEC, 0xED, 0xEE)


def _passes_over_ptr_cell(a: int, ln: int, direction: int) -> bool:
    """The run of ln bytes from internal offset a (mod 256) reaches one of EC..EE *before its last byte*."""
    for d in ((direction,) if direction else (1, -1)):
        if any(((a + d * k) & 0xFF) in PTR_CELLS for k in range(ln - 1)):
            return True
    return False


def _choose_over_ptr(st: S.Stream, mn: str, ops: List[Tuple[Any, ...]], regs: Dict[str, int]
                     ) -> Optional[Tuple[int, int, int, List[str]]]:
    """BP, PX, PY such that the internal run of one block operand -- the destination in 3/4 of the cases where there is
    a choice, else the source -- passes over one of the cells EC..EE the operand addressing depends on, with bytes still
    to copy; the six addressing modes stay pairwise distinct for every internal operand.  The register the operand's
    mode uses is solved from the wanted start address ((n) direct: the n of the encoding decides)."""
    ims = [(i, o) for i, o, is_ptr in _imem_ops(ops) if not is_ptr]
    if not ims:
        return None
    for attempt in range(200):
        bp, px, py = st.byte(), st.byte(), st.byte()
        i, o = ims[0] if (len(ims) == 1 or st.chance(3, 4)) else ims[1]
        ln, direction = _operand_len(mn, ops, i, False, regs)
        if ln < 2:
            return None
        d = direction or 1
        start = (st.choice(PTR_CELLS) - d * st.below(ln - 1)) & 0xFF
        mode, n = o[1], (o[2] or 0)
        if mode == "BP_N":
            bp = (start - n) & 0xFF
        elif mode == "PX_N":
            px = (start - n) & 0xFF
        elif mode == "PY_N":
            py = (start - n) & 0xFF
        elif mode == "BP_PX":
            bp = (start - px) & 0xFF
        elif mode == "BP_PY":
            bp = (start - py) & 0xFF
        ok = True
        for _, o2, _ in _imem_ops(ops):
            n2 = o2[2]
            cands = [_mode_addr(m, n2, bp, px, py) for m in ("N", "BP_N", "PX_N", "PY_N", "BP_PX", "BP_PY")]
            if n2 is None:
                cands = cands[4:] + [bp & 0xFF, px & 0xFF, py & 0xFF]
            if len(set(cands)) != len(cands):
                ok = False
                break
        if not ok:
            continue
        if _passes_over_ptr_cell(_mode_addr(mode, o[2], bp, px, py), ln, direction):
            return bp, px, py, ["imem-range:over-ptr-cell", "over-ptr-cell:" + ("dst" if i == 0 else "src")]
    return None


def choose_pointers(st: S.Stream, mn: str, ops: List[Tuple[Any, ...]], regs: Dict[str, int],
                    force_wrap: bool = False, over_ptr: bool = False) -> Tuple[int, int, int, List[str]]:
    if over_ptr:
        got = _choose_over_ptr(st, mn, ops, regs)
        if got is not None:
            return got
    ims = _imem_ops(ops)
    labels: List[str] = []
    want_clean = not st.chance(1, 12)       # 11/12: ranges stay inside 00..FF and away from EC..EE
    # block moves whose internal range crosses FF -> 00 (00 -> FF for MVLD): the maintainers' tests pin the wrap
    # for MVL/MVLD only, so the class is requested for them only (1/24 of their cases, all of a 'blockwrap' grid)
    want_wrap = force_wrap or (not want_clean and mn in ("MVL", "MVLD") and st.chance(1, 2))
    if want_wrap:
        want_clean = False
    best = None
    for attempt in range(200):
        bp, px, py = st.byte(), st.byte(), st.byte()
        ok = True
        for _, o, _ in ims:
            n = o[2]
            cands = [_mode_addr(m, n, bp, px, py) for m in ("N", "BP_N", "PX_N", "PY_N", "BP_PX", "BP_PY")]
            if n is None:
                cands = cands[4:] + [bp & 0xFF, px & 0xFF, py & 0xFF]
            if len(set(cands)) != len(cands):
                ok = False
                break
        if not ok:
            continue
        if best is None:
            best = (bp, px, py)
        if want_wrap:
            wraps = False
            for i, o, is_ptr in ims:
                lo, hi = _range_of(mn, ops, i, o, is_ptr, regs, bp, px, py)
                if not is_ptr and (lo < 0 or hi > 0xFF):
                    wraps = True
            if wraps:
                best = (bp, px, py)
                labels.append("imem-range:wrap")
                break
            continue
        if not want_clean:
            break
        clean = True
        for i, o, is_ptr in ims:
            lo, hi = _range_of(mn, ops, i, o, is_ptr, regs, bp, px, py)
            if lo < 0 or hi > 0xFF or not (hi < 0xEC or lo > 0xEE):
                clean = False
                break
        if clean:
            best = (bp, px, py)
            labels.append("imem-range:clean")
            break
    if best is None:
        # no internal operand, or (practically impossible) no distinct triple found
        best = (st.byte(), st.byte(), st.byte())
        if ims:
            labels.append("modes:not-distinct")
    elif ims and "imem-range:clean" not in labels and "imem-range:wrap" not in labels:
        labels.append("imem-range:any")
    return best[0], best[1], best[2], labels


# Iteration counts of the 'bigcount' grid: the counter I is 16 bits wide, so every count up to FFFFh is inside the
# quantifier ("the range implied by I", "all iteration counts of at least one").  Boundary values sit around every
# power of two from 2^8 (the internal range starts to cover all 256 bytes) to 2^16 - 1 -- in particular around 8000h
# where the counter's top bit is set -- the rest is drawn log-uniformly (one octave 2^e..2^(e+1)-1, e in 8..15, then
# uniform inside it).
BIG_COUNTS = (0x00FF, 0x0100, 0x0101, 0x0FFF, 0x1000, 0x1001, 0x1FFF, 0x2000, 0x2001, 0x3FFF, 0x4000, 0x4001,
              0x7FFF, 0x8000, 0x8001, 0xBFFF, 0xC000, 0xFFFE, 0xFFFF)


def big_count(st: S.Stream) -> Tuple[int, str]:
    if st.chance(1, 3):
        v = st.choice(BIG_COUNTS)
        return v, "count:boundary"
    e = 8 + st.below(8)
    return (1 << e) | st.below(1 << e), f"count:2^{e}.."


def temp_junk(st: S.Stream) -> int:
    """A value for one of the lifter's scratch registers TEMP0..TEMP13 (24 bits wide in the Python register file)."""
    k = st.below(8)
    if k == 0:
        return 0
    if k == 1:
        return 0xFFFFFF
    if k == 2:
        return st.choice((0x01, 0x80, 0xFF, 0x100, 0xFFFF, 0x10000, 0xFFFFF, 0x100000))
    if k == 3:
        return 1 + st.below(0xFF)
    if k == 4:
        return st.u32() & 0xFFFFF
    return st.u32() & 0xFFFFFF


def bcd_byte(st: S.Stream) -> int:
    if st.chance(1, 6):
        return st.choice((0x00, 0x99, 0x09, 0x90, 0x50, 0x49, 0x01))
    return (st.below(10) << 4) | st.below(10)


def make_case(st: S.Stream, code: bytes, imax: int, pc: Optional[int] = None, follow: bytes = b"",
              focus: Optional[str] = None) -> Optional[Tuple[Dict[str, Any], List[str], str, List[Tuple[Any, ...]]]]:
    """(case, labels, mnemonic, parsed operands) or None if the text cannot be parsed (counted by the caller).
    follow: bytes of the instruction placed right after the one under test (then NOPs).
    focus 'blockwrap': I >= 2 and an internal block that crosses the end of internal memory;
    focus 'ptr-edge': the [r3++] / [--r3] pointer sits where the access just fits below 100000h / reaches 00000h;
    focus 'bigcount': I is a large iteration count (big_count), the internal block wraps, 1/4 of the external
    blocks end exactly at FFFFF / start exactly at 00000;
    focus 'overptr': I in 2..24 (1/4: 25..200) and BP/PX/PY solved so that the internal run of the destination (or the
    source) passes over one of the cells EC..EE with bytes still to copy (choose_pointers(over_ptr=True)).
    pc: where the instruction sits (None: gen_state draws an address away from the 64 KiB page ends; the caller passes
    page_cross_pc(...) to make the encoding straddle a page boundary).
    In half of all cases the lifter's scratch registers TEMP0..TEMP13 hold generated junk at instruction entry (they
    are part of the Python register file and keep whatever earlier instructions left in them; the documented result is
    a function of the architectural inputs only)."""
    r = TP.tokens(code + G.NOP_PAD)
    if r is None:
        return None
    toks, ln = r
    try:
        mn, ops = CP.parse(toks)
    except CP.ParseError:
        mn, ops = TP.mnemonic(toks), []
    case, labels = S.gen_state(st, code, mn, imax=imax, pc=pc, pad=bytes(follow) + bytes(8))
    regs = case["regs"]
    if mn == "WAIT":
        regs["I"] = st.below(4 * imax + 1)   # a prefixed WAIT runs its IL loop I times (no fast path): keep it short
    if focus == "blockwrap" and regs["I"] < 2:
        regs["I"] = 2 + st.below(23)
    if focus == "overptr":
        # small and medium counts: the run must have bytes left after the pointer cell
        regs["I"] = (25 + st.below(176)) if st.chance(1, 4) else (2 + st.below(23))
        labels[:] = [x for x in labels if not x.startswith("I:")] + ["I:2..24" if regs["I"] < 25 else "I:25..200"]
    if focus == "bigcount":
        regs["I"], lab_i = big_count(st)
        labels[:] = [x for x in labels if not x.startswith("I:")] + ["I:big", lab_i]
        n = regs["I"]
        for o in ops:
            if o[0] != "ereg" or o[1] not in ("X", "Y", "U", "S") or not st.chance(1, 4):
                continue
            # the external block just fits: its last byte is FFFFF (FFFFE for [r3++]: the pointer ends at FFFFF)
            # resp. its lowest byte is 00000
            if o[2] == "predec":
                regs[o[1]] = n
                labels.append("block:starts-at-00000")
            elif o[2] == "postinc":
                regs[o[1]] = 0xFFFFF - n
                labels.append("block:ends-at-FFFFE")
            elif o[2] == "simple":
                regs[o[1]] = 0x100000 - n
                labels.append("block:ends-at-FFFFF")
    if focus == "ptr-edge":
        for o in ops:
            if o[0] == "ereg" and o[2] == "postinc":
                regs[o[1]] = st.choice((0xFFFFD, 0xFFFFE, 0xFFFFF))     # a 3/2/1-byte access ends exactly at FFFFF
                labels.append("ptr:edge-top")
            elif o[0] == "ereg" and o[2] == "predec":
                regs[o[1]] = st.choice((0x00001, 0x00002, 0x00003))     # a 1/2/3-byte access starts exactly at 00000
                labels.append("ptr:edge-bottom")
    bp, px, py, lb = choose_pointers(st, mn, ops, regs, force_wrap=(focus in ("blockwrap", "bigcount")),
                                     over_ptr=(focus == "overptr"))
    labels += lb
    mem = [m for m in case["mem"] if m[0] not in (IMEM + 0xEC, IMEM + 0xED, IMEM + 0xEE)]
    mem += [[IMEM + 0xEC, bp], [IMEM + 0xED, px], [IMEM + 0xEE, py]]
    over: Dict[int, int] = {}
    # indirect pointers [(n)]: the denoted 3-byte cell holds an interior pointer (7/8) or a boundary one
    for i, o, is_ptr in _imem_ops(ops):
        if not is_ptr:
            continue
        a = _mode_addr(o[1], o[2], bp, px, py)
        ptr, cls = st.pointer()
        labels.append("indirect-ptr:" + cls)
        for k in range(3):
            cell = (a + k)
            if cell <= 0xFF and not 0xEC <= cell <= 0xEE:
                over[IMEM + cell] = (ptr >> (8 * k)) & 0xFF
    # packed-BCD operands for DADL / DSBL (the README defines them on BCD digits only)
    if mn in ("DADL", "DSBL") and not st.chance(1, 10):
        n = max(1, regs["I"])
        for i, o, is_ptr in _imem_ops(ops):
            a = _mode_addr(o[1], o[2], bp, px, py)
            for k in range(n):
                cell = a - k
                if 0 <= cell <= 0xFF and not 0xEC <= cell <= 0xEE:
                    over[IMEM + cell] = bcd_byte(st)
        regs["BA"] = (regs["BA"] & 0xFF00) | bcd_byte(st)
        if mn == "DADL" and not st.chance(1, 8):
            regs["F"] &= 0xFE            # DADL carry-in = 1 is reference-silent (appendix B)
        labels.append("bcd:planted")
    # all-FF / all-99 / all-00 chains for the multi-byte arithmetic (carry propagation classes)
    if mn in ("ADCL", "SBCL", "DADL", "DSBL", "DSLL", "DSRL") and st.chance(1, 5):
        n = max(1, regs["I"])
        fill = st.choice((0x00, 0xFF, 0x99) if mn in ("ADCL", "SBCL") else (0x00, 0x99))
        first = True
        for i, o, is_ptr in _imem_ops(ops):
            a = _mode_addr(o[1], o[2], bp, px, py)
            d = -1 if mn in ("DADL", "DSBL", "DSLL") else 1
            for k in range(n):
                cell = a + d * k
                if 0 <= cell <= 0xFF and not 0xEC <= cell <= 0xEE:
                    over[IMEM + cell] = fill if first else (0x00 if fill != 0x99 else 0x01 if k == 0 else 0x00)
            first = False
        labels.append("chain:pattern")
    mem += [[a, v] for a, v in sorted(over.items())]
    case["mem"] = mem
    # lifter scratch registers at instruction entry: generated junk in half of the cases (drawn last: the rest of the
    # case is the same function of the stream as before)
    if st.chance(1, 2):
        for i in range(NUM_TEMPS):
            regs[f"TEMP{i}"] = temp_junk(st)
        labels.append("temps:junk")
    else:
        labels.append("temps:clear")
    return case, labels, mn, ops


# ---------------------------------------------------------------------------------------------------------------
# Where the instruction sits: encodings that straddle a 64 KiB page boundary of the 20-bit code space
# ---------------------------------------------------------------------------------------------------------------

def page_cross_pc(st: S.Stream, length: int, k: Optional[int] = None) -> Tuple[int, str]:
    """PC such that byte offset k of the encoding is the first byte of a new 64 KiB page (k in 1..length-1: the encoding
    straddles the boundary; k = length: the instruction ends exactly at the page end and the look-ahead starts the new
    page; k = 0: the instruction is the first one of the page).  k None: drawn from 0..length.  The boundary is one of
    10000h..F0000h (the top of the 1 MiB space is left out: what follows FFFFF is not documented)."""
    if k is None:
        k = st.below(length + 1)
    page = 1 + st.below(15)
    pc = (page << 16) - k
    if 0 < k < length:
        return pc, "page:straddles"
    return pc, ("page:ends-at-boundary" if k else "page:starts-at-boundary")


# ---------------------------------------------------------------------------------------------------------------
# What the emulator object did before: the previous operation on the same (long-lived) Emulator
# ---------------------------------------------------------------------------------------------------------------

_REJECT: Optional[Dict[str, List[Tuple[int, int]]]] = None


def reject_classes() -> Dict[str, List[Tuple[int, int]]]:
    """(opcode, second byte) heads the repository's decoder does NOT accept, grouped by how it says so (asked once):
    'decode:None' (decode() returns None: undefined mode/register), 'decode:<Exception>' (decode() raises, e.g. an
    operand assertion), 'analyze:<Exception>' (decodes, but analyze() refuses it: a PRE byte that cannot be fused)."""
    global _REJECT
    if _REJECT is not None:
        return _REJECT
    from sc62015.pysc62015.instr import decode, OPCODES
    from binaryninja import InstructionInfo

    out: Dict[str, List[Tuple[int, int]]] = {}
    for op in range(256):
        for b2 in range(256):
            data = bytes([op, b2, 0x10, 0x20, 0x30, 0x04]) + G.NOP_PAD
            try:
                ins = decode(data, 0x1000, OPCODES)
            except Exception as exc:  # noqa: BLE001 - the class of rejection is what is recorded
                out.setdefault("decode:" + type(exc).__name__, []).append((op, b2))
                continue
            if ins is None:
                out.setdefault("decode:None", []).append((op, b2))
                continue
            try:
                ins.analyze(InstructionInfo(), 0x1000)
            except Exception as exc:  # noqa: BLE001
                out.setdefault("analyze:" + type(exc).__name__, []).append((op, b2))
    _REJECT = {k: out[k] for k in sorted(out)}
    return _REJECT


def warm() -> None:
    """Fill the per-process decoder-derived tables (legal second bytes, focus heads, rejected heads).  Called once in
    the parent before the fork pool so that the workers inherit them."""
    for op in opcodes():
        legal_b2(op)
    for f in ("blockwrap", "ptr-edge"):
        focus_heads(f)
    reject_classes()


def _rejected_code(st: S.Stream) -> Tuple[bytes, str]:
    rc = reject_classes()
    cls = st.choice(sorted(rc))
    op, b2 = st.choice(rc[cls])
    pre = st.choice(G.PRE_OPCODES) if (not G.is_pre(op) and st.chance(1, 4)) else None
    tail = bytes((st.choice(G.BOUNDARY_BYTES) if st.chance(1, 5) else (st.u32() & 0xFF)) for _ in range(4))
    return G.head_bytes(pre, op, b2) + tail, cls + ("+pre" if pre is not None else "")


def draw_prior(st: S.Stream, ops_list: Sequence[int], pc: int, force: bool = False
               ) -> Tuple[Optional[Dict[str, Any]], List[str]]:
    """The operation the Emulator object performed right before the instruction under test (None: a fresh emulator):
    kind    valid instruction executed / valid instruction only decoded (a disassembly view; 'self': the instruction
            under test itself) / a fetch the decoder
            REJECTS (class drawn uniformly from reject_classes(), then the head uniformly inside the class), through
            execute_instruction or decode_instruction; a valid prior is followed by a rejected head in 1/4 of the cases
            (the decoder's look-ahead fails);
    address the same address as the instruction under test (other bytes were there: overlay / self-modified code),
            right next to it, or anywhere else.
    Afterwards the harness restores registers, memory and the power state to those of the case (c03_core.execute): only
    the emulator object's own, non-architectural state is carried over."""
    k = (4 + st.below(4)) if force else st.below(8)
    if k < 4:
        return None, ["prior:none"]
    w = st.below(4)
    if w == 0:
        addr, where = pc, "same-address"
    elif w == 1:
        addr = (pc + 24 + st.below(8)) if st.chance(1, 2) else (pc - 9 - st.below(8))
        where = "adjacent"
    else:
        addr, where = 0x00400 + st.below(0xFF000), "elsewhere"
    addr = min(max(addr, 0x100), 0xFFFC0)
    if k >= 6:
        code, cls = _rejected_code(st)
        via = "execute" if st.chance(1, 2) else "decode"
        kind = "rejected:" + cls
    elif k == 5 and w == 0 and st.chance(1, 2):
        # the emulator is asked to decode the very instruction it is about to execute (a disassembly view, then a step)
        code, via, kind = b"", "decode", "self"
    else:
        code = draw_encoding(st, st.choice(G.PRES), st.choice(list(ops_list))) or b"\x00"
        via = "execute" if k == 4 else "decode"
        kind = "valid"
        if st.chance(1, 4):
            code += _rejected_code(st)[0]
            kind = "valid+rejected-lookahead"
    return ({"kind": kind, "via": via, "addr": addr, "code": code.hex()},
            [f"prior:{kind}/{via}", "prior-at:" + where])


# ---------------------------------------------------------------------------------------------------------------
# Round 5: the power state at instruction entry, and what the host does inside the memory callbacks
# ---------------------------------------------------------------------------------------------------------------

POWER_OPCODES = {"HALT": 0xDE, "OFF": 0xDF}


def draw_power(st: S.Stream, pc: int) -> Tuple[str, Optional[Dict[str, Any]], List[str]]:
    """The core is stopped at instruction entry (Emulator.state.halted is part of the machine state: it is saved in
    snapshots and nothing inside pysc62015 but power_on_reset clears it).  How it got there is generated:
      3/4  history -- a HALT or an OFF instruction (1/2 each, 1/4 under a PRE byte) was EXECUTED earlier on the same
           Emulator object, at the same address / next to the instruction under test / elsewhere, and nothing woke the
           core; registers and memory are put back to the case afterwards (c03_core.run_prior), the power state is the
           one the instruction left;
      1/4  the state is written from outside (a snapshot taken while halted is restored into a fresh emulator).
    Returns (power, prior or None, labels); the last label of a history case is its 'prior-at:' label."""
    if st.chance(1, 4):
        return "halted", None, ["power:halted/restored-from-outside"]
    name = "HALT" if st.chance(1, 2) else "OFF"
    pre = st.choice(G.PRE_OPCODES) if st.chance(1, 4) else None
    code = (bytes([pre]) if pre is not None else b"") + bytes([POWER_OPCODES[name]])
    w = st.below(3)
    if w == 0:
        addr, where = pc, "same-address"
    elif w == 1:
        addr = (pc + 24 + st.below(8)) if st.chance(1, 2) else (pc - 9 - st.below(8))
        where = "adjacent"
    else:
        addr, where = 0x00400 + st.below(0xFF000), "elsewhere"
    addr = min(max(addr, 0x100), 0xFFFC0)
    prior = {"kind": "power:" + name + ("+pre" if pre is not None else ""), "via": "execute", "addr": addr,
             "code": code.hex(), "sets_power": True}
    return "halted", prior, [f"power:halted/{name}-executed-earlier", "prior-at:" + where]


def draw_coexec(st: S.Stream, ops_list: Sequence[int], pc: int) -> Tuple[Optional[Dict[str, Any]], List[str]]:
    """A second machine that is stepped from inside a memory callback of the instruction under test (synchronous
    co-simulation of a peripheral core / mailbox device): its own complete generated case -- any valid encoding (every
    prefix), own registers, pointers, I in 1..24, own memory hash -- and the index k of the data access (read or write,
    in the order the evaluator makes them) inside which it executes ONE instruction: k = 0 (1/2), 1..3 (3/8),
    4..11 (1/8: later bytes of multi-byte and counted forms)."""
    for _ in range(6):
        code = draw_encoding(st, st.choice(G.PRES), st.choice(list(ops_list)))
        if code is None:
            continue
        mc = make_case(st, code, 24)
        if mc is None:
            continue
        case2, _labels2, mn2, _ops2 = mc
        r = st.below(8)
        at = 0 if r < 4 else (1 + st.below(3)) if r < 7 else (4 + st.below(8))
        return ({"at": at, "case": {k: case2[k] for k in ("regs", "power", "seed", "mem")}},
                [f"coexec-at:{'0' if at == 0 else '1-3' if at < 4 else '4-11'}", "coexec-nested-mn:" + mn2])
    return None, ["coexec:no-nested-case"]
