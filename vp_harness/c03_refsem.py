"""README-derived reference semantics for C03 / C04 (DESIGN 3.1, appendix B).

Input: the parsed *rendered text* of one instruction (c03_textparse.parse), its length, and a machine state
(registers + a peek function over the initial memory).  Output: a list of acceptable `Expect` outcomes (more
than one where the README and the maintainers' passing tests give two readings -- a run is accepted if it
matches any of them), or a skip reason when the documentation does not fix the behaviour for this input.

Every rule below quotes the README row / table it comes from (README = sc62015/pysc62015/README.md).  The
module never looks at instruction bytes or at the repository's operand classes.

Address conventions (same as pycore.canon): external memory 0x00000..0xFFFFF, internal memory byte k is
0x100000 + k.
"""

from __future__ import annotations

from dataclasses import dataclass, field
from typing import Any, Callable, Dict, List, Optional, Set, Tuple

IMEM = 0x100000
A_BP, A_PX, A_PY = IMEM + 0xEC, IMEM + 0xED, IMEM + 0xEE
REG_WIDTH = {"A": 1, "B": 1, "IL": 1, "IH": 1, "BA": 2, "I": 2, "X": 3, "Y": 3, "U": 3, "S": 3, "PC": 3,
             "F": 1, "IMR": 1}
R3 = ("X", "Y", "U", "S")
MASK = {1: 0xFF, 2: 0xFFFF, 3: 0xFFFFFF}
M20 = 0xFFFFF
COUNTED = ("MVL", "MVLD", "ADCL", "SBCL", "DADL", "DSBL", "DSLL", "DSRL", "EXL")
IMEM_MODES = ("N", "BP_N", "PX_N", "PY_N", "BP_PX", "BP_PY")
MODE_TEXT = {"N": "(n)", "BP_N": "(BP+n)", "PX_N": "(PX+n)", "PY_N": "(PY+n)", "BP_PX": "(BP+PX)",
             "BP_PY": "(BP+PY)"}


class Skip(Exception):
    """The documentation does not determine the outcome for this input (reference is silent)."""


class Unmodelled(Exception):
    """Mnemonic / operand combination the reference does not model."""


@dataclass
class Expect:
    regs: Dict[str, int]                       # expected BA I X Y U S PC after
    reg_w: Set[str]                            # base registers the instruction is documented to write
    unchecked_regs: Set[str]                   # registers (or "IH") whose value is not asserted
    c: Optional[int]                           # expected C (None: not asserted)
    z: Optional[int]
    f_hi: bool                                 # F bits 2..7 must be preserved
    writes: Dict[int, int]                     # final value per written address
    wmask: Dict[int, int]                      # compared bits per written address (default 0xFF)
    rd_data: Set[int]
    rd_addr: Set[int]
    halted: Optional[bool]
    opt_w: Set[int] = field(default_factory=set)     # addresses that may additionally be written (documentation unclear)
    reads_checked: bool = True                 # False: read set not asserted (intrinsics with undocumented reads)
    labels: List[str] = field(default_factory=list)
    nontrivial: List[str] = field(default_factory=list)
    tags: List[str] = field(default_factory=list)   # semantic input conditions appended to value symptoms
    variant: str = ""


class Ref:
    def __init__(self, regs: Dict[str, int], peek: Callable[[int], int], length: int,
                 mode_override: Optional[Dict[int, str]] = None, variant: str = "") -> None:
        self.r = {k: int(regs[k]) for k in ("BA", "I", "X", "Y", "U", "S", "PC")}
        for k in R3 + ("PC",):
            self.r[k] &= M20
        self.f0 = int(regs["F"]) & 0xFF
        self.c: Optional[int] = self.f0 & 1
        self.z: Optional[int] = (self.f0 >> 1) & 1
        self.f_hi = True
        self.peek0 = peek
        self.length = length
        self.w: Dict[int, int] = {}
        self.wmask: Dict[int, int] = {}
        self.rd_data: Set[int] = set()
        self.rd_addr: Set[int] = set()
        self.reg_w: Set[str] = set()
        self.unchecked: Set[str] = set()
        self.halted: Optional[bool] = False
        self.labels: List[str] = []
        self.nt: List[str] = []
        self.tags: List[str] = []
        self.mode_override = mode_override or {}
        self.variant = variant
        self.opt_w: Set[int] = set()
        self.reads_checked = True
        self.pc0 = self.r["PC"]
        self.r["PC"] = (self.pc0 + length) & M20   # every README row: next instruction unless a jump says otherwise
        self.reg_w.add("PC")

    # ---------------- memory ----------------
    def rd(self, a: int, kind: str = "data") -> int:
        (self.rd_data if kind == "data" else self.rd_addr).add(a)
        v = self.w.get(a)
        return self.peek0(a) if v is None else v

    def wr(self, a: int, v: int, mask: int = 0xFF) -> None:
        self.w[a] = v & 0xFF
        self.wmask[a] = mask

    def span(self, base: int, n: int, what: str = "operand") -> List[int]:
        """n consecutive byte addresses from base; the README does not say what happens when a multi-byte
        operand runs off the end of internal memory or of the 1 MiB external space -> Skip."""
        if base >= IMEM:
            off = base - IMEM
            if off + n > 0x100:
                raise Skip("multi-byte internal operand crosses FF")
            return [base + i for i in range(n)]
        if base + n > 0x100000:
            raise Skip("multi-byte external operand crosses FFFFF")
        return [base + i for i in range(n)]

    def rdn(self, base: int, n: int, kind: str = "data") -> int:
        v = 0
        for i, a in enumerate(self.span(base, n)):
            v |= self.rd(a, kind) << (8 * i)
        return v

    def wrn(self, base: int, n: int, v: int, masks: Optional[List[int]] = None) -> None:
        for i, a in enumerate(self.span(base, n)):
            self.wr(a, (v >> (8 * i)) & 0xFF, masks[i] if masks else 0xFF)

    # ---------------- registers ----------------
    def get(self, name: str) -> int:
        if name == "A":
            return self.r["BA"] & 0xFF
        if name == "B":
            return (self.r["BA"] >> 8) & 0xFF
        if name == "IL":
            return self.r["I"] & 0xFF
        if name == "IH":
            return (self.r["I"] >> 8) & 0xFF
        if name == "F":
            raise Unmodelled("F as a value")
        return self.r[name]

    def set(self, name: str, v: int, il_clears_ih: bool = False) -> None:
        if name == "A":
            self.r["BA"] = (self.r["BA"] & 0xFF00) | (v & 0xFF)
            self.reg_w.add("BA")
        elif name == "B":
            self.r["BA"] = (self.r["BA"] & 0x00FF) | ((v & 0xFF) << 8)
            self.reg_w.add("BA")
        elif name == "IL":
            if il_clears_ih:       # README "MV r1,...": (if r1=IL then IH<-0)
                self.r["I"] = v & 0xFF
            else:                  # other rows do not say what happens to IH -> not asserted
                self.r["I"] = (self.r["I"] & 0xFF00) | (v & 0xFF)
                self.unchecked.add("IH")
            self.reg_w.add("I")
        elif name in ("BA", "I"):
            self.r[name] = v & 0xFFFF
            self.reg_w.add(name)
        elif name in R3 or name == "PC":
            self.r[name] = v & M20      # appendix B: 20 significant bits
            self.reg_w.add(name)
        else:
            raise Unmodelled(f"write to register {name}")

    # ---------------- operand addressing (README "Opcode Information Details" notes) ----------------
    def imem_addr(self, op: Tuple[Any, ...], idx: int) -> int:
        """(n) direct, (BP+n), (PX+n), (PY+n), (BP+PX), (BP+PY): README PRE table; 8-bit sum inside the
        256-byte internal memory.  BP/PX/PY are read from internal EC/ED/EE (README memory map)."""
        _, mode, n = op
        mode = self.mode_override.get(idx, mode)
        if mode == "N":
            if n is None:
                raise Skip("no n in text")
            off = n
        elif mode in ("BP_N", "PX_N", "PY_N"):
            if n is None:
                raise Skip("no n in text")
            base = {"BP_N": A_BP, "PX_N": A_PX, "PY_N": A_PY}[mode]
            off = (self.rd(base, "addr") + n) & 0xFF
        elif mode == "BP_PX":
            off = (self.rd(A_BP, "addr") + self.rd(A_PX, "addr")) & 0xFF
        elif mode == "BP_PY":
            off = (self.rd(A_BP, "addr") + self.rd(A_PY, "addr")) & 0xFF
        else:
            raise Unmodelled(mode)
        return IMEM + off

    def emem_addr(self, op: Tuple[Any, ...], idx: int, width: int, count: Optional[int] = None) -> int:
        """[lmn], [r3], [r3++], [--r3], [r3+-n], [(n)], [(m)+-n].  `width` = bytes transferred (the amount of the
        ++/-- update per README: r3+1 / +2 / +3).  For counted forms the caller handles ++/-- itself
        (count is not None -> no side effect here)."""
        k = op[0]
        if k == "eabs":
            return op[1] & M20
        if k == "ereg":
            _, reg, kind, off = op
            if reg not in R3:
                raise Unmodelled("register-indirect through non-pointer register")
            v = self.r[reg]
            if kind == "simple":
                return v
            if kind == "offset":
                a = v + off
                if not 0 <= a <= M20:
                    raise Skip("pointer+offset leaves the 1 MiB space")
                return a
            if count is not None:
                return v
            if kind == "postinc":
                if v + width > M20 + 1:
                    raise Skip("post-increment wraps the 1 MiB space")
                self.set(reg, v + width)
                self.nt.append("ptr-postinc")
                return v
            if kind == "predec":
                if v - width < 0:
                    raise Skip("pre-decrement wraps the 1 MiB space")
                self.set(reg, v - width)
                self.nt.append("ptr-predec")
                return v - width
        if k == "eind":
            _, im, off = op
            pa = self.imem_addr(im, idx)
            ptr = self.rdn(pa, 3, "addr")
            if ptr > M20:
                raise Skip("indirect pointer has bits above 20")
            a = ptr + off
            if not 0 <= a <= M20:
                raise Skip("pointer+offset leaves the 1 MiB space")
            return a
        raise Unmodelled(f"memory operand {k}")

    def mem_addr(self, op: Tuple[Any, ...], idx: int, width: int, count: Optional[int] = None) -> int:
        if op[0] == "imem":
            return self.imem_addr(op, idx)
        return self.emem_addr(op, idx, width, count)

    # ---------------- flags ----------------
    def set_cz(self, c: Optional[int], z: Optional[int]) -> None:
        if c is not None:
            self.c = c
        if z is not None:
            self.z = z

    def finish(self) -> Expect:
        return Expect(regs=dict(self.r), reg_w=set(self.reg_w), unchecked_regs=set(self.unchecked), c=self.c, z=self.z,
                      f_hi=self.f_hi, writes=dict(self.w), wmask=dict(self.wmask), rd_data=set(self.rd_data),
                      rd_addr=set(self.rd_addr), halted=self.halted, opt_w=set(self.opt_w),
                      reads_checked=self.reads_checked, labels=list(self.labels),
                      nontrivial=list(self.nt), tags=list(self.tags), variant=self.variant)


def is_mem(op: Tuple[Any, ...]) -> bool:
    return op[0] in ("imem", "eabs", "ereg", "eind")


def _bcd_ok(v: int) -> bool:
    return (v & 0x0F) <= 9 and (v >> 4) <= 9


# =====================================================================================================
# instruction semantics
# =====================================================================================================

def _width_mv(mn: str, ops: List[Tuple[Any, ...]]) -> int:
    if mn == "MVW":
        return 2
    if mn == "MVP":
        return 3
    for o in ops:
        if o[0] == "reg":
            return REG_WIDTH[o[1]]
    for o in ops:
        if o[0] == "imm":
            return o[2]
    return 1


def _check_ptr_alias(ops: List[Tuple[Any, ...]]) -> None:
    """MV X,[X++] / MV [--X],X: README does not order the pointer update against the register transfer."""
    regs = {o[1] for o in ops if o[0] == "reg"}
    for o in ops:
        if o[0] == "ereg" and o[2] in ("postinc", "predec") and o[1] in regs:
            raise Skip("pointer register is also the data register")


def sem_mv(m: Ref, mn: str, ops: List[Tuple[Any, ...]]) -> None:
    """README 'Memory Transfer Instructions': dst <- src, width by register / mnemonic, flags '- -'."""
    if len(ops) != 2:
        raise Unmodelled("MV operand count")
    dst, src = ops
    w = _width_mv(mn, ops)
    _check_ptr_alias(ops)
    if dst[0] == "reg" and src[0] == "reg":
        wd, ws = REG_WIDTH[dst[1]], REG_WIDTH[src[1]]
        if wd != ws:
            raise Unmodelled("MV between registers of different size")   # README: MV r2,r'2 / MV r3,r'3 only
        m.set(dst[1], m.get(src[1]), il_clears_ih=True)
        return
    # source value
    if src[0] == "imm":
        v = src[1]
        masks = [0xFF, 0xFF, 0x0F] if src[2] == 3 else None   # lmn printed as 20 bits; README 'l' byte: low nibble agreed
    elif src[0] == "reg":
        v = m.get(src[1])
        masks = None
    elif is_mem(src):
        v = m.rdn(m.mem_addr(src, 1, w), w)
        masks = None
    else:
        raise Unmodelled("MV source")
    if dst[0] == "reg":
        if dst[1] in ("F", "IMR", "PC"):
            raise Unmodelled("MV to special register")
        m.set(dst[1], v, il_clears_ih=True)
        if dst[1] in R3 and v > M20:
            m.labels.append("load:bits20-23-set")
    elif is_mem(dst):
        m.wrn(m.mem_addr(dst, 0, w), w, v, masks)
    else:
        raise Unmodelled("MV destination")


def sem_mvl(m: Ref, mn: str, ops: List[Tuple[Any, ...]]) -> None:
    """README MVL / MVLD rows: loop I times byte copy; (m++)/(m--) internal, [lmn++], [r3++] 'r3 updated',
    [--r3] 'r3 updated', [r3+-n] 'r3 not changed', [(n)] indirect.  Byte-by-byte in program order (tests
    MVL_imem_overlap_fwd_clobber / MVLD_imem_overlap_bwd_correct); internal addresses wrap mod 256 (tests
    MVL_(FE)_(50)_I5_wrap, MVL_imem_to_imem_wrap_around)."""
    dst, src = ops
    n = m.r["I"]
    if n == 0:
        raise Skip("I = 0 (property quantifies over iteration counts >= 1)")
    step = -1 if mn == "MVLD" else 1
    d0 = m.mem_addr(dst, 0, 1, count=n)
    s0 = m.mem_addr(src, 1, 1, count=n)
    dstep = sstep = step
    # [--r3] forms: README row 'MVL (n),[--r3]': [d++] <- [--s]; the maintainers' tests MVL_(02)_[--X]_I5_X2000 /
    # MVL_(00)_[--X]_BP2_I5 decrement the destination as well.  Both readings are accepted (variants).
    if src[0] == "ereg" and src[2] == "predec":
        sstep = -1
        s0 = s0 - 1
        if m.variant == "tests":
            dstep = -1
    if dst[0] == "ereg" and dst[2] == "predec":
        dstep = -1
        d0 = d0 - 1

    def adv(a: int, st: int) -> int:
        if a >= IMEM:
            return IMEM + ((a - IMEM + st) & 0xFF)
        a2 = a + st
        if not 0 <= a2 <= M20:
            raise Skip("block transfer leaves the 1 MiB space")
        return a2

    if not 0 <= s0 <= IMEM + 0xFF or not 0 <= d0 <= IMEM + 0xFF:
        raise Skip("block transfer leaves the 1 MiB space")
    a_s, a_d = s0, d0
    for i in range(n):
        m.wr(a_d, m.rd(a_s))
        if i != n - 1:
            a_s = adv(a_s, sstep)
            a_d = adv(a_d, dstep)
    for o, st in ((dst, dstep), (src, sstep)):
        if o[0] == "ereg" and o[2] in ("postinc", "predec"):
            v = m.r[o[1]] + st * n
            if not 0 <= v <= M20:
                raise Skip("pointer leaves the 1 MiB space")
            m.set(o[1], v)          # README: 'r3 updated'
    m.set("I", 0)                   # property C04 anchor: I is 0 after completion
    if n >= 256 and (dst[0] == "imem" or src[0] == "imem"):
        # the internal range wraps over all 256 bytes: the *set* of touched internal addresses no longer depends
        # on the start address, only the byte order does
        m.tags.append("I>=256: internal range covers all 256 bytes")
    if n >= 2:
        m.nt.append("block:I>=2")
    if dst[0] == "imem" and src[0] == "imem":
        span_d = {(d0 - IMEM + step * i) & 0xFF for i in range(n)}
        span_s = {(s0 - IMEM + step * i) & 0xFF for i in range(n)}
        if span_d & span_s:
            m.labels.append("block:overlap")


def sem_ex(m: Ref, mn: str, ops: List[Tuple[Any, ...]]) -> None:
    """README 'Exchange Instructions': (m) <-> (n) 1/2/3 bytes; A<->B; r2<->r'2; r3<->r'3; flags '- -'."""
    a, b = ops
    if a[0] == "reg" and b[0] == "reg":
        if REG_WIDTH[a[1]] != REG_WIDTH[b[1]]:
            raise Unmodelled("EX between registers of different size")
        va, vb = m.get(a[1]), m.get(b[1])
        m.set(a[1], vb)
        m.set(b[1], va)
        m.unchecked.discard("IH")
        return
    w = {"EX": 1, "EXW": 2, "EXP": 3}[mn]
    aa, ab = m.mem_addr(a, 0, w), m.mem_addr(b, 1, w)
    sa, sb = m.span(aa, w), m.span(ab, w)
    if set(sa) & set(sb) and aa != ab:
        raise Skip("exchange operands overlap partially")
    va, vb = m.rdn(aa, w), m.rdn(ab, w)
    m.wrn(aa, w, vb)
    m.wrn(ab, w, va)


def sem_exl(m: Ref, mn: str, ops: List[Tuple[Any, ...]]) -> None:
    """README: EXL (m),(n): Loop I times: (m++) <-> (n++)."""
    a, b = ops
    n = m.r["I"]
    if n == 0:
        raise Skip("I = 0")
    aa, ab = m.mem_addr(a, 0, 1), m.mem_addr(b, 1, 1)
    sa, sb = m.span(aa, n), m.span(ab, n)
    if set(sa) & set(sb):
        raise Skip("exchange ranges overlap")
    for x, y in zip(sa, sb):
        vx, vy = m.rd(x), m.rd(y)
        m.wr(x, vy)
        m.wr(y, vx)
    m.set("I", 0)
    if n >= 2:
        m.nt.append("block:I>=2")


def _alu(mn: str, a: int, b: int, cin: int, w: int) -> Tuple[int, Optional[int], Optional[int]]:
    """(result, C, Z) -- C/Z None where the README flags column says '-'."""
    mask = MASK[w]
    if mn == "ADD":
        r = a + b
        return r & mask, int(r > mask), int(r & mask == 0)
    if mn == "ADC":
        r = a + b + cin
        return r & mask, int(r > mask), int(r & mask == 0)
    if mn == "SUB":
        r = a - b
        return r & mask, int(r < 0), int(r & mask == 0)
    if mn == "SBC":
        r = a - b - cin
        return r & mask, int(r < 0), int(r & mask == 0)
    if mn == "AND":
        r = a & b
        return r, None, int(r == 0)
    if mn == "OR":
        r = a | b
        return r, None, int(r == 0)
    if mn == "XOR":
        r = a ^ b
        return r, None, int(r == 0)
    if mn == "PMDF":
        return (a + b) & mask, None, None      # appendix B: plain add, flags '- -'
    raise Unmodelled(mn)


def sem_alu2(m: Ref, mn: str, ops: List[Tuple[Any, ...]]) -> None:
    """README arithmetic / logical tables: dst <- dst OP src, flags per column."""
    dst, src = ops
    cin = m.c or 0
    if dst[0] == "reg" and src[0] == "reg":
        # README rows: ADD/SUB r1,r'1 ; r2,r'1 ; r2,r'2 ; r3,r' (any).  Other pairs are undocumented.
        if mn not in ("ADD", "SUB"):
            raise Unmodelled("register pair with " + mn)
        wd, ws = REG_WIDTH[dst[1]], REG_WIDTH[src[1]]
        if dst[1] in ("B", "F", "IMR", "PC") or src[1] in ("B", "F", "IMR", "PC"):
            raise Unmodelled("special register in pair")
        if ws > wd:
            raise Unmodelled("ADD/SUB with source wider than destination")
        a, b = m.get(dst[1]), m.get(src[1])
        if wd == 3:
            # X,Y,U,S: README says 24 bits, code/property C08 20 bits -> result compared mod 2^20; flags only
            # where both readings agree (appendix B 'X,Y,U,S width').
            if mn == "ADD":
                r = a + b
                m.set(dst[1], r)
                # 20 significant bits: carry out of bit 19 sets C, Z is taken from the 20-bit result (maintainers'
                # test test_add_regpair_20bit_carry_and_zero: X=FFFFF + Y=1 -> X=0, C=1, Z=1; the README rows treat
                # all r3 alike)
                m.set_cz(int(r > M20), int((r & M20) == 0))
                if r > M20:
                    m.labels.append("r3-add-carries-out-of-20-bits")
                    m.nt.append("carry")
            else:
                r = a - b
                m.set(dst[1], r)
                m.set_cz(int(r < 0), int(r == 0))
            return
        r, c, z = _alu(mn, a, b, cin, wd)
        m.set(dst[1], r)
        m.set_cz(c, z)
        if c:
            m.nt.append("carry")
        if z:
            m.nt.append("zero")
        return
    w = 1
    # all memory forms of these mnemonics are byte operations (README rows 'ADD (m),n' ... 'XOR [lmn],n')
    if dst[0] == "reg":
        if dst[1] != "A":
            raise Unmodelled(mn + " register destination other than A")
        a = m.get("A")
    elif is_mem(dst):
        da = m.mem_addr(dst, 0, w)
    else:
        raise Unmodelled("destination")
    if src[0] == "imm":
        b = src[1] & 0xFF
    elif src[0] == "reg":
        if src[1] != "A":
            raise Unmodelled(mn + " register source other than A")
        b = m.get("A")
    elif is_mem(src):
        b = m.rd(m.mem_addr(src, 1, w))
    else:
        raise Unmodelled("source")
    if dst[0] != "reg":
        a = m.rd(da)
    r, c, z = _alu(mn, a, b, cin, 1)
    if mn in ("ADC", "SBC") and b + cin > 0xFF:
        m.tags.append("b+Cin wraps")
    if dst[0] == "reg":
        m.set("A", r)
    else:
        m.wr(da, r)
    m.set_cz(c, z)
    if c:
        m.nt.append("carry")
    if z:
        m.nt.append("zero")


def sem_cmp(m: Ref, mn: str, ops: List[Tuple[Any, ...]]) -> None:
    """README 'Compare Instructions': a - b sets C (borrow) and Z, nothing written.  TEST: a & b sets Z only."""
    a_op, b_op = ops
    w = {"CMP": 1, "TEST": 1, "CMPW": 2, "CMPP": 3}[mn]

    def val(o: Tuple[Any, ...], idx: int) -> int:
        if o[0] == "imm":
            return o[1] & MASK[w]
        if o[0] == "reg":
            if mn in ("CMP", "TEST") and o[1] != "A":
                raise Unmodelled(mn + " with register other than A")
            if mn == "CMPW" and o[1] not in ("BA", "I"):
                raise Unmodelled("CMPW (m),r with r not r2")     # README: CMPW (m),r2
            if mn == "CMPP" and o[1] not in R3:
                raise Unmodelled("CMPP (m),r with r not r3")     # README: CMPP (m),r3
            return m.get(o[1])
        if is_mem(o):
            return m.rdn(m.mem_addr(o, idx, w), w)
        raise Unmodelled("compare operand")

    a = val(a_op, 0)
    b = val(b_op, 1)
    if mn == "TEST":
        m.set_cz(None, int((a & b) == 0))
        if (a & b) == 0:
            m.nt.append("zero")
    else:
        m.set_cz(int(a < b), int(a == b))
        if a < b:
            m.nt.append("carry")
        if a == b:
            m.nt.append("zero")


def sem_unary(m: Ref, mn: str, ops: List[Tuple[Any, ...]]) -> None:
    """INC/DEC ('- o'), ROR/ROL/SHR/SHL ('o o'), SWAP (Z; C not asserted, appendix B)."""
    (o,) = ops
    cin = m.c or 0
    if o[0] == "reg":
        name = o[1]
        if name in ("B", "F", "IMR", "PC"):
            raise Unmodelled("unary on special register")
        w = REG_WIDTH[name]
        if mn not in ("INC", "DEC") and name != "A":
            raise Unmodelled(mn + " on register other than A")
        a = m.get(name)
    elif is_mem(o):
        w = 1
        addr = m.mem_addr(o, 0, 1)
        a = m.rd(addr)
    else:
        raise Unmodelled("unary operand")
    c: Optional[int] = None
    z: Optional[int] = None
    if mn in ("INC", "DEC"):
        if w == 3:
            r = (a + 1) if mn == "INC" else (a - 1)
            # 20 significant bits: FFFFF + 1 -> 00000 with Z = 1 (maintainers' test test_inc_reg3_x_wraps_20bit pins it
            # for X; the README 'INC r' row and REG3_20BIT_REGS treat X, Y, U, S alike)
            if r > M20:
                m.labels.append("r3-inc-wraps-20-bits")
            z = int((r & M20) == 0)
            r &= M20
        else:
            r = ((a + 1) if mn == "INC" else (a - 1)) & MASK[w]
            z = int(r == 0)
    elif mn == "ROR":      # README: Rotate Right (bit 0 to bit 7 and C)
        r = (a >> 1) | ((a & 1) << 7)
        c, z = a & 1, int(r == 0)
    elif mn == "ROL":      # README: Rotate Left (bit 7 to bit 0 and C)
        r = ((a << 1) & 0xFF) | (a >> 7)
        c, z = a >> 7, int(r == 0)
    elif mn == "SHR":      # README: C <- A0, ..., A7 <- C
        r = (a >> 1) | (cin << 7)
        c, z = a & 1, int(r == 0)
    elif mn == "SHL":      # README: C <- A7, ..., A0 <- C
        r = ((a << 1) & 0xFF) | cin
        c, z = a >> 7, int(r == 0)
    elif mn == "SWAP":
        r = ((a << 4) & 0xF0) | (a >> 4)
        z = int(r == 0)
        m.c = None         # README 'o o' vs test SWAP_A_non_zero_FC_unaffected -> C not asserted
    else:
        raise Unmodelled(mn)
    if o[0] == "reg":
        m.set(o[1], r)
    else:
        m.wr(addr, r)
    if mn == "SWAP":
        if z is not None:
            m.z = z
    elif mn in ("INC", "DEC"):
        if z is not None:
            m.z = z
    else:
        m.set_cz(c, z)
    if c:
        m.nt.append("carry")
    if z:
        m.nt.append("zero")


def _bcd_add(a: int, b: int, cin: int) -> Tuple[int, int]:
    """Packed-BCD addition of two valid BCD bytes: decimal digit-wise with carry."""
    lo = (a & 15) + (b & 15) + cin
    c1 = 0
    if lo > 9:
        lo -= 10
        c1 = 1
    hi = (a >> 4) + (b >> 4) + c1
    c2 = 0
    if hi > 9:
        hi -= 10
        c2 = 1
    return (hi << 4) | lo, c2


def _bcd_sub(a: int, b: int, cin: int) -> Tuple[int, int]:
    lo = (a & 15) - (b & 15) - cin
    b1 = 0
    if lo < 0:
        lo += 10
        b1 = 1
    hi = (a >> 4) - (b >> 4) - b1
    b2 = 0
    if hi < 0:
        hi += 10
        b2 = 1
    return (hi << 4) | lo, b2


def sem_multibyte(m: Ref, mn: str, ops: List[Tuple[Any, ...]]) -> None:
    """ADCL/SBCL (addresses increasing), DADL/DSBL (packed BCD, 'addresses dec.').  Z = all result bytes zero,
    C = carry/borrow of the last byte (tests *_OverallZero*, *_CarryPropagate*).  Register source: ADCL/SBCL 'A is
    src for each byte' (README); DADL/DSBL first byte A then 00 (appendix B, tests DADL_(m)_A_I2_*)."""
    dst, src = ops
    n = m.r["I"]
    if n == 0:
        raise Skip("I = 0")
    bcd = mn in ("DADL", "DSBL")
    sub = mn in ("SBCL", "DSBL")
    step = -1 if bcd else 1
    da = m.mem_addr(dst, 0, 1)
    if dst[0] != "imem":
        raise Unmodelled(mn + " destination")
    if src[0] == "imem":
        sa: Optional[int] = m.mem_addr(src, 1, 1)
    elif src[0] == "reg" and src[1] == "A":
        sa = None
    else:
        raise Unmodelled(mn + " source")

    def rng(base: int) -> List[int]:
        off = base - IMEM
        last = off + step * (n - 1)
        if not 0 <= last <= 0xFF:
            raise Skip("multi-byte chain runs off internal memory")   # README silent (only MVL wrap is tested)
        return [IMEM + off + step * i for i in range(n)]

    dr = rng(da)
    sr = rng(sa) if sa is not None else None
    if sr is not None and set(dr) & set(sr) and dr != sr:
        m.labels.append("chain:overlap")
    c = m.c or 0
    if mn == "DADL":
        if c:
            # README: (m)+(n)+C ; code comment + tests 'NoCarryIn': first byte ignores C.  Reference silent.
            raise Skip("DADL with carry-in set (README and tests disagree)")
    allz = 0
    areg = m.get("A")
    for i in range(n):
        a = m.rd(dr[i])
        if sr is not None:
            b = m.rd(sr[i])
        elif bcd:
            b = areg if i == 0 else 0
        else:
            b = areg
        if bcd:
            if not (_bcd_ok(a) and _bcd_ok(b)):
                raise Skip("operand is not packed BCD")
            if (not sub and (a & 15) + (b & 15) + c > 9) or (sub and (a & 15) - (b & 15) - c < 0):
                m.nt.append("bcd-half-carry")
            r, c = (_bcd_sub(a, b, c) if sub else _bcd_add(a, b, c))
        else:
            if b + c > 0xFF and "b+Cin wraps in some byte" not in m.tags:
                m.tags.append("b+Cin wraps in some byte")
            full = a - b - c if sub else a + b + c
            r = full & 0xFF
            c = int(full < 0) if sub else int(full > 0xFF)
        m.wr(dr[i], r)
        allz |= r
    m.set_cz(c, int(allz == 0))
    m.set("I", 0)
    if n >= 2:
        m.nt.append("chain:I>=2")
    if c:
        m.nt.append("carry")
    if allz == 0:
        m.nt.append("zero")


def sem_dshift(m: Ref, mn: str, ops: List[Tuple[Any, ...]]) -> None:
    """DSLL (n): addresses decreasing from (n); DSRL (n): addresses increasing from (n); Z = all result bytes
    zero, C untouched, I = 0 (README rows + test_dsrl_dsll_instruction).  Digit movement: two readings are
    accepted -- variant 'helpers' = compute_expected_dsll/dsrl as executed by the maintainers' passing tests,
    variant 'decimal' = a true one-digit decimal shift of the multi-byte number (README wording and the intent
    stated in the test ids/comments, e.g. 1234 -> 2340); for I = 1 both coincide."""
    (o,) = ops
    if o[0] != "imem":
        raise Unmodelled(mn + " operand")
    n = m.r["I"]
    if n == 0:
        raise Skip("I = 0")
    base = m.imem_addr(o, 0) - IMEM
    step = -1 if mn == "DSLL" else 1
    last = base + step * (n - 1)
    if not 0 <= last <= 0xFF:
        raise Skip("decimal shift runs off internal memory")
    addrs = [IMEM + base + step * i for i in range(n)]
    old = [m.rd(a) for a in addrs]
    new: List[int] = []
    if mn == "DSLL":
        u = 0
        for i, t in enumerate(old):
            new.append(((t & 15) << 4) | u)
            u = (t & 15) if m.variant != "decimal" else (t >> 4)
    else:
        u = 0
        for i, t in enumerate(old):
            new.append((t >> 4) | (u << 4))
            u = (t >> 4) if m.variant != "decimal" else (t & 15)
    allz = 0
    for a, v in zip(addrs, new):
        m.wr(a, v)
        allz |= v
    m.set_cz(None, int(allz == 0))
    m.set("I", 0)
    if n >= 2:
        m.nt.append("chain:I>=2")
    if allz == 0:
        m.nt.append("zero")


def sem_stack(m: Ref, mn: str, ops: List[Tuple[Any, ...]]) -> None:
    """README 'Stack Instructions'."""
    (o,) = ops
    if o[0] != "reg":
        raise Unmodelled("stack operand")
    sp = "U" if mn.endswith("U") else "S"
    name = o[1]
    w = REG_WIDTH[name]
    v0 = m.r[sp]
    if mn.startswith("PUSH"):
        if v0 - w < 0:
            raise Skip("stack pointer wraps")
        if name == sp:
            raise Skip("push of the stack pointer itself")
        if name == "F":
            # README: [U] <- F.  Only C and Z are defined bits of F -> only bits 0,1 of the stored byte asserted.
            m.wr(v0 - 1, m.f0, 0x03)
        elif name == "IMR":
            # README: [U] <- IMR, IMR7 <- 0 ; appendix B: addressed directly regardless of PRE/BP
            imr = m.rd(IMEM + 0xFB)
            m.wr(v0 - 1, imr)
            m.wr(IMEM + 0xFB, imr & 0x7F)
        else:
            m.wrn(v0 - w, w, m.get(name))
        m.set(sp, v0 - w)
        m.nt.append("stack")
    else:
        if v0 + w > M20 + 1:
            raise Skip("stack pointer wraps")
        if name == sp:
            raise Skip("pop into the stack pointer itself")
        if name == "F":
            b = m.rd(v0)
            m.c, m.z = b & 1, (b >> 1) & 1       # 'C Z restore'
            m.f_hi = False                        # whether bits 2..7 are loaded or kept is not documented
        elif name == "IMR":
            m.wr(IMEM + 0xFB, m.rd(v0))
        elif name == "IL":
            m.set("IL", m.rd(v0))                 # README POPU r1 row has no IH note -> IH not asserted
        else:
            m.set(name, m.rdn(v0, w))
        m.set(sp, v0 + w)
        m.nt.append("stack")


def sem_jump(m: Ref, mn: str, ops: List[Tuple[Any, ...]]) -> None:
    """README 'Jump, Call, and Return Instructions'."""
    pc0, nxt = m.pc0, m.r["PC"]
    page = pc0 & 0xF0000
    if (nxt & 0xF0000) != page:
        raise Skip("instruction straddles a 64 KiB page")
    cond = None
    base = mn
    for suffix in ("NZ", "NC", "Z", "C"):
        if mn in ("JP" + suffix, "JR" + suffix):
            cond = suffix
            base = mn[:2]
            break
    taken = True
    if cond is not None:
        flag = m.z if "Z" in cond else m.c
        taken = (flag == 0) if cond.startswith("N") else (flag == 1)
        m.nt.append("branch-taken" if taken else "branch-not-taken")
    if base == "JP" or mn == "JPF":
        (o,) = ops
        if o[0] == "imm":
            tgt = o[1] if o[2] == 3 else (page | (o[1] & 0xFFFF))
        elif o[0] == "reg":
            if o[1] not in R3:
                raise Unmodelled("JP through non-pointer register")      # README: JP r3 (X,Y,U,S)
            tgt = m.get(o[1])
        elif o[0] == "imem":
            tgt = m.rdn(m.imem_addr(o, 0), 3) & M20
        else:
            raise Unmodelled("JP operand")
        if taken:
            m.set("PC", tgt)
        return
    if base == "JR":
        (o,) = ops
        if o[0] != "rel":
            raise Unmodelled("JR operand")
        tgt = nxt + o[1]
        if (tgt & 0xF0000) != page or not 0 <= tgt <= M20:
            raise Skip("relative jump leaves the 64 KiB page")
        if taken:
            m.set("PC", tgt)
        return
    if mn in ("CALL", "CALLF"):
        (o,) = ops
        w = 2 if mn == "CALL" else 3
        s = m.r["S"]
        if s - w < 0:
            raise Skip("stack pointer wraps")
        m.wrn(s - w, w, nxt & (0xFFFF if w == 2 else M20))
        m.set("S", s - w)
        m.set("PC", o[1] if w == 3 else (page | (o[1] & 0xFFFF)))
        m.nt.append("stack")
        return
    if mn in ("RET", "RETF", "RETI"):
        s = m.r["S"]
        if s + 5 > M20 + 1:
            raise Skip("stack pointer wraps")
        if mn == "RET":
            m.set("PC", page | m.rdn(s, 2))
            m.set("S", s + 2)
        elif mn == "RETF":
            m.set("PC", m.rdn(s, 3) & M20)
            m.set("S", s + 3)
        else:
            m.wr(IMEM + 0xFB, m.rd(s))                 # IMR <- [S]
            b = m.rd(s + 1)                           # F <- [S+1] ('C Z restore')
            m.c, m.z = b & 1, (b >> 1) & 1
            m.f_hi = False
            m.set("PC", m.rdn(s + 2, 3) & M20)
            m.set("S", s + 5)
        m.nt.append("stack")
        return
    raise Unmodelled(mn)


def sem_misc(m: Ref, mn: str, ops: List[Tuple[Any, ...]]) -> None:
    if mn in ("NOP", "TCL"):
        return
    if mn == "SC":
        m.c = 1
        return
    if mn == "RC":
        m.c = 0
        return
    if mn == "WAIT":
        m.set("I", 0)            # appendix B: I = 0, nothing else
        return
    if mn in ("HALT", "OFF"):
        # README HALT/OFF table: USR bits 0-2,5 <- 0, bits 3,4 <- 1; SSR bit 2 <- 1; flags undefined
        usr = m.rd(IMEM + 0xF8)
        m.wr(IMEM + 0xF8, (usr & ~0x27 & 0xFF) | 0x18)
        ssr = m.rd(IMEM + 0xFF)
        m.wr(IMEM + 0xFF, ssr | 0x04)
        m.c = None
        m.z = None
        m.halted = True
        return
    if mn == "RESET":
        # appendix B: ACM/LCC(FE) bit 7, UCR(F7), USR bits, SCR(FD) only; IMR/ISR/SSR and PC not asserted
        lcc = m.rd(IMEM + 0xFE)
        m.wr(IMEM + 0xFE, lcc & 0x7F)
        m.wr(IMEM + 0xF7, 0)
        usr = m.rd(IMEM + 0xF8)
        m.wr(IMEM + 0xF8, (usr & ~0x27 & 0xFF) | 0x18)
        m.wr(IMEM + 0xFD, 0)
        m.opt_w |= {IMEM + 0xFB, IMEM + 0xFC, IMEM + 0xFF}   # 'IMR (FCH)' name/address clash; SSR bit 2 documented both ways
        m.reads_checked = False                               # reset-vector location: C06/C17's subject
        m.unchecked.add("PC")
        m.labels.append("reset")
        return
    raise Unmodelled(mn)


ALU2 = ("ADD", "SUB", "ADC", "SBC", "AND", "OR", "XOR", "PMDF")
UNARY = ("INC", "DEC", "ROR", "ROL", "SHR", "SHL", "SWAP")
JUMPS = ("JP", "JPF", "JR", "JPZ", "JPNZ", "JPC", "JPNC", "JRZ", "JRNZ", "JRC", "JRNC", "CALL", "CALLF", "RET",
         "RETF", "RETI")


def variants_of(mn: str, ops: List[Tuple[Any, ...]], regs: Dict[str, int]) -> List[str]:
    if mn == "MVL" and len(ops) == 2 and ops[1][0] == "ereg" and ops[1][2] == "predec" and regs["I"] >= 2:
        return ["readme", "tests"]
    if mn in ("DSLL", "DSRL") and regs["I"] >= 2:
        return ["helpers", "decimal"]
    return [""]


def run_one(mn: str, ops: List[Tuple[Any, ...]], regs: Dict[str, int], peek: Callable[[int], int], length: int,
            mode_override: Optional[Dict[int, str]] = None, variant: str = "") -> Expect:
    m = Ref(regs, peek, length, mode_override, variant)
    if mn in ("MV", "MVW", "MVP"):
        sem_mv(m, mn, ops)
    elif mn in ("MVL", "MVLD"):
        sem_mvl(m, mn, ops)
    elif mn in ("EX", "EXW", "EXP"):
        sem_ex(m, mn, ops)
    elif mn == "EXL":
        sem_exl(m, mn, ops)
    elif mn in ALU2:
        sem_alu2(m, mn, ops)
    elif mn in ("CMP", "CMPW", "CMPP", "TEST"):
        sem_cmp(m, mn, ops)
    elif mn in UNARY:
        sem_unary(m, mn, ops)
    elif mn in ("ADCL", "SBCL", "DADL", "DSBL"):
        sem_multibyte(m, mn, ops)
    elif mn in ("DSLL", "DSRL"):
        sem_dshift(m, mn, ops)
    elif mn in ("PUSHU", "POPU", "PUSHS", "POPS"):
        sem_stack(m, mn, ops)
    elif mn in JUMPS:
        sem_jump(m, mn, ops)
    elif mn in ("NOP", "TCL", "SC", "RC", "WAIT", "HALT", "OFF", "RESET"):
        sem_misc(m, mn, ops)
    else:
        raise Unmodelled(mn)
    # Self-modifying addressing: a write to BP/PX/PY while a multi-step instruction forms addresses from them.
    # Block moves are inside the domain: every README MVL row that spells the loop out latches both addresses before
    # it ("d<-(n), s<-[r3]. Loop I times: [d++]<-[s++]"; the (m),(n) rows abbreviate the same loop as "(m++) <- (n++)"),
    # the rendered operand (BP+m) denotes ONE start address -- the one BP gives at instruction entry -- and "the range
    # implied by I" is the run of I consecutive bytes from it.  A destination run that passes over EC/ED/EE therefore
    # changes BP/PX/PY as data and nothing about the remaining addresses (sem_mvl works byte by byte from d0/s0).
    # The exchange and arithmetic/decimal chains have no such row: still skipped.
    if (mn in COUNTED and mn not in ("MVL", "MVLD")) or mn in ("EX", "EXW", "EXP"):
        uses_ptr = any(a in m.rd_addr for a in (A_BP, A_PX, A_PY))
        if uses_ptr and any(a in m.w for a in (A_BP, A_PX, A_PY)):
            raise Skip("instruction rewrites BP/PX/PY while addressing through them")
    if mn in ("MVL", "MVLD") and any(a in m.w for a in (A_BP, A_PX, A_PY)):
        m.labels.append("block:rewrites-BP/PX/PY" + ("-while-addressing-through-them"
                        if any(a in m.rd_addr for a in (A_BP, A_PX, A_PY)) else ""))
    return m.finish()


def expectations(mn: str, ops: List[Tuple[Any, ...]], regs: Dict[str, int], peek: Callable[[int], int], length: int
                 ) -> List[Expect]:
    """All acceptable outcomes (first = primary reading).  Raises Skip / Unmodelled."""
    out = []
    for v in variants_of(mn, ops, regs):
        out.append(run_one(mn, ops, regs, peek, length, None, v))
    return out
