"""C10 helper: program representation, source rendering, layout model and the verdict function.

A program is a JSON dict {"kind": "program", "lines": [line, ...], "tail_raw": str|None}; a line is

    {"label": str|None, "own_line": bool, "stmt": stmt|None, "comment": str|None, "indent": str,
     "mcase": 0|1|2, "blank": int, "join_prev": bool}

    stmt = {"t": "instr", "shape": template, "ops": [op, ...]}            one op per slot of the template
         | {"t": "defb"|"defw"|"defl", "args": [op, ...]}
         | {"t": "defs", "n": int} | {"t": "defm", "s": str}
         | {"t": "org", "addr": int, "style": int} | {"t": "org", "sym": name, "text": str}
           (a numeric origin drawn from the boundary set additionally carries "edge": True and, while the generator
           may still move it, "alt": the ordinary well-separated origin it falls back to -- see settle_origins)
         | {"t": "section", "name": "code"|"text"|"data"|"bss", "text": "SECTION Data"}
    op   = {"num": int, "style": int} | {"sym": label name as defined, "text": spelling used at the reference}

The model is written from the property statement and the maintainers' tests (section bases code 0 / data 0x80000,
.ORG sets the current section's pointer, a statement advances its section by its size, bss emits nothing).
"""

from __future__ import annotations

import re
from typing import Any, Dict, List, Optional, Tuple

from .core import Violation, mix32
from . import c10_shapes as S

SECTION_BASE = {"code": 0x00000, "text": 0x00000, "data": 0x80000, "bss": 0x90000}
DATA_W = {"defb": 1, "defw": 2, "defl": 3}

# ---- assembler CONFIGURATION (round 5).  `Assembler.SECTION_BASE_ADDRESSES` ("Sane Defaults for Section Base
# Addresses") and `Assembler.DEFAULT_SECTION` are plain class attributes read through `self`: a program may be
# assembled by a subclass that overrides them, or by an object on which they were set.  A program dict carries
#     "asm": None | {"how": "subclass" | "grandchild" | "instance", "bases": {section: base} | None,
#                    "default": "code" | "data" | None}
# (None / absent = plain `Assembler()`); the layout model starts from the overridden map / section.
CONFIG_HOWS = ["subclass", "grandchild", "instance"]
HOW_TEXT = {"subclass": "class attribute of a subclass", "grandchild": "class attribute inherited from a subclass",
            "instance": "attribute set on the object"}
RAW_WS = "\t\x0b\x0c"  # raw (unescaped) white-space control characters a string literal may contain


def config_of(prog: Optional[Dict[str, Any]]) -> Optional[Dict[str, Any]]:
    cfg = (prog or {}).get("asm")
    return cfg if cfg and (cfg.get("bases") or cfg.get("default")) else None


def bases_of(prog: Optional[Dict[str, Any]]) -> Dict[str, int]:
    cfg = config_of(prog)
    out = dict(SECTION_BASE)
    if cfg and cfg.get("bases"):
        out.update({str(k): int(v) for k, v in cfg["bases"].items()})
    return out


def default_section_of(prog: Optional[Dict[str, Any]]) -> str:
    cfg = config_of(prog)
    return str(cfg["default"]) if cfg and cfg.get("default") else "code"


def config_class(cfg: Optional[Dict[str, Any]]) -> str:
    if not cfg:
        return "plain Assembler()"
    what = " and ".join(w for w, on in (("SECTION_BASE_ADDRESSES", cfg.get("bases")),
                                        ("DEFAULT_SECTION", cfg.get("default"))) if on)
    return f"{what} overridden ({HOW_TEXT[cfg['how']]})"


def make_assembler(cfg: Optional[Dict[str, Any]] = None) -> Any:
    """A new assembler object with the given configuration (None: plain `Assembler()`)."""
    from sc62015.pysc62015.sc_asm import Assembler

    if not cfg or not (cfg.get("bases") or cfg.get("default")):
        return Assembler()
    ns: Dict[str, Any] = {}
    if cfg.get("bases"):
        full = dict(SECTION_BASE)
        full.update({str(k): int(v) for k, v in cfg["bases"].items()})
        ns["SECTION_BASE_ADDRESSES"] = full
    if cfg.get("default"):
        ns["DEFAULT_SECTION"] = str(cfg["default"])
    how = cfg.get("how", "subclass")
    if how == "instance":
        obj = Assembler()
        for k, v in ns.items():
            setattr(obj, k, v)
        return obj
    klass = type("BoardAssembler", (Assembler,), dict(ns))
    if how == "grandchild":
        klass = type("BoardVariantAssembler", (klass,), {})
    return klass()

_SHAPES: Dict[str, Dict[str, Any]] = {}
_STANDALONE: Dict[Tuple[str, Optional[int]], Tuple[Optional[bytes], Optional[str]]] = {}


def shape_info(template: str) -> Dict[str, Any]:
    info = _SHAPES.get(template)
    if info is None:
        info = S.probe_shape(template)
        _SHAPES[template] = info
    return info


def preload_shapes(infos: List[Dict[str, Any]]) -> None:
    for i in infos:
        _SHAPES[i["template"]] = i


def standalone(text: str, addr: Optional[int]) -> Tuple[Optional[bytes], Optional[str]]:
    key = (text, addr)
    r = _STANDALONE.get(key)
    if r is None:
        r = S.standalone_bytes(text, addr)
        if len(_STANDALONE) > 20000:
            _STANDALONE.clear()
        _STANDALONE[key] = r
    return r


# ------------------------------------------------------------------------------------------------ rendering

def _mn(text: str, mcase: int) -> str:
    """Case variant of the mnemonic/directive keyword (first word); operands untouched."""
    parts = text.split(" ", 1)
    head = parts[0]
    head = head.upper() if mcase == 0 else head.lower() if mcase == 1 else head.capitalize()
    return head if len(parts) == 1 else head + " " + parts[1]


def op_text(op: Dict[str, Any]) -> str:
    if "sym" in op:
        return str(op.get("text") or op["sym"])
    return S.fmt_num(int(op["num"]), int(op.get("style", 0)))


def stmt_text(stmt: Dict[str, Any], mcase: int = 0, subst: Optional[Dict[str, int]] = None,
              near_low16: bool = False) -> str:
    """Source text of one statement. With `subst`, symbolic operands are replaced by hex literals of their values."""

    def o(op: Dict[str, Any]) -> str:
        if "sym" in op and subst is not None:
            v = subst[op["sym"].upper()]
            if near_low16:
                v &= 0xFFFF
            return f"0x{v:X}"
        return op_text(op)

    t = stmt["t"]
    if t == "instr":
        return _mn(S.render(stmt["shape"], [o(x) for x in stmt["ops"]]), mcase)
    if t in DATA_W:
        return _mn(t + " " + ", ".join(o(x) for x in stmt["args"]), mcase)
    if t == "defs":
        return _mn(f"defs {int(stmt['n'])}", mcase)
    if t == "defm":
        return _mn('defm "' + stmt["s"] + '"', mcase)
    if t == "org":
        if "sym" in stmt:
            return _mn(".ORG " + str(stmt.get("text") or stmt["sym"]), mcase)
        return _mn(".ORG " + S.fmt_num(int(stmt["addr"]), int(stmt.get("style", 0))), mcase)
    if t == "section":
        return str(stmt.get("text") or ("SECTION " + stmt["name"]))
    raise ValueError(f"unknown statement type {t!r}")


def render_program(prog: Dict[str, Any], split_pairs: bool = True) -> Tuple[str, Dict[int, int]]:
    """Return (source text, {1-based source line number -> index into prog['lines']} for statement lines)."""
    out: List[str] = []
    line_of: Dict[int, int] = {}
    for idx, ln in enumerate(prog["lines"]):
        for _ in range(int(ln.get("blank", 0))):
            out.append("")
        stmt = ln.get("stmt")
        label = ln.get("label")
        indent = ln.get("indent", "    ")
        comment = ln.get("comment")
        stext = stmt_text(stmt, int(ln.get("mcase", 0))) if stmt else ""
        if stmt and ln.get("join_prev") and not split_pairs and out and not label:
            out[-1] = out[-1] + " " + stext
            line_of[len(out)] = idx
            continue
        if label and ln.get("own_line"):
            out.append(f"{label}:")
            if comment:
                out.append("  ; " + comment)
            if stmt:
                out.append(indent + stext)
                line_of[len(out)] = idx
        else:
            body = (f"{label}: " if label else indent) + stext
            if comment:
                body += " ; " + comment
            out.append(body)
            if stmt:
                line_of[len(out)] = idx
    text = "\n".join(out) + "\n"
    if prog.get("tail_raw"):
        text += prog["tail_raw"]
        if not text.endswith("\n"):
            text += "\n"
    return text, line_of


# ------------------------------------------------------------------------------------------------ model

def stmt_class(stmt: Optional[Dict[str, Any]]) -> str:
    if not stmt:
        return "label only"
    t = stmt["t"]
    if t == "instr":
        return stmt["shape"]
    if t in DATA_W:
        return t + (" (symbolic argument)" if any("sym" in a for a in stmt["args"]) else "")
    if t == "org":
        return ".ORG symbol" if "sym" in stmt else ".ORG"
    if t == "section":
        return "SECTION " + stmt["name"]
    if t == "defm" and has_raw_ws(stmt["s"]):
        return "defm (string with a raw TAB / white-space control character)"
    return t


def has_raw_ws(text: str) -> bool:
    return any(c in RAW_WS for c in text)


def prev_class(stmt: Optional[Dict[str, Any]]) -> str:
    """Coarser class used in 'label after <...>' fingerprints: instructions by operand-slot kinds only."""
    if stmt and stmt["t"] == "instr":
        kinds = sorted(set(S.slots_of(stmt["shape"])))
        return "instruction" + (" with %" + "/%".join(kinds) + " operand" if kinds else " without operand slots")
    return stmt_class(stmt)


def stmt_size(stmt: Dict[str, Any]) -> int:
    t = stmt["t"]
    if t == "instr":
        info = shape_info(stmt["shape"])
        return int(info["size"])
    if t in DATA_W:
        return DATA_W[t] * len(stmt["args"])
    if t == "defs":
        return int(stmt["n"])
    if t == "defm":
        return len(defm_bytes(stmt["s"]))
    return 0


def defm_bytes(text: str) -> bytes:
    """Bytes of a defm string.  Without a backslash: the characters themselves.  With backslash sequences the
    documentation does not say whether they are decoded, so the reference is what assembling the statement ALONE
    emits (the property's own standalone-equivalence clause); what is then asserted in a program is that the first
    pass reserves exactly that many bytes and the second pass emits exactly those bytes."""
    if "\\" not in text and not has_raw_ws(text):
        return text.encode("ascii")
    # raw TAB / VT / FF inside the quotes: the reference is likewise the statement assembled ALONE (at column 0);
    # in a program the statement stands at other columns (indentation, label on the same line)
    data, _err = standalone('defm "' + text + '"', None)
    return data if data is not None else text.encode("ascii")


def layout(prog: Dict[str, Any]) -> Dict[str, Any]:
    """Layout model. Returns per-line records and label table.

    rec = {"idx", "section", "addr", "size", "emits", "loc", "bss_rel": address relative to the unknown bss base}
    labels: name(upper) -> {"value", "idx", "bss_rel", "prev": what lies between the previous label of the same
            section and this one (the candidates for a wrong size), "section", "pre_location": bool}
    """
    ptr = bases_of(prog)
    bss_rel = True  # bss labels are asserted relative to the first one until a .ORG fixes the pointer
    cur = default_section_of(prog)
    events: Dict[str, List[str]] = {k: ["section start"] for k in ptr}
    # owner[section] = index of the numeric .ORG line that positioned the section's current run (None: section base)
    owner: Dict[str, Optional[int]] = {k: None for k in ptr}
    recs: List[Dict[str, Any]] = []
    labels: Dict[str, Dict[str, Any]] = {}

    def since(sec: str) -> str:
        ev: List[str] = []
        for e in events[sec]:
            if e not in ev:
                ev.append(e)
        events[sec] = []
        if not ev:
            return "directly after the previous label"
        loc = [e for e in (".ORG symbol", ".ORG 0", ".ORG", "SECTION re-entry", "section start") if e in ev]
        st = [e for e in ev if e not in loc]
        if len(st) > 1:
            st = ["several statements"]
        return "after " + " + ".join(loc + st)

    for idx, ln in enumerate(prog["lines"]):
        stmt = ln.get("stmt")
        label = ln.get("label")
        t = stmt["t"] if stmt else None
        pre_location = False
        if label and t in ("org", "section"):
            # A label on its own line in front of a location directive names the location counter *before* the
            # directive (the line the label stands on precedes the directive).
            pre_location = True
            labels[label.upper()] = {"value": ptr[cur], "idx": idx, "bss_rel": (cur == "bss" and bss_rel),
                                     "prev": "label-only line before " + stmt_class(stmt), "section": cur,
                                     "pre_location": True, "owner": owner[cur]}
        if t == "section":
            cur = stmt["name"].lower()
            if events[cur] != ["section start"]:
                events[cur].append("SECTION re-entry")
            recs.append({"idx": idx, "section": cur, "addr": ptr[cur], "size": 0, "emits": False, "loc": True})
            continue
        if t == "org":
            before = ptr[cur]
            if "sym" in stmt:
                tgt = labels.get(stmt["sym"].upper())
                ptr[cur] = tgt["value"] if tgt else 0
                owner[cur] = tgt["owner"] if tgt else None
                events[cur] = [".ORG symbol"]  # the origin overrides whatever preceded it in this section
            else:
                ptr[cur] = int(stmt["addr"])
                owner[cur] = idx
                # origin 0 is named on its own: it is the one value a truthiness test confuses with "no origin"
                events[cur] = [".ORG 0" if ptr[cur] == 0 else ".ORG"]
            if cur == "bss":
                bss_rel = False
            recs.append({"idx": idx, "section": cur, "addr": ptr[cur], "size": 0, "emits": False, "loc": True,
                         "before": before})
            continue
        addr = ptr[cur]
        if label and not pre_location:
            labels[label.upper()] = {"value": addr, "idx": idx, "bss_rel": (cur == "bss" and bss_rel),
                                     "prev": since(cur), "section": cur, "pre_location": False, "owner": owner[cur]}
        size = stmt_size(stmt) if stmt else 0
        recs.append({"idx": idx, "section": cur, "addr": addr, "size": size, "emits": bool(stmt) and cur != "bss",
                     "loc": False, "bss_rel": (cur == "bss" and bss_rel), "owner": owner[cur]})
        if stmt:
            ptr[cur] += size
            events[cur].append(prev_class(stmt))
    return {"recs": recs, "labels": labels}


ADDRESS_SPACE = 0x100000


def settle_origins(prog: Dict[str, Any]) -> int:
    """Generator helper: make a program with BOUNDARY origins (`.ORG 0`, `.ORG 1`, a section base, the last
    address, ...) well-formed.  Such an origin is kept wherever the layout model says the run it starts neither
    collides with the bytes of another run nor leaves the 20-bit address space; otherwise the directive falls back
    to its ordinary origin ("alt", one of the pairwise distant slots).  Only emitted bytes collide: a bss run
    reserves addresses but emits nothing, so an origin inside bss always stays.  Statement sizes do not depend on
    operand values, so this runs before symbolic operands are chosen.  Returns the number of origins moved."""
    lines = prog["lines"]
    moved = 0

    def movable(i: Optional[int]) -> bool:
        return i is not None and "alt" in (lines[i].get("stmt") or {})

    for _ in range(len(lines) + 1):
        recs = [r for r in layout(prog)["recs"] if not r.get("loc") and r["size"]]
        victim: Optional[int] = None
        for r in recs:
            if r["addr"] + r["size"] > ADDRESS_SPACE and movable(r["owner"]):
                victim = r["owner"]
                break
        if victim is None:
            em = [r for r in recs if r["emits"]]
            for k, r in enumerate(em):
                for q in em[:k]:
                    if r["addr"] < q["addr"] + q["size"] and q["addr"] < r["addr"] + r["size"]:
                        cands = [o for o in (r["owner"], q["owner"]) if movable(o)]
                        if cands:
                            victim = max(cands)  # the later directive gives way
                            break
                if victim is not None:
                    break
        if victim is None:
            break
        st = lines[victim]["stmt"]
        st["addr"] = int(st.pop("alt"))
        st["edge"] = False
        st["moved"] = True
        moved += 1
    for ln in lines:
        if ln.get("stmt") and "alt" in ln["stmt"]:
            del ln["stmt"]["alt"]
    return moved


def in_domain(prog: Dict[str, Any]) -> bool:
    """Shrinker guard: is a (reduced) program still one the generator could have produced?  Every symbolic operand's
    MODEL value fits its operand field (the generator only places a symbol where it fits; deleting a `.ORG` or a
    statement can push a label out of range, and the resulting rejection would reproduce on a correct tree), no two
    runs emit to the same address, nothing extends beyond the address space."""
    lay = layout(prog)
    labs = lay["labels"]
    for ln in prog["lines"]:
        stmt = ln.get("stmt")
        if not stmt:
            continue
        if stmt["t"] == "instr":
            for op, kind in zip(stmt["ops"], S.slots_of(stmt["shape"])):
                if "sym" in op and kind != "J":
                    lab = labs.get(op["sym"].upper())
                    if lab is None or lab["value"] > S.SLOT_MAX[kind]:
                        return False
        elif stmt["t"] in DATA_W:
            lim = min((1 << (8 * DATA_W[stmt["t"]])) - 1, 0xFFFFF)
            for op in stmt["args"]:
                if "sym" in op:
                    lab = labs.get(op["sym"].upper())
                    if lab is None or lab["value"] > lim:
                        return False
    recs = [r for r in lay["recs"] if not r.get("loc") and r["size"]]
    if any(r["addr"] + r["size"] > ADDRESS_SPACE for r in recs):
        return False
    em = sorted((r["addr"], r["addr"] + r["size"]) for r in recs if r["emits"])
    return all(em[k][1] <= em[k + 1][0] for k in range(len(em) - 1))


def near_expectations(prog: Dict[str, Any], lay: Dict[str, Any]) -> Tuple[List[int], List[int], List[int]]:
    """(indices of near JP/CALL statements whose symbolic target is on another page, indices of ambiguous ones,
    indices of near JP/CALL statements whose LITERAL target names another page).

    Ambiguous = the instruction straddles a 64 KiB boundary (the statement does not say which page counts).
    A numeric target <= 0xFFFF is page-relative (the maintainers' low-16 form, test
    `..._same_page_high_org_low16_literal`) and can never name another page; a numeric target with page bits is the
    value a label would have, i.e. "the instruction with its symbol replaced by its value", and falls under the
    page rule like the label does.
    """
    cross: List[int] = []
    ambiguous: List[int] = []
    cross_lit: List[int] = []
    for rec in lay["recs"]:
        ln = prog["lines"][rec["idx"]]
        stmt = ln.get("stmt")
        if not stmt or stmt["t"] != "instr" or not S.is_near(stmt["shape"]):
            continue
        op = stmt["ops"][0]
        a = rec["addr"]
        if "sym" not in op:
            num = int(op["num"])
            if num > 0xFFFF:
                if (a >> 16) != ((a + rec["size"]) >> 16):
                    ambiguous.append(rec["idx"])
                elif (num >> 16) != (a >> 16):
                    cross_lit.append(rec["idx"])
            continue
        if (a >> 16) != ((a + rec["size"]) >> 16):
            ambiguous.append(rec["idx"])
            continue
        tgt = lay["labels"].get(op["sym"].upper())
        if tgt is None:
            continue
        if (tgt["value"] >> 16) != (a >> 16):
            cross.append(rec["idx"])
    return cross, ambiguous, cross_lit


def near_symbols_as_literals(prog: Dict[str, Any], lay: Dict[str, Any]) -> Dict[str, Any]:
    """The same program with every symbolic near JP/CALL target above 0xFFFF replaced by the hex literal of the
    label's model address (the labels stay defined).  Labels on page 0 stay symbolic: their value written as a
    number is the page-relative low-16 form, which is a different instruction on a high page."""
    import copy

    out = copy.deepcopy(prog)
    for ln in out["lines"]:
        stmt = ln.get("stmt")
        if stmt and stmt["t"] == "instr" and S.is_near(stmt["shape"]) and "sym" in stmt["ops"][0]:
            tgt = lay["labels"].get(stmt["ops"][0]["sym"].upper())
            if tgt is not None and int(tgt["value"]) > 0xFFFF:
                stmt["ops"][0] = {"num": int(tgt["value"]), "style": 0}
    return out


# ------------------------------------------------------------------------------------------------ label names
#
# A label is `CNAME ":"`: its SPELLING is part of the quantifier.  Nothing in the grammar reserves the names of the
# internal-memory registers (only `(KOL)`-style operands know them), of mnemonics, directives or section names, so
# a program may call a label SI, Kil, bp, NOP, defw, data, ...; references to it are looked up case-insensitively.
# The generator therefore renames the labels of a finished program (definition and every reference) to spellings
# from the vocabularies below.  The oracle is unchanged: a label's value is what the layout model says, whatever
# the label is called.

IMEM_NAMES = ["BL", "BH", "CL", "CH", "DL", "DH", "SI", "SI1", "SI2", "DI", "DI1", "DI2", "IOCS_WS", "IOCS_WS1",
              "IOCS_WS2", "BP", "PX", "PY", "AMC", "KOL", "KOH", "KIL", "EOL", "EOH", "EIL", "EIH", "UCR", "USR",
              "RXD", "TXD", "IMR", "ISR", "SCR", "LCC", "SSR"]
# names the grammar's `reg` rule accepts as an operand (a reference in a position that also admits `reg` is read
# as the register: such a position is outside the domain for that name, see reference_reads_symbols)
REG_OPERAND_NAMES = ["A", "IL", "BA", "I", "X", "Y", "U", "S"]
REG_OTHER_NAMES = ["B", "F", "PC", "FC", "FZ"]
MNEMONIC_NAMES = ["NOP", "RET", "RETI", "RETF", "HALT", "RESET", "WAIT", "MV", "MVW", "MVL", "JP", "JPF", "JPZ",
                  "JR", "CALL", "CALLF", "PUSHU", "POPS", "INC", "DEC", "ADD", "SUB", "AND", "OR", "XOR", "CMP",
                  "TEST", "EX", "SWAP", "ROL", "SHL", "PMDF", "DSLL", "ADCL"]
DIRECTIVE_NAMES = ["defb", "defw", "defl", "defs", "defm", "ORG", "SECTION", "code", "data", "bss", "text",
                   "EQU", "END", "db", "dw"]
# identifiers that merely BEGIN with a mnemonic that takes no operand (RET, OFF, SC, NOP, ...)
PREFIXED_NAMES = ["RETRY", "OFFSET", "SCAN", "NOPE", "RESET_VEC", "HALTED", "WAIT_KEY", "SC_1", "RCV", "IRQ",
                  "TCLK", "RETURN"]
# identifiers that look like numbers of other notations (none of them is a NUMBER of the grammar)
NUMBERLIKE_NAMES = ["xFF", "h", "e1", "b0", "o7", "FFh", "True", "None", "_", "__", "_0", "x0", "O0", "l"]
NAME_VOCABULARY: List[Tuple[str, int, List[str]]] = [
    ("imem-register", 44, IMEM_NAMES),
    ("cpu-register-operand", 10, REG_OPERAND_NAMES),
    ("cpu-register-other", 8, REG_OTHER_NAMES),
    ("mnemonic", 9, MNEMONIC_NAMES),
    ("directive-or-section", 10, DIRECTIVE_NAMES),
    ("mnemonic-prefixed", 5, PREFIXED_NAMES),
    ("number-like", 14, NUMBERLIKE_NAMES),
]
_NAME_CLASS = {n.upper(): cls for cls, _w, names in reversed(NAME_VOCABULARY) for n in names}
_CNAME = re.compile(r"[A-Za-z_][A-Za-z0-9_]*\Z")


def name_class(name: str) -> str:
    """Vocabulary class of a label spelling ('generated' for the L1 / lbl_2 / Loop3x ... styles)."""
    return _NAME_CLASS.get(name.upper(), "generated")


def split_remainders(name: str) -> List[str]:
    """Upper-case names that remain when one or more operand-less mnemonics are cut off the front of `name`
    (`OFFSET` -> `SET`, `SCR` -> `R`, `RETI` -> `I`): the grammar has no token boundaries, so these are the shorter
    labels a scanner-less parser can see in `OFFSET:`."""
    words = sorted({t.upper() for t in S.candidate_templates() if " " not in t})
    out: List[str] = []
    todo = [name.upper()]
    while todo:
        cur = todo.pop()
        for w in words:
            rest = cur[len(w):]
            if cur.startswith(w) and rest and _CNAME.match(rest) and rest not in out:
                out.append(rest)
                todo.append(rest)
    return sorted(out)


_PARSER: Any = None
_READS: Dict[str, bool] = {}


def name_probe_available() -> bool:
    """Is the tree's parser object reachable (sc62015.pysc62015.asm.asm_parser)?"""
    global _PARSER
    if _PARSER is None:
        try:
            from sc62015.pysc62015.asm import asm_parser
            _PARSER = asm_parser
        except Exception:
            _PARSER = False
    return _PARSER is not False


def reference_reads_symbols(text: str, expected: List[str]) -> bool:
    """Domain question, asked of the tree's PARSER only (never of its evaluation): does the statement `text` read
    exactly the spellings `expected` as symbol atoms?  `JP x` is `JP <register X>` (the register terminals have
    priority over CNAME), `CALL x` / `defw x` / `MV A, [kol]` read a symbol.  A spelling the parser reads as
    something else -- or rejects -- in a position is a reserved word there: the program is outside the domain."""
    key = text + "\x00" + "\x00".join(sorted(expected))
    r = _READS.get(key)
    if r is None:
        r = False
        if name_probe_available():
            try:
                tree = _PARSER.parse(text + "\n")
                atoms = []
                for t in tree.iter_subtrees():
                    if str(t.data) == "atom" and len(t.children) == 1 and getattr(t.children[0], "type", "") == "CNAME":
                        atoms.append(str(t.children[0]))
                r = sorted(atoms) == sorted(expected)
            except Exception:
                r = False
        if len(_READS) > 50000:
            _READS.clear()
        _READS[key] = r
    return r


def _sym_ops(stmt: Optional[Dict[str, Any]]) -> List[Dict[str, Any]]:
    """The dicts of a statement that carry a symbolic reference ({'sym', 'text'}), incl. `.ORG <label>`."""
    if not stmt:
        return []
    if stmt["t"] == "org":
        return [stmt] if "sym" in stmt else []
    return [o for o in (stmt.get("ops") or []) + (stmt.get("args") or []) if isinstance(o, dict) and "sym" in o]


def _recase(name: str, how: int) -> str:
    return [name, name.upper(), name.lower(), name.capitalize(), name.swapcase()][how % 5]


def apply_label_names(prog: Dict[str, Any], seed: int) -> int:
    """Generator pass (own deterministic stream, so the structure Hypothesis drew is untouched): rename labels of a
    finished program to spellings from NAME_VOCABULARY -- definition and every reference, references in a case of
    their own.  A new spelling is kept only if (a) it is unique case-insensitively and (b) the tree's parser reads
    every statement that refers to it as referring to a symbol (reference_reads_symbols).  Half of the programs are
    left alone.  Returns the number of labels renamed."""
    n = [0]

    def u32() -> int:
        n[0] += 1
        return mix32(seed, 0xC10A, n[0])

    r = u32() % 100
    if r < 50 or not name_probe_available():
        return 0
    rate = 40 if r < 80 else 85
    lines = prog["lines"]
    used = {ln["label"].upper() for ln in lines if ln.get("label")}
    total = sum(w for _c, w, _n in NAME_VOCABULARY)
    renamed = 0
    for ln in lines:
        old = ln.get("label")
        if not old or u32() % 100 >= rate:
            continue
        k = u32() % total
        for _cls, w, names in NAME_VOCABULARY:
            if k < w:
                break
            k -= w
        new = names[u32() % len(names)]
        c = u32() % 100
        new = new if c < 40 else new.lower() if c < 70 else new.capitalize() if c < 85 else "".join(
            ch.upper() if (u32() & 1) else ch.lower() for ch in new)
        if new.upper() in used:
            continue
        touched: List[Tuple[Dict[str, Any], str, str]] = []
        stmts: List[Dict[str, Any]] = []
        for l2 in lines:
            hit = False
            for op in _sym_ops(l2.get("stmt")):
                if op["sym"].upper() != old.upper():
                    continue
                was = str(op.get("text") or op["sym"])
                how = 0 if was == op["sym"] else 1 if was == op["sym"].upper() else 2
                if u32() % 100 < 25:
                    how = 1 + u32() % 4
                touched.append((op, op["sym"], was))
                op["sym"], op["text"] = new, _recase(new, how)
                hit = True
            if hit:
                stmts.append(l2["stmt"])
        if all(reference_reads_symbols(stmt_text(s), [str(o["text"]) for o in _sym_ops(s)]) for s in stmts):
            ln["label"] = new
            used.discard(old.upper())
            used.add(new.upper())
            renamed += 1
        else:
            for op, sym, was in touched:
                op["sym"], op["text"] = sym, was
    return renamed


WHERE_MISREAD = "program with a label named like a mnemonic or beginning with an operand-less mnemonic"
SYMPTOM_MISREAD = "a word is split in two: the statements read are not the statements written"


def has_mnemonic_like_label(prog: Dict[str, Any]) -> bool:
    return any(ln.get("label") and (name_class(ln["label"]) in ("mnemonic", "mnemonic-prefixed")
                                    or split_remainders(ln["label"])) for ln in prog["lines"])


def written_structure(prog: Dict[str, Any]) -> List[Tuple[str, Any]]:
    """The program as written: labels and statements in order; a statement = (its symbol spellings, how many
    numbers it has).  Line grouping is left out (newlines are ignored whitespace for the grammar)."""
    out: List[Tuple[str, Any]] = []
    for ln in prog["lines"]:
        if ln.get("label"):
            out.append(("label", str(ln["label"])))
        stmt = ln.get("stmt")
        if stmt:
            syms = sorted(str(o.get("text") or o["sym"]) for o in _sym_ops(stmt))
            if stmt["t"] == "section":
                out.append(("section", stmt["name"].lower()))
            else:
                out.append(("stmt", syms))
    return out


def read_structure(src: str) -> Optional[List[Tuple[str, Any]]]:
    """The same view of what the tree's PARSER reads in `src` (None: parser unreachable or the source is rejected)."""
    if not name_probe_available():
        return None
    try:
        tree = _PARSER.parse(src)
    except Exception:
        return None
    out: List[Tuple[str, Any]] = []
    for line in tree.children:
        if not hasattr(line, "children"):
            continue
        for ch in line.children:
            if not hasattr(ch, "children"):
                continue
            if str(ch.data) == "label":
                out.append(("label", str(ch.children[0])))
            elif str(ch.data) == "section_decl":
                out.append(("section", str(ch.children[-1]).lower()))
            else:
                syms = [str(t.children[0]) for t in ch.iter_subtrees()
                        if str(t.data) == "atom" and getattr(t.children[0], "type", "") == "CNAME"]
                out.append(("stmt", sorted(syms)))
    return out


def misread(prog: Dict[str, Any], src: str) -> Optional[str]:
    """Root-cause discriminator for ONE family of violations: in a program with mnemonic-like label names, does the
    tree's parser read other labels / statements than the ones written (`OFFSET:` + `NOP` read as `OFF`, `SET:`,
    `NOP`; `CALLF CALLF` read as `CALL F`, `CALL F`)?  Only ever used to NAME a violation that a verdict on the
    assembler's output has already established."""
    if not has_mnemonic_like_label(prog):
        return None
    got = read_structure(src)
    want = written_structure(prog)
    if got is None or got == want:
        return None
    k = 0
    while k < min(len(got), len(want)) and got[k] == want[k]:
        k += 1
    return (f"item {k}: written {want[k] if k < len(want) else 'nothing'}, read "
            f"{got[k] if k < len(got) else 'nothing'} ({len(want)} items written, {len(got)} read)")


# ------------------------------------------------------------------------------------------------ running

def assemble(asm: Any, src: str) -> Dict[str, Any]:
    """Run one assemble() call; result is JSON-able and comparable."""
    from sc62015.pysc62015.sc_asm import AssemblerError

    try:
        bf = asm.assemble(src)
    except AssemblerError as exc:
        return {"ok": False, "error": str(exc)}
    segs = [[int(s.address), bytes(s.data).hex()] for s in bf.segments]
    return {"ok": True, "segments": segs, "symbols": {str(k): int(v) for k, v in sorted(asm.symbols.items())}}


def fresh_assemble(src: str, cfg: Optional[Dict[str, Any]] = None) -> Dict[str, Any]:
    """Assemble on a NEW object (plain `Assembler()`, or one carrying the configuration `cfg`)."""
    return assemble(make_assembler(cfg), src)


_NUM = re.compile(r"0x[0-9A-Fa-f]+|\b\d+\b")


def norm_error(msg: str) -> str:
    """Semantic form of an AssemblerError message: first line, numbers and quoted text removed."""
    first = msg.splitlines()[0] if msg else ""
    first = re.sub(r"^on line \d+: ", "", first)
    first = re.sub(r"'[^']*'", "'..'", first)
    first = re.sub(r"symbol or invalid number: .*", "symbol or invalid number", first)
    first = re.sub(r"label definition: .*", "label definition", first)
    first = re.sub(r"^(CALL|JP|JPZ|JPNZ|JPC|JPNC) target", "near target", first)
    first = re.sub(r"; use .*$", "", first)
    first = re.sub(r"(Could not find a matching opcode) for .*", r"\1", first)
    first = re.sub(r"(Invalid addressing mode combination) for .*", r"\1", first)
    first = _NUM.sub("N", first)
    return first[:100]


def error_line(msg: str) -> Optional[int]:
    m = re.match(r"on line (\d+): ", msg or "")
    return int(m.group(1)) if m else None


def image_of(res: Dict[str, Any]) -> Dict[int, int]:
    img: Dict[int, int] = {}
    for a, hx in res["segments"]:
        for k, b in enumerate(bytes.fromhex(hx)):
            img[a + k] = b
    return img


def expected_data(stmt: Dict[str, Any], syms: Dict[str, int]) -> Optional[bytes]:
    t = stmt["t"]
    if t in DATA_W:
        w = DATA_W[t]
        out = bytearray()
        for a in stmt["args"]:
            v = syms[a["sym"].upper()] if "sym" in a else int(a["num"])
            out += (v & ((1 << (8 * w)) - 1)).to_bytes(w, "little")
        return bytes(out)
    if t == "defm":
        return defm_bytes(stmt["s"])
    return None  # defs: only the count of reserved bytes is asserted


def with_generated_names(prog: Dict[str, Any], classes: Optional[List[str]] = None) -> Dict[str, Any]:
    """The same program with its vocabulary-spelled labels (of the given classes; default all) renamed to neutral
    ones (`nq3z`), definition and references."""
    import copy

    out = copy.deepcopy(prog)
    ren: Dict[str, str] = {}
    for k, ln in enumerate(out["lines"]):
        lab = ln.get("label")
        if lab and name_class(lab) != "generated" and (classes is None or name_class(lab) in classes):
            ren[lab.upper()] = f"nq{k}z"
            ln["label"] = ren[lab.upper()]
    for ln in out["lines"]:
        for op in _sym_ops(ln.get("stmt")):
            if op["sym"].upper() in ren:
                op["sym"] = op["text"] = ren[op["sym"].upper()]
    return out


def check_program(prog: Dict[str, Any], stats: Optional[Dict[str, int]] = None) -> List[Violation]:
    """All per-program verdicts.  A violation in a program whose labels carry vocabulary spellings is then NAMED
    after its root cause where that can be established: (a) the tree's parser reads other statements than the ones
    written (a word was split) -> one `parse` fingerprint; (b) the same program with neutral label names passes
    every verdict -> the fingerprint names the spelling class instead of the statement shape."""
    viols = _check_program(prog, stats)
    if not viols:
        return viols
    first = viols[0]
    classes = sorted({name_class(ln["label"]) for ln in prog["lines"] if ln.get("label")} - {"generated"})
    if classes or has_mnemonic_like_label(prog):
        why = misread(prog, render_program(prog, split_pairs=True)[0])
        if why:
            if stats is not None:
                stats["word-split"] = stats.get("word-split", 0) + 1
            return [Violation("parse", WHERE_MISREAD, SYMPTOM_MISREAD, prog,
                              f"{why}; first consequence: {first.subcheck} / {first.where} / {first.symptom}: "
                              f"{first.detail}"[:600])]
    cfg = config_of(prog)
    if cfg and first.symptom != "label takes the address set by the following directive":
        # The same program under plain `Assembler()` (stock map: another layout, judged by the same model).  Only if
        # it is still a program of the generated domain, ASSEMBLES there and passes every verdict, the violation is
        # named after the configuration class instead of the statement shape; otherwise (and for a label in front
        # of a location directive, whose known misplacement the stock bases can hide) the fingerprint stays.
        stock = dict(prog, asm=None)
        st_stats: Dict[str, int] = {}
        if in_domain(stock) and not _check_program(stock, st_stats) and st_stats.get("assembled"):
            if stats is not None:
                stats["configuration-specific"] = stats.get("configuration-specific", 0) + 1
            return [Violation(first.subcheck, "assembler configuration: " + config_class(cfg), first.symptom, prog,
                              f"{first.where}: {first.detail}; the same program passes every verdict on a plain "
                              f"Assembler()"[:600])]
    if classes and not _check_program(with_generated_names(prog)):
        single = [c for c in classes if not _check_program(with_generated_names(prog, [c]))]
        where = "label spelled like: " + (single[0] if single else "several reserved-looking words")
        return [Violation(first.subcheck, where, first.symptom, prog,
                          f"{first.where}: {first.detail}; the same program with generated label names passes"[:600])]
    return viols


def _check_program(prog: Dict[str, Any], stats: Optional[Dict[str, int]] = None) -> List[Violation]:
    """All per-program verdicts (layout model, standalone equivalence, label references, page rule)."""
    viols: List[Violation] = []
    stats = stats if stats is not None else {}

    def bump(k: str, n: int = 1) -> None:
        stats[k] = stats.get(k, 0) + n

    def V(sub: str, where: str, sym: str, detail: str) -> None:
        viols.append(Violation(sub, where, sym, prog, detail))

    src, line_of = render_program(prog, split_pairs=True)
    lay = layout(prog)
    cross, ambiguous, cross_lit = near_expectations(prog, lay)
    cfg = config_of(prog)
    bss_base = bases_of(prog)["bss"]
    res = fresh_assemble(src, cfg)
    lines = prog["lines"]

    if ambiguous:
        bump("page-ambiguous-program")
        return viols  # no expectation either way for a near jump that straddles a page boundary

    if cross or cross_lit:
        bump("expect-reject")
        if cross_lit:
            bump("expect-reject-literal")
        first = min(cross + cross_lit)
        if res["ok"]:
            V("page-rule", "near JP/CALL target" if first in cross else "near JP/CALL literal target",
              "near target on another 64 KiB page accepted",
              f"statement {first} ({stmt_text(lines[first]['stmt'])}) at {lay['recs'][first]['addr']:#x}"
              f" targets another page but the program assembled")
        elif "not on current page" not in res["error"]:
            bump("reject-for-other-reason")
        elif (any(lay["labels"][lines[i]["stmt"]["ops"][0]["sym"].upper()]["value"] > 0xFFFF for i in cross)
              and not any(lab["pre_location"] or lab["bss_rel"] for lab in lay["labels"].values())):
            # The rejected program with its near target labels replaced by their values (statement: an instruction
            # behaves like itself "with its symbols replaced by their values") must be rejected as well.
            bump("expect-reject-literal-form")
            res2 = fresh_assemble(render_program(near_symbols_as_literals(prog, lay), split_pairs=True)[0], cfg)
            if res2["ok"]:
                V("page-rule", "near JP/CALL literal target",
                  "near target on another 64 KiB page accepted once the label is replaced by its value",
                  f"statement {cross[0]} ({stmt_text(lines[cross[0]]['stmt'])}) at "
                  f"{lay['recs'][cross[0]]['addr']:#x}: label form rejected, literal form assembled")
        return viols

    if not res["ok"]:
        n = error_line(res["error"])
        where = stmt_class(lines[line_of[n]].get("stmt")) if (n in line_of) else "program"
        sym = "rejected: " + norm_error(res["error"])
        if "not on current page" in res["error"]:
            V("page-rule", "near JP/CALL target", "near target on the same 64 KiB page rejected", res["error"].splitlines()[0])
        else:
            st_ = lines[line_of[n]].get("stmt") if n in line_of else None
            kind = st_["t"] if st_ else "program"
            if (kind == "instr" and S.is_near(st_["shape"]) and "num" in st_["ops"][0]
                    and int(st_["ops"][0]["num"]) > 0xFFFF):
                kind = "near JP/CALL with a same-page literal target above 0xFFFF"
            V("accept", "instruction statement" if kind == "instr" else kind, sym,
              f"{where}: " + res["error"].splitlines()[0][:200])
        return viols

    bump("assembled")
    obs_syms: Dict[str, int] = res["symbols"]
    img = image_of(res)

    # ---- symbol table: same names, model addresses (first mismatch per section reported)
    names_model = set(lay["labels"])
    names_obs = set(obs_syms)
    if names_model != names_obs:
        V("symbols", "symbol table", "set of defined labels differs from the labels in the source",
          f"missing={sorted(names_model - names_obs)[:5]} extra={sorted(names_obs - names_model)[:5]}")
    bss_anchor: Optional[int] = None
    reported_sections = set()
    bad_labels = set()
    for name, lab in sorted(lay["labels"].items(), key=lambda kv: kv[1]["idx"]):
        if name not in obs_syms:
            continue
        exp = lab["value"]
        if lab["bss_rel"]:
            if bss_anchor is None:
                bss_anchor = obs_syms[name] - (exp - bss_base)
            exp = bss_anchor + (exp - bss_base)
        if obs_syms[name] != exp:
            bad_labels.add(name)
            if lab["section"] not in reported_sections:
                reported_sections.add(lab["section"])
                if lab["pre_location"]:
                    symp = "label takes the address set by the following directive"
                else:
                    symp = "label address differs from the sum of the preceding statement sizes"
                V("label-address", lab["prev"] if lab["pre_location"] else "label " + lab["prev"], symp,
                  f"label {name} (line {lab['idx']}, section {lab['section']}): symbol table {obs_syms[name]:#x}, "
                  f"model {exp:#x}")

    if viols:
        # Everything below (byte placement, references) is derived from the label addresses: with the symbol table
        # already off, further verdicts would only restate the same root cause under other names.
        return viols[:1]

    # symbol values used for references: what the assembler itself reports (model for the ones it lacks)
    syms: Dict[str, int] = {k: v["value"] for k, v in lay["labels"].items()}
    syms.update(obs_syms)

    # ---- image
    covered = set()
    bss_ranges: List[Tuple[int, int]] = []
    n_known_style = 0  # violations that do not describe a placement problem (standalone path rejects a literal)
    for rec in lay["recs"]:
        if len(viols) > n_known_style:
            return viols  # first placement/encoding violation in source order is the witness; the rest cascades
        ln = lines[rec["idx"]]
        stmt = ln.get("stmt")
        if not stmt or rec.get("loc"):
            continue
        a, n = rec["addr"], rec["size"]
        cls = stmt_class(stmt)
        if not rec["emits"]:
            if rec["section"] == "bss" and n:
                base = a if not rec.get("bss_rel") else (bss_anchor or bss_base) + (a - bss_base)
                bss_ranges.append((base, base + n))
            continue
        for k in range(n):
            covered.add(a + k)
        got = [img.get(a + k) for k in range(n)]
        exp: Optional[bytes]
        if stmt["t"] == "instr":
            info = shape_info(stmt["shape"])
            has_sym = any("sym" in o for o in stmt["ops"])
            near = S.is_near(stmt["shape"])
            text = stmt_text(stmt, 0, subst=syms)
            exp, err = standalone(text, a if near else None)
            bump("standalone")
            if exp is None and near and has_sym and syms[stmt["ops"][0]["sym"].upper()] > 0xFFFF:
                V("standalone-equiv", "near JP/CALL with a same-page target literal above 0xFFFF",
                  "instruction alone is rejected while the label form assembles",
                  f"'{text}' at {a:#x}: {(err or '').splitlines()[0][:120]}")
                n_known_style += 1
                # the maintainers' low-16 literal form is the remaining standalone spelling
                text = stmt_text(stmt, 0, subst=syms, near_low16=True)
                exp, err = standalone(text, a)
            if exp is None:
                V("standalone-equiv", cls, "instruction alone is rejected",
                  f"'{text}' at {a:#x}: {(err or '').splitlines()[0][:120]}")
            elif len(exp) != n:
                V("standalone-equiv", cls, "instruction alone has a different length than the probed shape",
                  f"'{text}': standalone {len(exp)} bytes, shape {n}")
                exp = None
            if None in got:
                V("bytes-at-address", cls, "bytes missing at the statement's address",
                  f"line {rec['idx']} '{stmt_text(stmt)}' at {a:#x}+{n}: image has {got}")
                continue
            if exp is not None and bytes(got) != exp:
                V("standalone-equiv" if has_sym else "bytes-at-address", cls,
                  "bytes differ from the instruction assembled alone",
                  f"line {rec['idx']} '{stmt_text(stmt)}' at {a:#x}: image {bytes(got).hex()}, alone ('{text}') {exp.hex()}")
            # label references: operand field carries the symbol value
            for op, slot in zip(stmt["ops"], info["slots"]):
                if "sym" not in op and slot["kind"] == "J" and slot["field"]:
                    # near target written as a number: low-16 form or full same-page address, the field holds the
                    # low 16 bits either way (tests ..._high_org and ..._high_org_low16_literal give the same bytes)
                    bump("near-literal")
                    val = 0
                    for j_, j in enumerate(slot["field"]):
                        val |= got[j] << (8 * j_)  # type: ignore[operator]
                    if val != (int(op["num"]) & slot["mask"]):
                        V("label-ref", "near JP/CALL literal target",
                          "operand field does not hold the low 16 bits of the literal target",
                          f"line {rec['idx']} '{stmt_text(stmt)}' at {a:#x}: field {val:#x}")
                    continue
                if "sym" not in op or not slot["field"]:
                    continue
                bump("label-ref")
                val = 0
                for j_, j in enumerate(slot["field"]):
                    val |= got[j] << (8 * j_)  # type: ignore[operator]
                want = syms[op["sym"].upper()] & slot["mask"]
                if val != want:
                    V("label-ref", cls, "operand field does not encode the symbol's value",
                      f"line {rec['idx']} '{stmt_text(stmt)}' at {a:#x}: field {val:#x}, symbol "
                      f"{op['sym']}={syms[op['sym'].upper()]:#x}")
        else:
            exp = expected_data(stmt, syms)
            if None in got:
                V("bytes-at-address", cls, "bytes missing at the statement's address",
                  f"line {rec['idx']} '{stmt_text(stmt)}' at {a:#x}+{n}: image has {got[:8]}")
                continue
            if exp is not None and bytes(got) != exp:
                V("bytes-at-address", cls, "data bytes differ from the directive's arguments",
                  f"line {rec['idx']} '{stmt_text(stmt)}' at {a:#x}: image {bytes(got).hex()}, expected {exp.hex()}")
    extra = sorted(set(img) - covered)
    if extra and len(viols) == n_known_style:
        in_bss = any(lo <= extra[0] < hi for lo, hi in bss_ranges)
        V("image-extent", "bss section" if in_bss else "program",
          "bytes emitted outside every emitting statement's range",
          f"{len(extra)} extra byte(s), first at {extra[0]:#x}")
    return viols


def check_pair_variant(prog: Dict[str, Any]) -> List[Violation]:
    """Two instructions written on one physical source line (the grammar ignores newlines) must assemble like the
    same program with the two on separate lines."""
    src_split, _ = render_program(prog, split_pairs=True)
    src_pair, _ = render_program(prog, split_pairs=False)
    if src_pair == src_split:
        return []
    r1 = fresh_assemble(src_split, config_of(prog))
    r2 = fresh_assemble(src_pair, config_of(prog))
    if r1 != r2 and r1["ok"]:
        if not r2["ok"] and r2["error"].startswith("Parsing failed"):
            return []  # the grammar of the tree under test does not admit the one-line form: outside the domain
        if has_mnemonic_like_label(prog) and (misread(prog, src_split) or misread(prog, src_pair)):
            if misread(prog, src_split):
                return []  # check_program names what follows from it; the comparison below would only restate it
            return [Violation("parse", WHERE_MISREAD, SYMPTOM_MISREAD, prog,
                              "one-line form: " + str(misread(prog, src_pair)))]
        if not r2["ok"]:
            symp = "one-line form rejected"
        elif r1["symbols"] != r2["symbols"]:
            symp = "labels differ from the one-statement-per-line form"
        else:
            symp = "bytes differ from the one-statement-per-line form"
        return [Violation("one-line-pair", "two instructions on one source line", symp, prog,
                          f"split: {r1.get('segments')} pair: {r2.get('segments', r2.get('error'))}")]
    return []
