"""C16 Rust machine client: batches `c16.ops` requests to the harness binary (rust/harness/src/c16.rs)."""

from __future__ import annotations

import io
import json
from typing import Any, Dict, List, Optional

from .core import HarnessError
from . import rsclient


def _call(req: Dict[str, Any]) -> Dict[str, Any]:
    """One request/response over the shared harness process (the shared client's pipes are buffered)."""
    return rsclient.shared().call(req)


def ops(batch: List[Dict[str, Any]]) -> List[Dict[str, Any]]:
    req = {"cmd": "c16.ops", "ops": batch}
    resp: Optional[Dict[str, Any]] = None
    last: Optional[Exception] = None
    for _attempt in range(3):
        # Every batch is self-contained (machines are created and dropped inside it), so a harness process
        # that disappeared (killed from outside on the shared box) is replaced and the batch re-sent; a crash
        # caused by the request itself repeats and is reported as a harness error (exit 2).
        try:
            resp = _call(req)
            break
        except HarnessError as exc:
            last = exc
            try:
                rsclient.shared().proc.kill()
            except Exception:
                pass
            rsclient._shared = None
    if resp is None:
        raise HarnessError(f"rust harness failed three times in a row: {last}")
    if not resp.get("ok"):
        raise HarnessError(f"c16.ops failed: {str(resp)[:300]}")
    res = resp["results"]
    for op, r in zip(batch, res):
        if not r.get("ok"):
            raise HarnessError(f"c16 op {op.get('op')} failed: {str(r)[:300]}")
    return res


def _new(mid: str, scen: Dict[str, Any]) -> Dict[str, Any]:
    return {"op": "new", "id": mid, "rom": scen["rom"], "cfg": scen["cfg"]}


def run_original(scen: Dict[str, Any], total: int) -> Dict[str, Any]:
    """Uninterrupted run A: initial observation + one observation per step."""
    r = ops([_new("A", scen), {"op": "obs", "id": "A"},
             {"op": "run", "id": "A", "from": 0, "to": total, "events": scen["events"]},
             {"op": "drop", "id": "A"}])
    return {"obs": [r[1]["obs"]] + r[2]["obs"]}


def run_with_saves(scen: Dict[str, Any], total: int, prefix: str, upto: int) -> Dict[str, Any]:
    r = ops([_new("A2", scen), {"op": "obs", "id": "A2"},
             {"op": "run", "id": "A2", "from": 0, "to": total, "events": scen["events"],
              "save_prefix": prefix, "save_upto": upto, "diag": True},
             {"op": "drop", "id": "A2"}])
    return {"obs": [r[1]["obs"]] + r[2]["obs"], "diags": r[2]["diags"], "save_errs": r[2]["save_errs"]}


def run_restored(scen: Dict[str, Any], points: List[int], prefix: str, cont: int) -> Dict[int, Dict[str, Any]]:
    batch: List[Dict[str, Any]] = []
    for k in points:
        batch += [_new("B", scen), {"op": "load", "id": "B", "path": f"{prefix}{k}.pcsnap"},
                  {"op": "obs", "id": "B"}, {"op": "diag", "id": "B"},
                  {"op": "run", "id": "B", "from": k, "to": k + cont, "events": scen["events"]},
                  {"op": "drop", "id": "B"}]
    r = ops(batch)
    out: Dict[int, Dict[str, Any]] = {}
    for i, k in enumerate(points):
        base = i * 6
        out[k] = {"load_err": r[base + 1].get("err"), "obs0": r[base + 2]["obs"], "diag": r[base + 3]["diag"],
                  "obs": r[base + 4]["obs"]}
    return out


def cross_load(scen: Dict[str, Any], path: str) -> Dict[str, Any]:
    """Load a bundle (written by the Python model) into a fresh Rust runtime of the same configuration."""
    r = ops([_new("X", scen), {"op": "load", "id": "X", "path": path}, {"op": "obs", "id": "X"},
             {"op": "diag", "id": "X"}, {"op": "lcd_full", "id": "X"}, {"op": "drop", "id": "X"}])
    return {"load_err": r[1].get("err"), "obs": r[2]["obs"], "diag": r[3]["diag"], "lcd_vram": r[4]["vram"]}


def save_at(scen: Dict[str, Any], k: int, path: str) -> Dict[str, Any]:
    """Run the Rust model k steps and save; returns observation/diag/LCD at the save point."""
    r = ops([_new("S", scen), {"op": "run", "id": "S", "from": 0, "to": k, "events": scen["events"]},
             {"op": "save", "id": "S", "path": path}, {"op": "obs", "id": "S"}, {"op": "diag", "id": "S"},
             {"op": "lcd_full", "id": "S"}, {"op": "drop", "id": "S"}])
    return {"save_err": r[2].get("err"), "obs": r[3]["obs"], "diag": r[4]["diag"], "lcd_vram": r[5]["vram"]}


def run_chain(scen: Dict[str, Any], pts: List[int], root: str, prefix: str, cont: int) -> Dict[str, Any]:
    """Snapshot generations on the Rust runtime; same protocol and result shape as c16_py.run_chain."""
    ev = scen["events"]
    batch: List[Dict[str, Any]] = [_new("G1", scen), {"op": "load", "id": "G1", "path": root},
                                   {"op": "obs", "id": "G1"}, {"op": "diag", "id": "G1"}]
    for g in range(2, len(pts) + 1):
        prev, cur = f"G{g - 1}", f"G{g}"
        k0, k1 = pts[g - 2], pts[g - 1]
        path = f"{prefix}g{g}.pcsnap"
        batch += [{"op": "run", "id": prev, "from": k0, "to": k1, "events": ev}, {"op": "obs", "id": prev},
                  {"op": "save", "id": prev, "path": path}, {"op": "diag", "id": prev},
                  {"op": "run", "id": prev, "from": k1, "to": k1 + cont, "events": ev}, {"op": "drop", "id": prev},
                  _new(cur, scen), {"op": "load", "id": cur, "path": path}, {"op": "obs", "id": cur},
                  {"op": "diag", "id": cur}]
    last = f"G{len(pts)}"
    batch += [{"op": "run", "id": last, "from": pts[-1], "to": pts[-1] + cont, "events": ev},
              {"op": "drop", "id": last}]
    r = ops(batch)
    out: Dict[str, Any] = {"root_load_err": r[1].get("err"), "root_obs": r[2]["obs"], "links": []}
    if out["root_load_err"] is not None:
        return out
    pending: Optional[Dict[str, Any]] = None
    for g in range(2, len(pts) + 1):
        b = 4 + (g - 2) * 10
        if pending is not None:
            pending["obs"] = (r[b]["obs"] + r[b + 4]["obs"])[:cont]
        link: Dict[str, Any] = {"gen": g, "k": pts[g - 1], "save_err": r[b + 2].get("err"), "load_err": None,
                                "R": [r[b + 1]["obs"]] + r[b + 4]["obs"], "ref_diag": r[b + 3]["diag"],
                                "obs0": None, "diag": None, "obs": []}
        out["links"].append(link)
        if link["save_err"] is not None:
            return out
        link["load_err"] = r[b + 7].get("err")
        link["obs0"] = r[b + 8]["obs"]
        link["diag"] = r[b + 9]["diag"]
        if link["load_err"] is not None:
            return out
        pending = link
    if pending is not None:
        pending["obs"] = r[4 + (len(pts) - 1) * 10]["obs"]
    return out


def pack(regs: Dict[str, int]) -> str:
    return ops([{"op": "pack", "regs": regs}])[0]["blob"]


def unpack(blob_hex: str) -> Dict[str, Any]:
    return ops([{"op": "unpack", "blob": blob_hex}])[0]
