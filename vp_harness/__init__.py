"""Verification harness package. Importing it installs the Binary Ninja mocks the repository's own
tests use (FORCE_BINJA_MOCK=1), so repository modules import the same way they do under pytest."""
import os

os.environ.setdefault("FORCE_BINJA_MOCK", "1")
try:  # the mock API must be importable before any sc62015 module
    from binja_test_mocks import binja_api  # noqa: F401
except Exception:  # pragma: no cover - reported by the first check that needs it
    pass
