"""Child process of vp_harness.covfuzz: one single-process libFuzzer campaign.  usage: -m vp_harness.covfuzz_child TASK.pkl"""

from __future__ import annotations

import hashlib
import importlib
import os
import pickle
import sys
import time
import traceback
from typing import Any, Dict, List


def _dump(task: Dict[str, Any], payload: Dict[str, Any]) -> None:
    tmp = task["result"] + ".tmp"
    with open(tmp, "wb") as fh:
        pickle.dump(payload, fh)
    os.replace(tmp, task["result"])


def _patch_bytestring_provider() -> None:
    """Hypothesis 6.168's BytestringProvider.draw_integer reads `bits(max - min)` raw bits and retries until the RAW
    value lies in [min, max] -- it never adds `min`, so integers(i, n) with i > n - i (every late step of the
    Fisher-Yates shuffle behind st.permutations, integers(4, 9) -> only 4..7) loops until the buffer is exhausted and
    the input is rejected.  Replace it by the intended offset form; the result is always inside [min, max], i.e.
    inside the strategy's own domain."""
    from hypothesis.internal.conjecture.providers import BytestringProvider

    def draw_integer(self: Any, min_value: Any = None, max_value: Any = None, *, weights: Any = None,
                     shrink_towards: int = 0) -> int:
        if min_value is None and max_value is None:
            min_value, max_value = -(2 ** 127), 2 ** 127 - 1
        elif min_value is None:
            min_value = max_value - 2 ** 64
        elif max_value is None:
            max_value = min_value + 2 ** 64
        if min_value == max_value:
            return min_value
        span = max_value - min_value
        bits = span.bit_length()
        value = self._draw_bits(bits)
        while value > span:
            value = self._draw_bits(bits)
        return min_value + value

    BytestringProvider.draw_integer = draw_integer  # type: ignore[method-assign]


def main(argv: List[str]) -> None:
    with open(argv[0], "rb") as fh:
        task = pickle.load(fh)
    t0 = time.time()
    instrumented: List[str] = []
    try:
        import atheris
        from atheris import import_hook

        want = tuple(task["instrument"])

        class Finder(import_hook.AtherisMetaPathFinder):  # atheris' include list works on top-level packages only
            def find_spec(self, fullname: str, path: Any, target: Any = None) -> Any:
                if not any(fullname == m or fullname.startswith(m + ".") for m in want):
                    return None
                spec = super().find_spec(fullname, path, target)
                if spec is not None:
                    instrumented.append(fullname)
                return spec

        orig = import_hook.AtherisMetaPathFinder
        import_hook.AtherisMetaPathFinder = Finder
        try:
            with atheris.instrument_imports(include=sorted({m.split(".")[0] for m in want}) or ["_none_"]):
                for m in list(want) + list(task["preimport"]):
                    importlib.import_module(m)
        finally:
            import_hook.AtherisMetaPathFinder = orig

        from .core import Report

        _patch_bytestring_provider()
        mod = importlib.import_module(task["module"])
        rep = Report()
        test = mod.covfuzz_test(task["target"], rep, task["extra"])
        fuzz_one = test.hypothesis.fuzz_one_input
    except BaseException:  # noqa: BLE001
        _dump(task, {"error": "set-up failed:\n" + traceback.format_exc()})
        os._exit(0)

    runs = int(task["runs"])
    budget = float(task["budget_s"])
    pad_len = int(task["pad_len"])
    pad = hashlib.shake_256(b"vp-covfuzz-pad:%d" % task["seed"]).digest(pad_len)
    counters = {"calls": 0, "executed": 0}
    first_seen: Dict[str, int] = {}  # fingerprint key -> call number at which the class first appeared
    t_start = time.time()

    def finish(stopped: str) -> None:
        sys.stderr.flush()
        _dump(task, {"report": rep, "calls": counters["calls"], "executed": counters["executed"],
                     "wall_s": time.time() - t_start, "setup_s": t_start - t0, "stopped": stopped, "first_seen": first_seen,
                     "instrumented": sorted(set(instrumented))})
        os._exit(0)

    def one_input(data: bytes) -> None:
        if budget and time.time() - t_start > budget:
            finish("budget")
        counters["calls"] += 1
        buf = data + pad[len(data):] if len(data) < pad_len else data
        try:
            if fuzz_one(buf) is not None:
                counters["executed"] += 1
        except BaseException:  # noqa: BLE001 - a crash of the harness / an escaping exception is not a verdict
            _dump(task, {"error": f"exception escaped the property body on call {counters['calls']} "
                                  f"(input {bytes(data).hex()[:200]}):\n" + traceback.format_exc()})
            os._exit(0)
        if len(rep.violation_counts) != len(first_seen):
            for k in rep.violation_counts:
                first_seen.setdefault(k, counters["calls"])
        if counters["calls"] >= runs:
            finish("runs")

    args = [sys.argv[0], f"-seed={task['seed'] or 1}", f"-runs={runs + 64}", f"-max_len={task['max_len']}",
            "-timeout=120", "-rss_limit_mb=4096", "-len_control=0", "-print_final_stats=0", task["corpus"]]
    atheris.Setup(args, one_input)
    atheris.Fuzz()
    finish("libfuzzer-returned")


if __name__ == "__main__":
    main(sys.argv[1:])
