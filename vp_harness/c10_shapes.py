"""C10 helper: candidate instruction statement shapes and start-up probing of the standalone path.

A *shape* is an instruction statement template with operand slots:

    %b  8-bit immediate / offset written as an `expression` (number or symbol)
    %w  16-bit immediate
    %l  20-bit immediate or external address
    %J  near JP/CALL/Jcc target (16-bit field, page rule)
    %n  internal-memory offset literal (never symbolic: the transformer calls int() on it)

Only shapes the *standalone* path of the tree under test accepts enter the palette (C10 is about layout, not
encoding; encoding defects are C09's subject).  Probing also measures, per symbolic slot, which bytes of the
encoding carry the operand (by differential probing with value 0 / all-ones), so that the label-reference verdict
does not need the repository's decoder.
"""

from __future__ import annotations

import re
from typing import Any, Dict, List, Optional, Tuple

SLOT_RE = re.compile(r"%[bwlJn]")
SLOT_MAX = {"b": 0xFF, "w": 0xFFFF, "l": 0xFFFFF, "J": 0xFFFF}
NEAR_MNEMONICS = ("CALL", "JP", "JPZ", "JPNZ", "JPC", "JPNC")

IM6 = ["(%n)", "(BP+%n)", "(PX+%n)", "(PY+%n)", "(BP+PX)", "(BP+PY)"]
IM3 = ["(%n)", "(BP+%n)", "(PY+%n)"]
IM_PAIRS_ALL = [(a, b) for a in IM6 for b in IM6]
IM_PAIRS_FEW = [("(%n)", "(%n)"), ("(BP+%n)", "(PY+%n)"), ("(PX+%n)", "(BP+PY)"), ("(BP+PX)", "(%n)"),
                ("(BP+%n)", "(%n)"), ("(PX+%n)", "(PY+%n)")]
R8 = ["A", "IL"]
R16 = ["BA", "I"]
R20 = ["X", "Y", "U", "S"]
REGS = R8 + R16 + R20
EREG = ["[X]", "[Y++]", "[--U]", "[S+%b]", "[X-%b]", "[U++]", "[--Y]", "[Y+%b]"]
EIMEM = ["[(%n)]", "[(%n)+%b]", "[(%n)-%b]", "[(BP+%n)+%b]", "[(BP+%n)]"]


def candidate_templates() -> List[str]:
    t: List[str] = []
    t += ["NOP", "RETI", "RET", "RETF", "SC", "RC", "TCL", "HALT", "OFF", "WAIT", "IR", "RESET"]
    t += ["SWAP A", "ROR A", "ROL A", "SHR A", "SHL A", "MV A, B", "MV B, A", "EX A, B"]
    for m in ("ROR", "ROL", "SHR", "SHL", "DSLL", "DSRL"):
        t += [f"{m} {im}" for im in IM3]
    for m in ("INC", "DEC"):
        t += [f"{m} {im}" for im in IM6]
        t += [f"{m} {r}" for r in REGS]
    t += ["MV A, IL", "MV IL, A", "MV BA, I", "MV I, BA", "MV X, Y", "MV U, S", "MV Y, X", "MV S, U",
          "EX A, IL", "EX BA, I", "EX X, Y", "EX U, S"]
    t += [f"MV {r}, %b" for r in R8] + [f"MV {r}, %w" for r in R16] + [f"MV {r}, %l" for r in R20]
    for r in REGS:
        ims = IM6 if r in ("A", "X") else IM3
        t += [f"MV {r}, {im}" for im in ims] + [f"MV {im}, {r}" for im in ims]
        t += [f"MV {r}, [%l]", f"MV [%l], {r}"]
    for r in ("A", "IL", "BA", "I", "X", "Y"):
        t += [f"MV {r}, {e}" for e in EREG] + [f"MV {e}, {r}" for e in EREG[:5]]
        t += [f"MV {r}, {e}" for e in EIMEM] + [f"MV {e}, {r}" for e in EIMEM[:3]]
    t += [f"MV {im}, %b" for im in IM6] + [f"MVW {im}, %w" for im in IM6] + [f"MVP {im}, %l" for im in IM6]
    t += ["MV [%l], %b"]
    for m in ("MV", "MVW", "MVP", "MVL"):
        t += [f"{m} (%n), {e}" for e in EREG[:5]] + [f"{m} {e}, (%n)" for e in EREG[:5]]
        t += [f"{m} (%n), {e}" for e in EIMEM[:3]] + [f"{m} {e}, (%n)" for e in EIMEM[:3]]
        t += [f"{m} {im}, [%l]" for im in IM3] + [f"{m} [%l], {im}" for im in IM3]
        pairs = IM_PAIRS_ALL if m == "MV" else IM_PAIRS_FEW
        t += [f"{m} {a}, {b}" for a, b in pairs]
    t += [f"MVLD {a}, {b}" for a, b in IM_PAIRS_FEW]
    t += ["PUSHS F", "POPS F", "PUSHU F", "POPU F", "PUSHU IMR", "POPU IMR"]
    t += [f"PUSHU {r}" for r in REGS] + [f"POPU {r}" for r in REGS]
    t += ["CALL %J", "JP %J", "JPZ %J", "JPNZ %J", "JPC %J", "JPNC %J", "CALLF %l", "JPF %l"]
    t += ["JP X", "JP Y", "JP S", "JP (%n)", "JP (BP+%n)"]
    for m in ("JR", "JRZ", "JRNZ", "JRC", "JRNC"):
        t += [f"{m} +%b", f"{m} -%b"]
    for m in ("EX", "EXW", "EXP", "EXL"):
        t += [f"{m} {a}, {b}" for a, b in IM_PAIRS_FEW]
    for m in ("AND", "OR", "XOR"):
        t += [f"{m} A, %b", f"{m} [%l], %b"]
        t += [f"{m} {im}, A" for im in IM3] + [f"{m} A, {im}" for im in IM3] + [f"{m} {im}, %b" for im in IM3]
        t += [f"{m} {a}, {b}" for a, b in IM_PAIRS_FEW]
    for m in ("ADD", "SUB"):
        t += [f"{m} A, %b", f"{m} A, IL", f"{m} BA, I", f"{m} X, Y", f"{m} IL, A", f"{m} I, BA", f"{m} X, A"]
        t += [f"{m} {im}, A" for im in IM3] + [f"{m} A, {im}" for im in IM3] + [f"{m} {im}, %b" for im in IM3]
    for m in ("ADC", "SBC"):
        t += [f"{m} A, %b"]
        t += [f"{m} {im}, A" for im in IM3] + [f"{m} A, {im}" for im in IM3] + [f"{m} {im}, %b" for im in IM3]
    for m in ("ADCL", "SBCL", "DADL", "DSBL"):
        t += [f"{m} {a}, {b}" for a, b in IM_PAIRS_FEW] + [f"{m} {im}, A" for im in IM3]
    t += [f"PMDF {im}, %b" for im in IM3] + [f"PMDF {im}, A" for im in IM3]
    t += ["CMP A, %b", "CMP [%l], %b", "TEST A, %b", "TEST [%l], %b"]
    t += [f"CMP {im}, %b" for im in IM3] + [f"CMP {im}, A" for im in IM3]
    t += [f"TEST {im}, %b" for im in IM3] + [f"TEST {im}, A" for im in IM3]
    for m in ("CMP", "CMPW", "CMPP"):
        t += [f"{m} {a}, {b}" for a, b in IM_PAIRS_FEW]
    for m in ("CMPW", "CMPP"):
        t += [f"{m} {im}, {r}" for im in IM3 for r in ("BA", "I", "X", "S")]
    seen = set()
    out = []
    for x in t:
        if x not in seen:
            seen.add(x)
            out.append(x)
    return out


def slots_of(template: str) -> List[str]:
    """Slot kinds in textual order, e.g. 'MV (%n), %b' -> ['n', 'b']."""
    return [m.group(0)[1] for m in SLOT_RE.finditer(template)]


def fmt_num(v: int, style: int = 0) -> str:
    """Number rendering variants the grammar's NUMBER admits (no leading-zero decimals: int(x, 0) rejects them)."""
    style %= 4
    if style == 0:
        return f"0x{v:X}"
    if style == 1:
        return f"0x{v:02x}"
    if style == 2:
        return str(v)
    return f"0X{v:04X}"


def render(template: str, operands: List[str]) -> str:
    """Substitute already-rendered operand texts for the slots, in order."""
    it = iter(operands)
    return SLOT_RE.sub(lambda m: next(it), template)


def mnemonic(template: str) -> str:
    return template.split()[0].upper()


def is_near(template: str) -> bool:
    return "%J" in template


N_PROBE = 0x10  # internal-memory offset used while probing (no named register lives below 0xD4)


def _asm(src: str) -> Tuple[Optional[List[Tuple[int, bytes]]], Optional[Dict[str, int]], Optional[str]]:
    from sc62015.pysc62015.sc_asm import Assembler, AssemblerError

    a = Assembler()
    try:
        bf = a.assemble(src)
    except AssemblerError as exc:
        return None, None, str(exc)
    segs = [(int(s.address), bytes(s.data)) for s in bf.segments]
    return segs, dict(a.symbols), None


def standalone_bytes(text: str, addr: Optional[int] = None) -> Tuple[Optional[bytes], Optional[str]]:
    """Assemble one instruction alone (optionally at an origin); return its bytes or the rejection message."""
    src = (f".ORG 0x{addr:X}\n" if addr is not None else "") + text + "\n"
    segs, _, err = _asm(src)
    if err is not None:
        return None, err
    if not segs or len(segs) != 1:
        return None, f"standalone produced {0 if not segs else len(segs)} segments"
    a0, data = segs[0]
    if a0 != (addr or 0):
        return None, f"standalone bytes at {a0:#x}, expected {(addr or 0):#x}"
    return data, None


def probe_shape(template: str) -> Dict[str, Any]:
    """Probe one template on the tree under test.

    Returns {'template', 'ok', 'size', 'slots': [{'kind', 'symbolic', 'field': [byte idx...], 'mask'}...], 'why'}.
    """
    kinds = slots_of(template)
    info: Dict[str, Any] = {"template": template, "ok": False, "size": 0, "slots": [], "why": ""}

    def ops(values: Dict[int, str]) -> List[str]:
        out = []
        for i, k in enumerate(kinds):
            if i in values:
                out.append(values[i])
            elif k == "n":
                out.append(fmt_num(N_PROBE + i, 1))
            else:
                out.append("0x00")
        return out

    b0, err = standalone_bytes(render(template, ops({})))
    if b0 is None:
        info["why"] = "rejected with zero operands: " + (err or "").splitlines()[0][:80]
        return info
    info["size"] = len(b0)
    for i, k in enumerate(kinds):
        slot: Dict[str, Any] = {"kind": k, "symbolic": False, "field": [], "mask": 0}
        if k == "n":
            info["slots"].append(slot)
            continue
        mx = SLOT_MAX[k]
        b1, err = standalone_bytes(render(template, ops({i: f"0x{mx:X}"})))
        if b1 is None or len(b1) != len(b0):
            info["why"] = f"slot {i} ({k}) rejects its maximum or changes length"
            return info
        field = [j for j in range(len(b0)) if b0[j] != b1[j]]
        mask = 0
        for n_, j in enumerate(field):
            mask |= b1[j] << (8 * n_)
        zero = all(b0[j] == 0 for j in field)
        contiguous = field == list(range(field[0], field[0] + len(field))) if field else False
        if not field or not zero or not contiguous or mask != mx:
            info["why"] = f"slot {i} ({k}) has no plain little-endian field"
            return info
        slot["field"] = field
        slot["mask"] = mask
        # symbolic acceptance: the same statement with a label (value 0) in the slot must give the zero encoding
        segs, syms, err = _asm("ZQ9: " + render(template, ops({i: "ZQ9"})) + "\n")
        if err is None and segs and len(segs) == 1 and segs[0][1] == b0 and syms == {"ZQ9": 0}:
            slot["symbolic"] = True
        info["slots"].append(slot)
    info["ok"] = True
    return info


def probe_many(templates: List[str]) -> List[Dict[str, Any]]:
    return [probe_shape(t) for t in templates]
