"""Shared oracle of C03 and C04: generate a case, execute it on the Python emulator with a logging memory,
run the README reference (c03_refsem) on the *rendered text*, and compare.

judge(case) returns a Judgement with two violation lists:
  loc  -- C03: denoted read/write locations vs. logged memory callbacks, register deltas
  val  -- C04: destination values, C/Z (only where the README flags column says affected; preserved otherwise),
          registers, F bits 2..7, power state  (only evaluated when the locations agree)
"""

from __future__ import annotations

from dataclasses import dataclass, field
from typing import Any, Dict, List, Optional, Sequence, Set, Tuple

from . import gen_enc as G
from . import gen_state as S
from . import pycore
from . import textparse as TP
from . import c03_textparse as CP
from . import c03_refsem as RS
from .core import mix32

IMEM = RS.IMEM
REGS = ("BA", "I", "X", "Y", "U", "S", "PC")


# --------------------------------------------------------------------------------------------------
# execution on the real code path
# --------------------------------------------------------------------------------------------------

class RawMemory(pycore.HashMemory):
    """HashMemory that additionally keeps the *raw* address of every data access that lies outside the documented
    address space [0, ADDRESS_SPACE_SIZE) = external 00000..FFFFF + internal 100000..1000FF (constants.py).
    pycore.canon() folds such addresses back (internal offsets mod 256, external bits 20-23 dropped), which is what
    the location/value comparison wants, but it also hides an access that only *aliases* the denoted byte under
    that folding: the maintainers' strict test memory (test_llama_parity_misc._make_memory) raises IndexError for
    it, and PCE500Memory maps every raw address >= 100000h to internal memory."""

    def __init__(self, *a: Any, **k: Any) -> None:
        super().__init__(*a, **k)
        self.outside: List[Tuple[str, int]] = []
        # data-access hook (None: plain memory): called with the canonical address of every *data* access (reads while
        # the read log is on, all writes) after it has been logged -- what else the host does inside a memory callback
        # is a generated dimension (execute(): case['coexec'])
        self.on_access: Any = None

    def read_byte(self, address: int) -> int:
        if self.log_reads and not pycore.is_canonical(address):
            self.outside.append(("read", int(address)))
        v = super().read_byte(address)
        if self.on_access is not None and self.log_reads:
            self.on_access(pycore.canon(address))
        return v

    def write_byte(self, address: int, value: int) -> None:
        if not pycore.is_canonical(address):
            self.outside.append(("write", int(address)))
        super().write_byte(address, value)
        if self.on_access is not None:
            self.on_access(pycore.canon(address))


class FillMemory(RawMemory):
    """RawMemory whose unlisted bytes read as one constant (case['fill']) instead of the hash fill: the memory model of
    the snapshot stepper (`image.get(addr, default_memory_value)`), see c04_ctx."""

    def __init__(self, fill: int, overrides: Optional[Dict[int, int]] = None, log_reads: bool = False) -> None:
        super().__init__(0, overrides, log_reads)
        self.fill = fill & 0xFF

    def peek(self, a: int) -> int:
        v = self.over.get(pycore.canon(a))
        return self.fill if v is None else v


def case_memory(case: Dict[str, Any], log_reads: bool = False) -> RawMemory:
    """The memory a case describes: listed bytes over the hash fill, or over the constant case['fill'] when present."""
    over = {pycore.canon(a): v & 0xFF for a, v in case.get("mem", [])}
    if case.get("fill") is not None:
        return FillMemory(int(case["fill"]), over, log_reads)
    return RawMemory(int(case.get("seed", 0)), over, log_reads)


# other public entry points that execute one instruction (case['entry'] -> function(case) -> observation dict with the
# keys of pycore.step; 'reads' / 'power' None = the entry point does not expose them).  Filled by c04_ctx.
ENTRY_EXEC: Dict[str, Any] = {}


def _make_emulator(case: Dict[str, Any]) -> Tuple[Any, RawMemory]:
    """pycore.make_emulator with the raw-address logging memory."""
    from sc62015.pysc62015.emulator import Emulator

    mem = case_memory(case, True)
    emu = Emulator(mem, reset_on_init=False)  # type: ignore[arg-type]
    pycore.set_regs(emu, case.get("regs", {}))
    emu.state.halted = case.get("power", "running") != "running"
    return emu, mem


def execute(case: Dict[str, Any]) -> Dict[str, Any]:
    """One Emulator.execute_instruction on a HashMemory; data reads are separated from instruction fetch by
    switching the read log off while Emulator.decode_instruction runs (the decoder looks one instruction ahead,
    so fetch is not simply [pc, pc+len)); execute_instruction re-reads the opcode byte once afterwards."""
    if case.get("entry"):
        return ENTRY_EXEC[case["entry"]](case)
    emu, mem = _make_emulator(case)
    prior_note = None
    orig = emu.decode_instruction

    def dec(address: int, read_fn: Any = None) -> Any:
        mem.log_reads = False
        try:
            return orig(address, read_fn)
        finally:
            mem.log_reads = True

    emu.decode_instruction = dec  # type: ignore[method-assign]
    if case.get("prior"):
        prior_note = run_prior(emu, mem, case)
    co = install_coexec(mem, case) if case.get("coexec") else None
    out = pycore.step(emu, mem, want_reads=True)
    mem.on_access = None
    if co is not None:
        out["coexec"] = co["state"]
        if co.get("raised"):
            out["coexec_raised"] = co["raised"]
    if prior_note:
        out["prior_raised"] = prior_note
    reads = list(out.get("reads", []))
    pc = pycore.canon(case["regs"]["PC"])
    if reads and reads[0] == pc:
        reads = reads[1:]
    out["reads"] = reads
    out["outside"] = [[k, a] for k, a in mem.outside[:16]]
    return out


def install_coexec(mem: RawMemory, case: Dict[str, Any]) -> Dict[str, Any]:
    """What the host does inside the memory callbacks of the instruction under test (case['coexec'], see
    c03_gen.draw_coexec): a SECOND Emulator -- its own Registers, its own hash memory, its own generated instruction and
    machine state (a co-simulated peripheral core behind a mailbox address) -- executes one instruction, synchronously,
    inside the k-th data access (read or write callback) of the instruction under test.  Accesses inside the code
    window (the opcode re-read that precedes the lift) do not count.  The two machines share nothing the property
    quantifies over, so the locations the first one touches are still exactly the denoted ones.  The nested instruction's
    exceptions are its own business.  state: 'not-reached' (the instruction made fewer data accesses) / 'fired'."""
    co = case["coexec"]
    st: Dict[str, Any] = {"state": "not-reached", "n": 0}
    emu2, _mem2 = _make_emulator(co["case"])
    pc = pycore.canon(case["regs"]["PC"])
    pc2 = int(co["case"]["regs"]["PC"]) & RS.M20
    at = int(co.get("at", 0))

    def on_access(addr: int) -> None:
        if st["state"] != "not-reached" or pc <= addr < pc + CODE_WINDOW:
            return
        if st["n"] < at:
            st["n"] += 1
            return
        st["state"] = "fired"
        try:
            emu2.execute_instruction(pc2)
        except BaseException as exc:  # noqa: BLE001 - the other machine's problem
            st["raised"] = type(exc).__name__

    mem.on_access = on_access
    return st


def run_prior(emu: Any, mem: RawMemory, case: Dict[str, Any]) -> Optional[str]:
    """The operation the emulator object performed before the instruction under test (case['prior'], see
    c03_gen.draw_prior): its bytes are planted at its address, it is fetched through execute_instruction or
    decode_instruction (exceptions are its own business), and then registers (TEMPs included), memory and the power
    state are put back to exactly the machine state of the case.  What survives is the Emulator object's own state --
    which is not part of the machine state the property quantifies over.  Returns the exception type name, if any."""
    from sc62015.pysc62015.emulator import RegisterName

    p = case["prior"]
    saved = dict(mem.over)
    addr = int(p["addr"]) & RS.M20
    if p["code"]:                      # '' = the bytes that are there already (the instruction under test itself)
        for i, b in enumerate(bytes.fromhex(p["code"]) + bytes(8)):
            mem.over[(addr + i) & RS.M20] = b
    emu.regs.set(RegisterName.I, 1 + (int(case["regs"].get("I", 0)) % 24))     # keep a counted prior short
    note: Optional[str] = None
    if p.get("sets_power"):
        emu.state.halted = False       # the core is running when it meets the HALT / OFF that stops it
    try:
        if p.get("via") == "decode":
            emu.decode_instruction(addr)
        else:
            emu.execute_instruction(addr)
    except Exception as exc:  # noqa: BLE001
        note = type(exc).__name__
    mem.over = saved
    mem.writes, mem.reads, mem.waits, mem.outside = [], [], [], []
    mem.noncanon = False
    mem.log_reads = True
    regs = {f"TEMP{i}": 0 for i in range(GN.NUM_TEMPS)}
    regs.update(case.get("regs", {}))
    pycore.set_regs(emu, regs)
    if p.get("sets_power"):
        # the power state of the case is the one this operation (HALT / OFF executed) left behind on the emulator: it is
        # NOT written from outside.  A prior that did not get that far is reported, not papered over.
        if emu.state.halted != (case.get("power", "running") != "running"):
            note = (note or "") + "+power-not-set"
    else:
        emu.state.halted = case.get("power", "running") != "running"
    return note


def address_space_verdicts(obs: Dict[str, Any]) -> List[Tuple[str, str, str]]:
    """Data accesses whose raw address is outside the documented address space (see RawMemory)."""
    out: List[Tuple[str, str, str]] = []
    seen: Set[str] = set()
    for kind, a in obs.get("outside", []):
        if 0x100100 <= a < 0x101000:
            how = "internal-memory offset runs past (FF) without wrapping to (00)"
        elif a > 0x1000FF:
            how = "address beyond the 1 MiB external space (bits 20-23 set)"
        else:
            how = "negative address"
        sym = f"{kind} outside the address space: {how}"
        if sym not in seen:
            seen.add(sym)
            out.append(("address-space", sym, "raw addresses " + ",".join(f"{x:#x}" for k, x in obs["outside"][:6])))
    return out


# --------------------------------------------------------------------------------------------------
# verdicts
# --------------------------------------------------------------------------------------------------

@dataclass
class Judgement:
    status: str = "ok"             # ok | skip | unmodelled | parse-error | undecodable
    reason: str = ""
    where: str = "?"          # mnemonic + operand classes (+ " [PRE]" when a prefix selects internal modes)
    where_base: str = "?"     # without the [PRE] marker (value verdicts do not depend on the prefix)
    mn: str = "?"
    ops: List[Tuple[Any, ...]] = field(default_factory=list)
    text: str = ""
    labels: List[str] = field(default_factory=list)
    loc: List[Tuple[str, str, str]] = field(default_factory=list)   # (subcheck, symptom, detail)
    val: List[Tuple[str, str, str]] = field(default_factory=list)
    nontrivial: List[str] = field(default_factory=list)
    has_mem_operand: bool = False
    modes: Tuple[str, ...] = ()
    length: int = 0
    obs: Optional[Dict[str, Any]] = None


def _space(a: int) -> str:
    return "imem" if a >= IMEM else "emem"


def _fmt_addrs(s: Sequence[int]) -> str:
    return "{" + ",".join(f"{a:#x}" for a in sorted(s)[:8]) + ("..." if len(s) > 8 else "") + "}"


def loc_compare(e: RS.Expect, init_regs: Dict[str, int], obs: Dict[str, Any], ops: List[Tuple[Any, ...]]
                ) -> List[Tuple[str, str, str, str]]:
    """Location verdicts as components (subcheck, space, symptom, detail); space in imem/emem/reg."""
    out: List[Tuple[str, str, str, str]] = []
    w_obs = {int(a) for a, _ in obs["writes"]}
    w_exp = set(e.writes)
    reads_seen = obs.get("reads") is not None       # None: the entry point does not expose its reads (c04_ctx)
    r_obs = set(int(a) for a in (obs["reads"] if reads_seen else []))
    r_exp = e.rd_data | e.rd_addr
    for space in ("imem", "emem"):
        missing = {a for a in w_exp - w_obs if _space(a) == space}
        extra = {a for a in w_obs - w_exp - e.opt_w if _space(a) == space}
        if missing or extra:
            kinds = []
            if missing:
                kinds.append(f"denoted {space} location not written")
            if extra:
                kinds.append(f"write to non-denoted {space} location")
            out.append(("writes", space, "; ".join(kinds),
                        f"writes expected {_fmt_addrs(w_exp)} observed {_fmt_addrs(w_obs)}"))
        if e.reads_checked and reads_seen:
            missing = {a for a in r_exp - r_obs if _space(a) == space}
            extra = {a for a in r_obs - r_exp if _space(a) == space}
            if missing or extra:
                kinds = []
                if missing:
                    kinds.append(f"denoted {space} location not read")
                if extra:
                    kinds.append(f"read of non-denoted {space} location")
                out.append(("reads", space, "; ".join(kinds),
                            f"reads expected {_fmt_addrs(r_exp)} observed {_fmt_addrs(r_obs)}"))
    # registers: changed set must be inside the documented write set; pointer side effects must have the
    # documented size/direction
    for r in ("BA", "I", "X", "Y", "U", "S"):
        before = init_regs[r] & (RS.M20 if r in RS.R3 else 0xFFFF)
        after = obs["regs"][r]
        if after != before and r not in e.reg_w:
            out.append(("regs", "reg", f"register {r if r in ('BA', 'I') else 'r3'} changed but not denoted",
                        f"{r} {before:#x} -> {after:#x}"))
    for o in ops:
        if o[0] == "ereg" and o[2] in ("postinc", "predec") and o[1] in e.reg_w and o[1] not in e.unchecked_regs:
            if obs["regs"][o[1]] != e.regs[o[1]]:
                before = init_regs[o[1]] & RS.M20
                de, do = e.regs[o[1]] - before, obs["regs"][o[1]] - before
                sym = f"pointer update of [{'r3++' if o[2] == 'postinc' else '--r3'}]: "
                if abs(de) <= 3 and abs(do) <= 3:
                    sym += f"documented {de:+d} observed {do:+d}"
                else:
                    sym += "documented by I bytes, observed differs" + (" (unchanged)" if do == 0 else "")
                out.append(("regs", "reg", sym, f"{o[1]} expected {e.regs[o[1]]:#x} observed {obs['regs'][o[1]]:#x}"))
    return out


def val_compare(e: RS.Expect, init_regs: Dict[str, int], obs: Dict[str, Any]) -> List[Tuple[str, str, str]]:
    out: List[Tuple[str, str, str]] = []
    final: Dict[int, int] = {}
    for a, v in obs["writes"]:
        final[int(a)] = int(v)
    bad = []
    for idx, (a, v) in enumerate(e.writes.items()):
        if a in final and (final[a] ^ v) & e.wmask.get(a, 0xFF):
            bad.append((idx, a, v, final[a]))
    if bad:
        idx, a, v, got = bad[0]
        pos = "first" if idx == 0 else "later"
        out.append(("dest:mem", f"stored value differs ({pos} byte written, {_space(a)})",
                    "; ".join(f"[{x:#x}] expected {ev:#04x} observed {g:#04x}" for _, x, ev, g in bad[:6])))
    for r in REGS:
        if r in e.unchecked_regs:
            continue
        exp = e.regs[r]
        got = obs["regs"][r]
        if r == "I" and "IH" in e.unchecked_regs:
            exp &= 0xFF
            got &= 0xFF
        if exp == got:
            continue
        before = init_regs[r] & (RS.M20 if r in RS.R3 + ("PC",) else 0xFFFF)
        if r == "PC":
            sym = "wrong next PC"
        elif r not in e.reg_w:
            sym = "changed but documented unaffected"
        elif obs["regs"][r] == before:
            sym = "documented update missing"
        else:
            sym = "wrong value"
            if r in RS.R3 and abs(exp - before) <= 3 and abs(got - before) <= 3:
                sym = f"wrong pointer step (documented {exp - before:+d} observed {got - before:+d})"
        out.append((f"reg:{r if r in ('BA', 'I', 'PC') else 'r3'}", sym, f"{r} expected {exp:#x} observed {got:#x} (before {before:#x})"))
    f0 = init_regs["F"] & 0xFF
    f1 = obs["regs"]["F"] & 0xFF
    if e.c is not None and (f1 & 1) != e.c:
        how = "documented result" if e.c != (f0 & 1) or True else ""
        out.append(("flag:C", f"expected C={e.c} observed C={f1 & 1}", f"F before {f0:#04x} after {f1:#04x}"))
    if e.z is not None and ((f1 >> 1) & 1) != e.z:
        out.append(("flag:Z", f"expected Z={e.z} observed Z={(f1 >> 1) & 1}", f"F before {f0:#04x} after {f1:#04x}"))
    if e.f_hi and (f0 ^ f1) & 0xFC:
        out.append(("flag:other", "F bits 2-7 not preserved", f"F before {f0:#04x} after {f1:#04x}"))
    if e.halted is not None and obs.get("power") is not None:
        halted = obs["power"] != "running"
        if halted != e.halted:
            out.append(("power", f"expected halted={e.halted} observed halted={halted}", ""))
    return out


def classify_mode_mismatch(mn: str, ops: List[Tuple[Any, ...]], regs: Dict[str, int], peek: Any, length: int,
                           obs: Dict[str, Any], variants: List[str], base: List[Tuple[str, str, str, str]]
                           ) -> Optional[Tuple[str, List[Tuple[str, str, str, str]]]]:
    """Explain the internal-memory part of a location mismatch as 'the IL used another internal addressing mode
    than the text shows': re-run the reference with the mode of one (then two) internal operands replaced and see
    whether the internal-memory components disappear.  Returns (symptom, remaining components) or None.
    For operands whose text carries no n ((BP+PX)/(BP+PY)) the n of a candidate mode is solved from the
    observed addresses."""
    idxs = [i for i, o in enumerate(ops) if o[0] in ("imem", "eind")]
    if not idxs or not any(c[1] == "imem" for c in base):
        return None

    def im(i: int) -> Tuple[Any, ...]:
        return ops[i] if ops[i][0] == "imem" else ops[i][1]

    obs_imem = sorted({int(a) - IMEM for a in (obs.get("reads") or []) if int(a) >= IMEM} |
                      {int(a) - IMEM for a, _ in obs["writes"] if int(a) >= IMEM})
    bp, px, py = peek(IMEM + 0xEC), peek(IMEM + 0xED), peek(IMEM + 0xEE)

    def with_n(i: int, n: int) -> List[Tuple[Any, ...]]:
        o2 = list(ops)
        if ops[i][0] == "imem":
            o2[i] = ("imem", ops[i][1], n)
        else:
            o2[i] = ("eind", ("imem", ops[i][1][1], n), ops[i][2])
        return o2

    def try_over(over: Dict[int, str], ops2: List[Tuple[Any, ...]]) -> Optional[List[Tuple[str, str, str, str]]]:
        for v in variants:
            try:
                e = RS.run_one(mn, ops2, regs, peek, length, over, v)
            except (RS.Skip, RS.Unmodelled):
                continue
            lv = loc_compare(e, regs, obs, ops2)
            if not any(c[1] == "imem" for c in lv):
                return lv
        return None

    order = ("BP_N", "PX_N", "PY_N", "BP_PX", "BP_PY", "N")
    singles: List[Tuple[int, str]] = [(i, m2) for i in idxs for m2 in order if m2 != im(i)[1]]
    combos: List[Dict[int, str]] = [{i: m2} for i, m2 in singles]
    if len(idxs) == 2:
        i, j = idxs
        combos += [{i: m1, j: m2} for m1 in order for m2 in order if m1 != im(i)[1] and m2 != im(j)[1]]
    for over in combos:
        # operands without n in the text: solve n from the observed internal addresses
        need = [i for i, m2 in over.items() if im(i)[2] is None and m2 in ("N", "BP_N", "PX_N", "PY_N")]
        trials: List[List[Tuple[Any, ...]]] = [list(ops)]
        if need:
            trials = []
            basev = {"N": 0, "BP_N": bp, "PX_N": px, "PY_N": py}
            cand_sets = []
            for i in need:
                cand_sets.append([(i, (a - basev[over[i]]) & 0xFF) for a in obs_imem][:12])
            if len(need) == 1:
                for i, n in cand_sets[0]:
                    trials.append(with_n(i, n))
            else:
                for i, n in cand_sets[0]:
                    for j2, n2 in cand_sets[1]:
                        o2 = with_n(i, n)
                        if o2[j2][0] == "imem":
                            o2[j2] = ("imem", o2[j2][1], n2)
                        trials.append(o2)
        for ops2 in trials:
            rest = try_over(over, ops2)
            if rest is not None:
                parts = [f"operand {i + 1}: text {RS.MODE_TEXT[im(i)[1]]}, IL used {RS.MODE_TEXT[m]}" for i, m in sorted(over.items())]
                return "; ".join(parts), rest
    return None


def undocumented_form(mn: str, ops: List[Tuple[Any, ...]], opcode: int) -> Optional[str]:
    """Domain restriction by the README opcode column (no semantics): ADD/SUB register pairs are documented as
    44/4C r2,r'1|r'2 ; 45/4D r3,r' ; 46/4E r1,r'1.  The decoder accepts any register in any of them; those
    combinations have no README row."""
    if mn in ("ADD", "SUB") and len(ops) == 2 and ops[0][0] == "reg" and ops[1][0] == "reg":
        wd = CP.REG_WIDTH.get(ops[0][1], 0)
        ws = CP.REG_WIDTH.get(ops[1][1], 0)
        low = opcode & 0x07
        if low == 4 and not (wd == 2 and ws <= 2):
            return "register pair not in the README row of this opcode"
        if low == 5 and wd != 3:
            return "register pair not in the README row of this opcode"
        if low == 6 and not (wd == 1 and ws == 1):
            return "register pair not in the README row of this opcode"
    return None


CODE_WINDOW = 24      # bytes at PC treated as code: instruction (<= 7) + following instruction (<= 7) + NOP padding


TAG_FOLLOW = " [depends on the following instruction]"
TAG_TEMPS = " [depends on the lifter's TEMP registers at entry]"
TAG_TOPBIT = " [I >= 8000h]"
TAG_PRIOR = " [depends on the previous operation on the same emulator]"
TAG_ENTRY = " [depends on the entry point]"
TAG_PAGE = " [encoding straddles a 64 KiB page boundary]"
TAG_PAGE_NEXT = " [a 64 KiB page boundary lies right behind the instruction]"
TAG_POWER = " [core halted at instruction entry: HALT/OFF executed earlier, not woken]"
TAG_COEXEC = " [another emulator executed an instruction inside a memory callback of this one]"
RELOCATE_BY = 0x400


def relocated(case: Dict[str, Any], by: int = RELOCATE_BY) -> Dict[str, Any]:
    """The same case with the code window moved `by` bytes down (away from a page boundary); data bytes that were planted
    in the new window are dropped."""
    pc = case["regs"]["PC"] & RS.M20
    new_pc = (pc - by) & RS.M20
    old_win = {(pc + i) & RS.M20: i for i in range(CODE_WINDOW)}
    new_win = {(new_pc + i) & RS.M20 for i in range(CODE_WINDOW)}
    mem: List[List[int]] = []
    moved: Dict[int, int] = {}
    for a, v in case["mem"]:
        c = pycore.canon(a)
        if c in old_win:
            moved[old_win[c]] = v
        elif c not in new_win:
            mem.append([a, v])
    for i in range(CODE_WINDOW):
        mem.append([(new_pc + i) & RS.M20, moved.get(i, 0)])
    c2 = dict(case)
    c2["regs"] = dict(case["regs"])
    c2["regs"]["PC"] = new_pc
    c2["mem"] = mem
    return c2


def has_temp_junk(case: Dict[str, Any]) -> bool:
    return any(k.startswith("TEMP") and v for k, v in case["regs"].items())


def without_temps(case: Dict[str, Any]) -> Dict[str, Any]:
    c2 = dict(case)
    c2["regs"] = {k: v for k, v in case["regs"].items() if not k.startswith("TEMP")}
    return c2


def judge(case: Dict[str, Any], want_obs: bool = False, _nofollow: bool = False) -> Judgement:
    """_nofollow: inner call -- return the plain verdicts without the input-dependence tags."""
    j = Judgement()
    # The instruction under test may be followed by another instruction (generated dimension: the decoder looks one
    # instruction ahead).  Its length is taken from the decode in context; the *text* that drives the reference is
    # rendered from the instruction's own bytes followed by NOPs: the documented meaning of an encoding does not
    # depend on the bytes after it (fusion(): "Bytes *after* instr1 ... must not affect instr1").
    ctx_code = S.code_of(case, CODE_WINDOW)
    r0 = TP.tokens(ctx_code)
    if r0 is None and case.get("ilen"):
        # generated dimension 'tail' (c04_ctx): the case states how long the encoding under test is, so a decoder that
        # rejects it only in this context (because of the bytes BEHIND it) does not take the case out of the domain
        r0 = TP.tokens(ctx_code[:int(case["ilen"])] + G.NOP_PAD)
        if r0 is not None and r0[1] != int(case["ilen"]):
            r0 = None
    if r0 is None:
        j.status = "undecodable"
        return j
    code = ctx_code[:r0[1]]
    r = TP.tokens(code + G.NOP_PAD)
    if r is None or r[1] != r0[1]:
        j.status = "undecodable"
        j.reason = "length in context differs from the length of the isolated encoding"
        return j
    toks, length = r
    j.length = length
    j.text = TP.text(toks)
    try:
        mn, ops = CP.parse(toks)
    except CP.ParseError as exc:
        j.status = "parse-error"
        j.reason = str(exc)
        j.mn = TP.mnemonic(toks)
        return j
    j.mn, j.ops = mn, ops
    j.where = j.where_base = CP.where_of(mn, ops)
    if code[0] in G.PRE_OPCODES and any(o[0] in ("imem", "eind") for o in ops):
        j.where += " [PRE]"      # a prefix byte that selects the internal addressing modes is part of the shape
    j.has_mem_operand = any(RS.is_mem(o) for o in ops)
    j.modes = tuple((o[1] if o[0] == "imem" else o[1][1]) for o in ops if o[0] in ("imem", "eind"))
    regs = case["regs"]
    opcode = code[1] if code[0] in G.PRE_OPCODES else code[0]
    dom = undocumented_form(mn, ops, opcode)
    if dom is not None:
        j.status = "unmodelled"
        j.reason = dom
        return j
    init = case_memory(case)
    peek = init.peek
    try:
        exps = RS.expectations(mn, ops, regs, peek, length)
    except RS.Unmodelled as exc:
        j.status = "unmodelled"
        j.reason = str(exc)
        return j
    except RS.Skip as exc:
        j.status = "skip"
        j.reason = str(exc)
        return j
    prim = exps[0]
    # operands must not overlap the instruction bytes (+ decoder look-ahead): fetch and data would be conflated
    pc = regs["PC"] & RS.M20
    touched = set(prim.writes) | prim.rd_data | prim.rd_addr
    if any(pc <= a < pc + CODE_WINDOW for a in touched):
        j.status = "skip"
        j.reason = "operand overlaps the code bytes"
        return j
    obs = execute(case)
    if want_obs:
        j.obs = obs
    j.labels += prim.labels
    if case.get("coexec"):
        j.labels.append("coexec:" + str(obs.get("coexec", "not-reached")))
        if obs.get("coexec") == "fired":
            j.labels.append("coexec-nested:" + ("raised" if obs.get("coexec_raised") else "completed"))
    if case.get("prior", {}).get("sets_power") and "power-not-set" in str(obs.get("prior_raised", "")):
        j.labels.append("power:prior-did-not-halt")
    j.nontrivial = list(prim.nontrivial)
    if "err" in obs:
        j.val.append(("exec-error", "python exception: " + obs["err"].split(":")[0], obs["err"]))
        j.loc.append(("exec-error", "python exception: " + obs["err"].split(":")[0], obs["err"]))
        if not _nofollow:
            # round-5 input tags (only these two: the older dimensions keep their untagged exec-error classes)
            tag = ""
            for present, c2, t in (
                    (case.get("power", "running") != "running",
                     dict({k: v for k, v in case.items() if not (k == "prior" and v.get("sets_power"))}, power="running"),
                     TAG_POWER),
                    (bool(case.get("coexec")), {k: v for k, v in case.items() if k != "coexec"}, TAG_COEXEC)):
                if present:
                    j2 = judge(c2, _nofollow=True)
                    if j2.status == "ok" and ("exec-error", j.loc[-1][1]) not in {(a, b) for a, b, _ in j2.loc}:
                        tag += t
            if tag:
                j.loc = [(a, b + tag, c) for a, b, c in j.loc]
                j.val = [(a, b + tag, c) for a, b, c in j.val]
        return j
    if obs.get("len") != length:
        # the emulator executed an instruction of another length than the one the bytes at PC disassemble to: values
        # are moot; the locations it touched are still compared with the ones the text denotes (C03's question)
        j.val.append(("length", "executed length differs from rendered length", f"{obs.get('len')} vs {length}"))
        j.loc += [(sub, sym, det) for sub, _, sym, det in loc_compare(prim, regs, obs, ops)]
    else:
        _judge_outcome(j, case, exps, prim, obs, mn, ops, regs, peek, length)
    j.loc += address_space_verdicts(obs)
    if mn in RS.COUNTED and (int(regs["I"]) & 0xFFFF) >= 0x8000:
        # semantic input class: the 16-bit counter has its top bit set (iteration count above 32767)
        j.loc = [(sub, sym + TAG_TOPBIT, det) for sub, sym, det in j.loc]
        j.val = [(sub, sym + TAG_TOPBIT, det) for sub, sym, det in j.val]
    if (j.loc or j.val) and not _nofollow:
        # Which generated input dimensions does the verdict depend on?  (semantic input tags, as '[b+Cin wraps]'):
        # the instruction that follows in memory, the junk in the lifter's TEMP registers at instruction entry.
        loc_tags = ["" for _ in j.loc]
        val_tags = ["" for _ in j.val]

        def compare(c2: Dict[str, Any], tag: str) -> None:
            j2 = judge(c2, _nofollow=True)
            if j2.status != "ok":
                return
            keep_l = {(sub, sym) for sub, sym, _ in j2.loc}
            keep_v = {(sub, sym) for sub, sym, _ in j2.val}
            for i, (sub, sym, _) in enumerate(j.loc):
                if (sub, sym) not in keep_l:
                    loc_tags[i] += tag
            for i, (sub, sym, _) in enumerate(j.val):
                if (sub, sym) not in keep_v:
                    val_tags[i] += tag

        if any(ctx_code[length:]):
            c2 = dict(case)
            span = {(pc + i) & RS.M20 for i in range(length, CODE_WINDOW)}
            c2["mem"] = [m_ for m_ in case["mem"] if pycore.canon(m_[0]) not in span] + [[a, 0] for a in sorted(span)]
            compare(c2, TAG_FOLLOW)
        if has_temp_junk(case):
            compare(without_temps(case), TAG_TEMPS)
        if case.get("prior"):
            compare({k: v for k, v in case.items() if k != "prior"}, TAG_PRIOR)
        if case.get("power", "running") != "running":
            c2 = {k: v for k, v in case.items() if not (k == "prior" and v.get("sets_power"))}
            c2["power"] = "running"
            compare(c2, TAG_POWER)
        if case.get("coexec"):
            compare({k: v for k, v in case.items() if k != "coexec"}, TAG_COEXEC)
        if case.get("entry"):
            # same instruction, registers and memory through Emulator.execute_instruction
            compare({k: v for k, v in case.items() if k != "entry"}, TAG_ENTRY)
        if (pc & 0xFFFF) + CODE_WINDOW > 0x10000 and pc >= RELOCATE_BY:
            compare(relocated(case), TAG_PAGE if (pc & 0xFFFF) + length > 0x10000 else TAG_PAGE_NEXT)
        j.loc = [(sub, sym + t, det) for (sub, sym, det), t in zip(j.loc, loc_tags)]
        j.val = [(sub, sym + t, det) for (sub, sym, det), t in zip(j.val, val_tags)]
    return j


def _judge_outcome(j: Judgement, case: Dict[str, Any], exps: List[RS.Expect], prim: RS.Expect, obs: Dict[str, Any],
                   mn: str, ops: List[Tuple[Any, ...]], regs: Dict[str, int], peek: Any, length: int) -> None:
    best_loc: Optional[List[Tuple[str, str, str, str]]] = None
    ok_exps = []
    for e in exps:
        lv = loc_compare(e, regs, obs, ops)
        if not lv:
            ok_exps.append(e)
        if best_loc is None or len(lv) < len(best_loc):
            best_loc = lv
    if not ok_exps:
        assert best_loc is not None
        comps = best_loc
        cls = classify_mode_mismatch(mn, ops, regs, peek, length, obs, [e.variant for e in exps], best_loc)
        if cls is not None:
            sym, rest = cls
            subs = "+".join(sorted({c[0] for c in best_loc if c[1] == "imem"}))
            j.loc.append((subs, sym, "; ".join(c[3] for c in best_loc if c[1] == "imem")))
            comps = rest
        for sub, space, sym, det in comps:
            j.loc.append((sub, sym, det))
        return
    best_val: Optional[List[Tuple[str, str, str]]] = None
    for e in ok_exps:
        vv = val_compare(e, regs, obs)
        if best_val is None or len(vv) < len(best_val):
            best_val = vv
    j.val = best_val or []
    if j.val and prim.tags:
        tag = " [" + ", ".join(prim.tags) + "]"
        j.val = [(sub, sym + tag, det) for sub, sym, det in j.val]


# --------------------------------------------------------------------------------------------------
# exploration shared by props/c03.py and props/c04.py
# --------------------------------------------------------------------------------------------------

from .core import Report, Violation, jhash  # noqa: E402
from . import c03_gen as GN  # noqa: E402


def annotate(case: Dict[str, Any], j: Judgement) -> Dict[str, Any]:
    c = dict(case)
    n = j.length or 7
    c["code"] = S.code_of(case, n).hex()
    follow = S.code_of(case, CODE_WINDOW)[n:n + 8]
    if any(follow):
        c["followed_by"] = follow.hex()
    c["text"] = j.text
    return c


def violations_for(prop: str, case: Dict[str, Any], j: Judgement) -> List[Violation]:
    out: List[Violation] = []
    if prop == "C03":
        for sub, sym, det in j.loc:
            out.append(Violation(sub, j.where, sym, annotate(case, j), f"{j.text}: {det}"))
    else:
        if j.loc:
            # the IL touched other locations than the text denotes: "changes nothing else" / operand values are
            # moot; reported once as an operand-location failure (same root cause as the C03 verdict)
            for sub, sym, det in j.loc:
                if sub == "exec-error":
                    continue
                out.append(Violation("operand-location:" + sub, j.where, sym, annotate(case, j), f"{j.text}: {det}"))
        for sub, sym, det in j.val:
            out.append(Violation(sub, j.where_base, sym, annotate(case, j), f"{j.text}: {det}"))
    return out


def flip_checks(case: Dict[str, Any], j: Judgement, st: S.Stream) -> List[Tuple[str, str, str]]:
    """Dependency test that does not rely on the read log (DESIGN C03 (4)): changing a byte the text does not
    denote must not change anything the instruction does; (changing a denoted byte is simply another case and
    is judged by the caller)."""
    regs = case["regs"]
    init = pycore.HashMemory(int(case.get("seed", 0)), {pycore.canon(a): v & 0xFF for a, v in case.get("mem", [])})
    try:
        exps = RS.expectations(j.mn, j.ops, regs, init.peek, j.length)
    except (RS.Skip, RS.Unmodelled):
        return []
    e = exps[0]
    denoted = set(e.writes) | e.rd_data | e.rd_addr
    for x in exps[1:]:
        denoted |= set(x.writes) | x.rd_data | x.rd_addr
    if not e.reads_checked:
        return []
    pc = regs["PC"] & RS.M20
    cands: List[int] = []
    for a in sorted(e.rd_data | e.rd_addr | set(e.writes)):
        for d in (-1, 1, 2, -2):
            b = a + d
            if a >= IMEM and not IMEM <= b <= IMEM + 0xFF:
                continue
            if a < IMEM and not 0 <= b <= RS.M20:
                continue
            if b not in denoted and not pc - 2 <= b < pc + 24:
                cands.append(b)
    for b in (RS.A_BP, RS.A_PX, RS.A_PY):
        if b not in denoted:
            cands.append(b)
    if not cands:
        return []
    target = cands[st.below(len(cands))]
    base = execute(case)
    c2 = dict(case)
    c2["mem"] = [m for m in case["mem"] if pycore.canon(m[0]) != target] + [[target, init.peek(target) ^ (1 << st.below(8))]]
    other = execute(c2)
    if "err" in base or "err" in other:
        return []
    same = base["regs"] == other["regs"] and base["writes"] == other["writes"] and base["power"] == other["power"]
    if not same:
        return [("dependency", f"result depends on a non-denoted {_space(target)} byte",
                 f"flipping [{target:#x}] changed the outcome")]
    return []


BIGCOUNT_ATTEMPTS = 8
PAIR_FOCI = ("pagecross", "halted", "coexec")     # grids that cycle over all (prefix, opcode) pairs
WAIT_OPCODE = 0xEF


def explore_shard(task: Tuple[Any, ...]) -> Report:
    """task = (prop, shard, nshards, seed, count, imax, salt[, focus]).  focus None: cycle over all (prefix, opcode)
    pairs; focus (count = repetitions per (prefix, head)) 'blockwrap' / 'ptr-edge': boundary grids over the MVL/MVLD encodings resp. the encodings with a
    [r3++] / [--r3] operand (see c03_gen.focus_heads); focus 'bigcount' (count = cases of this shard): the MVL/MVLD/WAIT
    (prefix, head) pairs in a seed-rotated order with large iteration counts (c03_gen.big_count); focus 'overptr'
    (count = repetitions per (prefix, head)): the MVL/MVLD heads with an internal run passing over the BP/PX/PY cells;
    focus 'pagecross' (count = split positions per (prefix, opcode)): every (prefix, opcode) pair placed so that byte
    offset k of its encoding is the first byte of a new 64 KiB page, k cycling through 1..len-1 from a seeded start.
    In every mode two more dimensions are generated per case: where the instruction sits (1/16 at a page boundary) and
    what the emulator object did before (c03_gen.draw_prior; 1/2 nothing)."""
    prop, shard, nshards, seed, count, imax, salt = task[:7]
    focus = task[7] if len(task) > 7 else None
    seed = mix32(seed, salt, 0x5EED)     # decorrelate neighbouring VERIF_SEED values
    if focus:
        seed = mix32(seed, 0xF0C5, len(focus))
    rep = Report()
    ops_list = GN.opcodes()
    heads = GN.focus_heads("blockwrap" if focus in ("bigcount", "overptr") else focus) if focus and focus not in PAIR_FOCI else []
    if focus == "bigcount":
        heads = heads + [(WAIT_OPCODE, 0x00)]      # the third user of the counted loop; a prefixed WAIT runs its IL loop
    npairs = len(ops_list) * len(G.PRES)
    if focus in PAIR_FOCI:
        total = npairs * count                             # `count` = split positions / cases per (prefix, opcode)
        count = (total - shard + nshards - 1) // nshards if total > shard else 0
    elif focus and focus != "bigcount":
        total = len(heads) * len(G.PRES) * count          # for a focus grid `count` = repetitions per (prefix, head)
        count = (total - shard + nshards - 1) // nshards if total > shard else 0
    for k in range(count):
        idx = shard + k * nshards
        st = S.Stream(seed, salt, idx)
        b2: Optional[int] = None
        if focus == "bigcount":
            # walk the (prefix, head) pairs with a stride coprime to their number, from a seeded start
            nfp = len(heads) * len(G.PRES)
            stride = 37
            while _gcd(stride, nfp) != 1:
                stride += 2
            pair = (mix32(seed, 0xB16) + idx * stride) % nfp
            pre = G.PRES[pair % len(G.PRES)]
            op, b2 = heads[pair // len(G.PRES)]
        elif focus in PAIR_FOCI:
            pair = idx % npairs
            pre = G.PRES[pair // len(ops_list)]
            op = ops_list[pair % len(ops_list)]
        elif focus:
            pre = G.PRES[idx % len(G.PRES)]
            op, b2 = heads[(idx // len(G.PRES)) % len(heads)]
        else:
            pair = idx % npairs
            pre = G.PRES[pair // len(ops_list)]
            op = ops_list[pair % len(ops_list)]
        got = None
        retries: List[str] = []
        attempts = BIGCOUNT_ATTEMPTS if focus == "bigcount" else 1
        for attempt in range(attempts):
            if attempt:
                # the reference is silent for this placement (block leaves the 1 MiB space / overlaps the code bytes /
                # rewrites BP,PX,PY while addressing through them): re-draw the case, prefix included
                st = S.Stream(seed, salt, idx, attempt)
                pre = st.choice(G.PRES)
            got = _draw_and_judge(st, pre, op, b2, focus, imax, ops_list, split=(idx // npairs + mix32(seed, 0x9A6E, idx % npairs)))
            if got is None or got[3].status != "skip" or attempt == attempts - 1:
                break
            retries.append("bigcount:redrawn:" + got[3].reason)
        if got is None:
            rep.filtered += 1
            continue
        case, labels, _mn, j = got
        labels += retries
        record(prop, rep, case, j, labels, op, pre, st)
    return rep


def _gcd(a: int, b: int) -> int:
    while b:
        a, b = b, a % b
    return a


def _draw_and_judge(st: S.Stream, pre: Optional[int], op: int, b2: Optional[int], focus: Optional[str], imax: int,
                    ops_list: List[int], split: int = 0) -> Optional[Tuple[Dict[str, Any], List[str], str, Judgement]]:
    if focus and focus not in PAIR_FOCI:
        code = GN.draw_encoding(st, pre, op, b2=b2, hi_bias=(focus in ("blockwrap", "overptr")), near_ptr=(focus == "overptr"))
    else:
        code = GN.draw_encoding(st, pre, op)
    if code is None:
        return None
    # what follows the instruction in memory is a generated dimension (the decoder looks one instruction ahead):
    # NOPs 1/2, another encoding of the same (prefix, opcode) with fresh operand bytes 1/4, any valid encoding 1/4
    fk = st.below(4)
    follow: Optional[bytes] = b""
    flabel = "follow:nop"
    if fk == 2:
        follow = GN.draw_encoding(st, pre, op)
        flabel = "follow:same-opcode"
    elif fk == 3:
        follow = GN.draw_encoding(st, st.choice(G.PRES), st.choice(ops_list))
        flabel = "follow:other-instruction"
    if not follow:
        follow, flabel = b"", "follow:nop"
    big = imax > 64 and st.chance(1, 6)
    # where the instruction sits is a generated dimension: in the 'pagecross' grid every byte offset 1..len-1 of the
    # encoding in turn is the first byte of a new 64 KiB page (len 1: the instruction is the last byte of a page);
    # elsewhere 1/16 of the cases sit at a page boundary (offset 0..len)
    place: Optional[Tuple[int, str]] = None
    if focus == "pagecross":
        place = GN.page_cross_pc(st, len(code), 1 + split % max(1, len(code) - 1))
    elif st.chance(1, 16):
        place = GN.page_cross_pc(st, len(code))
    mc = GN.make_case(st, code, imax if big else min(imax, 24), pc=(place[0] if place else None), follow=follow,
                      focus=(None if focus in ("halted", "coexec") else focus))
    if mc is None:
        return None
    case, labels, mn, ops = mc
    labels.append(flabel)
    labels.append(place[1] if place else "page:inside")
    if focus:
        labels.append("focus:" + focus)
    # what the emulator object did before is a generated dimension (1/2: nothing, a fresh emulator)
    prior, plabels = GN.draw_prior(st, ops_list, case["regs"]["PC"])
    if prior is not None:
        case["prior"] = prior
    if focus == "halted":
        # the power state at instruction entry is a generated dimension of the machine state: the core is stopped
        # because a HALT / OFF was executed earlier on this emulator (and nothing woke it), or because the state was
        # put there from outside (a snapshot taken while halted)
        pw, pprior, pl = GN.draw_power(st, case["regs"]["PC"])
        case["power"] = pw
        if pprior is not None:
            case["prior"] = pprior
            plabels = [f"prior:{pprior['kind']}/{pprior['via']}", "prior-at:" + pl[-1].split(":", 1)[1]]
            pl = pl[:-1]
        labels += pl
    elif focus == "coexec":
        # what the host does inside the memory callbacks is a generated dimension: a second emulator is stepped there
        co, cl = GN.draw_coexec(st, ops_list, case["regs"]["PC"])
        if co is not None:
            case["coexec"] = co
        labels += cl
    labels += plabels
    return case, labels, mn, judge(case)


def record(prop: str, rep: Report, case: Dict[str, Any], j: Judgement, labels: List[str], op: int, pre: Optional[int],
           st: Optional[S.Stream]) -> None:
    lab = list(labels) + list(j.labels)
    lab.append("pre:yes" if pre is not None else "pre:no")
    if j.status == "unmodelled":
        lab.append("unmodelled:" + j.mn)
    elif j.status == "skip":
        lab.append("skip:" + j.reason)
    elif j.status != "ok":
        lab.append("status:" + j.status)
    else:
        lab.append("checked:" + j.mn)
    nt = None
    if j.status == "ok":
        for v in violations_for(prop, case, j):
            rep.violate(v)
        if prop == "C03":
            if j.has_mem_operand:
                nt = f"{pre}:{op:02X}:{'/'.join(j.modes)}:{jhash([case['regs'], case['seed']], 8)}"
                for m in j.modes:
                    lab.append("mode:" + m)
            if st is not None and not j.loc and j.has_mem_operand and st.chance(1, 8):
                fl = flip_checks(case, j, st)
                lab.append("dependency-test")
                for sub, sym, det in fl:
                    rep.violate(Violation(sub, j.where, sym, annotate(case, j), f"{j.text}: {det}"))
        else:
            if j.nontrivial:
                kinds = "+".join(sorted(set(j.nontrivial)))
                nt = f"{pre}:{op:02X}:{kinds}:{jhash([case['regs'], case['seed'], case['mem'][:12]], 8)}"
                for kd in set(j.nontrivial):
                    lab.append("nt:" + kd)
    sample = None
    if rep.evaluations % 1777 == 5:
        sample = {"code": S.code_of(case, 7).hex(), "text": j.text, "where": j.where, "status": j.status,
                  "regs": case["regs"], "labels": lab[:8], "violations": len(j.loc) + len(j.val)}
    rep.case(nt, lab, sample)


def shrink_case(prop: str, v: Violation) -> Violation:
    """Field-wise delta debugging: simplify registers / drop memory overrides while the fingerprint persists."""
    import time as _t
    t0 = _t.time()
    case = {k: v.case[k] for k in ("regs", "power", "seed", "mem", "steps", "prior", "coexec", "ilen", "fill", "entry") if k in v.case}
    key = v.key()

    def same(c: Dict[str, Any]) -> Optional[Violation]:
        try:
            jj = judge(c)
        except Exception:
            return None
        if jj.status != "ok":
            return None
        for x in violations_for(prop, c, jj):
            if x.key() == key:
                return x
        return None

    best = same(case)
    if best is None:
        return v
    pc = case["regs"]["PC"]
    if case.get("prior"):
        c2 = {k: x for k, x in case.items() if k != "prior"}
        b = same(c2)
        if b is not None:
            case, best = c2, b
    if case.get("coexec"):
        c2 = {k: x for k, x in case.items() if k != "coexec"}
        b = same(c2)
        if b is not None:
            case, best = c2, b
    if has_temp_junk(case):
        # lifter scratch registers: all clear, else one at a time
        b = same(without_temps(case))
        if b is not None:
            case, best = without_temps(case), b
        else:
            for t in sorted(k for k in case["regs"] if k.startswith("TEMP")):
                if _t.time() - t0 > 50:
                    return best
                c2 = dict(case)
                c2["regs"] = {k: v for k, v in case["regs"].items() if k != t}
                b = same(c2)
                if b is not None:
                    case, best = c2, b
    for r in ("BA", "X", "Y", "U", "S", "I", "F"):
        for cand in ((0, 1, 2) if r == "I" else (0, 0x10000) if r in RS.R3 else (0,)):
            if _t.time() - t0 > 50:
                return best
            if case["regs"][r] == cand:
                break
            c2 = dict(case)
            c2["regs"] = dict(case["regs"])
            c2["regs"][r] = cand
            b = same(c2)
            if b is not None:
                case, best = c2, b
                break
    keep = []
    code_addrs = {(pc + i) & 0xFFFFF for i in range(CODE_WINDOW)}
    for m in list(case["mem"]):
        if m[0] in code_addrs or _t.time() - t0 > 50:
            continue
        c2 = dict(case)
        c2["mem"] = [x for x in case["mem"] if x is not m]
        b = same(c2)
        if b is not None:
            case, best = c2, b
    _ = keep
    return best
