"""Known-findings matching.

known_findings.json (committed; never written at run time) is a JSON list of
entries

    {"id": "C04-adc-carry", "property": "C04", "status": "open" | "fixed: <commit> ...",
     "match": {"subcheck": ..., "where": ..., "symptom": ...},   # exact strings, or "re:<anchored regex>"
     "summary": "...", "example": <case json or null>}

Only entries whose status starts with "open" suppress anything.  A violation
whose fingerprint matches an open entry is counted and reported as
KNOWN-FINDING; anything else is a VIOLATION.
"""

from __future__ import annotations

import glob
import json
import os
import re
from typing import Any, Dict, List, Optional

from .core import ROOT, Violation


def _load_file(path: str) -> List[Dict[str, Any]]:
    with open(path) as fh:
        data = json.load(fh)
    if isinstance(data, dict):
        data = data.get("findings", [])
    return list(data)


def load_findings(prop: str) -> List[Dict[str, Any]]:
    entries: List[Dict[str, Any]] = []
    single = os.path.join(ROOT, "known_findings.json")
    if os.path.exists(single):
        entries += _load_file(single)
    for path in sorted(glob.glob(os.path.join(ROOT, "known_findings", "*.json"))):
        entries += _load_file(path)
    return [e for e in entries if e.get("property") == prop]


def _field_matches(pattern: str, value: str) -> bool:
    if pattern.startswith("re:"):
        return re.fullmatch(pattern[3:], value) is not None
    return pattern == value


def entry_matches(entry: Dict[str, Any], fp: Dict[str, str]) -> bool:
    m = entry.get("match", {})
    for k in ("subcheck", "where", "symptom"):
        if k in m and not _field_matches(m[k], fp.get(k, "")):
            return False
    return True


def is_open(entry: Dict[str, Any]) -> bool:
    return str(entry.get("status", "open")).startswith("open")


def match_open(entries: List[Dict[str, Any]], v: Violation) -> Optional[Dict[str, Any]]:
    for e in entries:
        if is_open(e) and entry_matches(e, v.fingerprint):
            return e
    return None
