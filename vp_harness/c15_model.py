"""C15 reference model: two HD61202 column drivers behind the PC-E500 address decoding.

Written from (not imported from) the documentation in the repository:
  * pce500/README.md "Address Decoding": A0 = R/W (0 write, 1 read), A1 = D/I (0 instruction, 1 data),
    A3:A2 = chip select 00 both / 01 right / 10 left / 11 none; "Status Read"/"Display Data Read" have no
    simultaneous (both-chip) form.
  * datasheet comments in pce500/display/hd61202.py and sc62015/core/src/lcd.rs: instruction byte top two bits
    00 on/off (bit 0), 01 set Y (6 bits), 10 set page (3 bits), 11 start line (6 bits); status DB7 = BUSY,
    DB5 = 1 when the display is OFF, reading status clears busy; "read data is buffered; return prior column
    (Y-1) and advance Y"; a data write stores at (page, Y), Y <- (Y+1) mod 64.
  * the property statement (state = on, start line, page, column, VRAM per chip).

Chip index 0 = left (CS 0b10), 1 = right (CS 0b01) -- the order of HD61202Controller.chips / LcdController.chips
and of both snapshot formats.
"""

from __future__ import annotations

from typing import List, Optional, Tuple

LEFT, RIGHT = 0, 1
CHIP_NAME = ("left", "right")
CS_NAME = ("both", "right", "left", "none")
INSTR_NAME = ("on-off", "set-y", "set-page", "start-line")
WINDOWS = (0x2000, 0xA000)


def decode(addr: int) -> Tuple[int, int, int]:
    """(cs, di, rw) of an address inside one of the two LCD windows."""
    lo = addr & 0xF
    return (lo >> 2) & 3, (lo >> 1) & 1, lo & 1


def selected(cs: int) -> Tuple[int, ...]:
    return ((LEFT, RIGHT), (RIGHT,), (LEFT,), ())[cs]


def in_window(addr: int) -> bool:
    return 0x2000 <= addr <= 0x2FFF or 0xA000 <= addr <= 0xAFFF


def drives_bus(addr: int) -> bool:
    """True when a read of `addr` is answered by exactly one chip (A0 = 1 and CS = left or right): the only reads for
    which the protocol prescribes the byte on the data bus (README: status / data read have no simultaneous form)."""
    cs, _di, rw = decode(addr)
    return rw == 1 and cs in (1, 2)


def undriven_run(n: int) -> Tuple[Optional[int], int, int]:
    """Result encoding of n reads none of which is answered by a chip."""
    acc = RunDigest()
    for _ in range(n):
        acc.add(None)
    return acc.result()


def run_values(v0: int, step: int, n: int) -> List[int]:
    """Values of the bulk write verb ["W", addr, v0, step, n]."""
    return [(v0 + i * step) & 0xFF for i in range(n)]


class RunDigest:
    """Encoding of a sequence of read results (shared by the model, the Python driver and c15.rs)."""

    def __init__(self) -> None:
        self.last: Optional[int] = None
        self.some = 0
        self.fnv = 0x811C9DC5

    def add(self, r: Optional[int]) -> None:
        self.last = r
        if isinstance(r, int) and not isinstance(r, bool) and 0 <= r <= 0xFF:
            code = r
            self.some += 1
        elif r is None:
            code = 0x100
        else:  # not a byte: make the digest differ from every legal sequence
            code = 0x1FF
            self.some += 1 << 40
        self.fnv = ((self.fnv ^ (code & 0xFF)) * 0x01000193) & 0xFFFFFFFF
        self.fnv = ((self.fnv ^ (code >> 8)) * 0x01000193) & 0xFFFFFFFF

    def result(self) -> Tuple[Optional[int], int, int]:
        return self.last, self.some, self.fnv


class Chip:
    __slots__ = ("on", "busy", "start_line", "page", "y", "vram")

    def __init__(self) -> None:
        self.on = False
        self.busy = False
        self.start_line = 0
        self.page = 0
        self.y = 0
        self.vram = bytearray(8 * 64)

    def regs(self) -> Tuple[bool, int, int, int]:
        return (self.on, self.start_line, self.page, self.y)


class Model:
    """Reference for one history.  `write`/`read` return (result, op-class string, direction_matched)."""

    def __init__(self) -> None:
        self.chips = [Chip(), Chip()]
        # bookkeeping for the non-triviality rule (not part of the protocol)
        self.wrapped = [False, False]
        self.y_was_set = [False, False]
        self.read_after_set = [False, False]

    # -- classification (used for fingerprints; no state change) -------------------------------------------
    @staticmethod
    def classify_write(addr: int, value: int) -> Tuple[str, bool]:
        cs, di, rw = decode(addr)
        kind = "data" if di else "instr:" + INSTR_NAME[(value >> 6) & 3]
        if rw:
            return f"write@read-address {kind} cs={CS_NAME[cs]}", False
        return f"write {kind} cs={CS_NAME[cs]}", True

    @staticmethod
    def classify_read(addr: int) -> Tuple[str, bool]:
        cs, di, rw = decode(addr)
        kind = "data" if di else "status"
        if not rw:
            return f"read@write-address {kind} cs={CS_NAME[cs]}", False
        return f"read {kind} cs={CS_NAME[cs]}", True

    # -- protocol ------------------------------------------------------------------------------------------
    def write(self, addr: int, value: int) -> None:
        cs, di, rw = decode(addr)
        if rw:  # R/W high: not a write cycle for the chips (README); no model verdict is drawn at such steps
            return
        for ci in selected(cs):
            c = self.chips[ci]
            c.busy = True
            if di:
                c.vram[c.page * 64 + c.y] = value & 0xFF
                if c.y == 63:
                    self.wrapped[ci] = True
                c.y = (c.y + 1) % 64
            else:
                top = (value >> 6) & 3
                if top == 0:
                    c.on = bool(value & 1)
                elif top == 1:
                    c.y = value & 0x3F
                    self.y_was_set[ci] = True
                elif top == 2:
                    c.page = value & 0x07
                else:
                    c.start_line = value & 0x3F

    def read(self, addr: int) -> Optional[int]:
        cs, di, rw = decode(addr)
        if not rw:
            return None
        if cs == 0 or cs == 3:  # both: no simultaneous read form; none: nothing selected
            return None
        c = self.chips[selected(cs)[0]]
        ci = selected(cs)[0]
        if di:
            value = c.vram[c.page * 64 + ((c.y - 1) % 64)]
            if c.y == 63:
                self.wrapped[ci] = True
            c.y = (c.y + 1) % 64
            if self.y_was_set[ci]:
                self.read_after_set[ci] = True
            return value
        status = (0x80 if c.busy else 0) | (0 if c.on else 0x20)
        c.busy = False
        return status

    # -- runs (the bulk verbs of the op language: n accesses of the same address) ----------------------------
    def write_run(self, addr: int, v0: int, step: int, n: int) -> None:
        for i in range(n):
            self.write(addr, (v0 + i * step) & 0xFF)

    def read_run(self, addr: int, n: int) -> Tuple[Optional[int], int, int]:
        """(last result, number of non-None results, FNV-1a/32 over the results with None coded as 0x100)."""
        acc = RunDigest()
        for _ in range(n):
            acc.add(self.read(addr))
        return acc.result()

    # -- views ---------------------------------------------------------------------------------------------
    def regs(self) -> List[Tuple[bool, int, int, int]]:
        return [c.regs() for c in self.chips]

    def vram(self) -> bytes:
        return bytes(self.chips[0].vram) + bytes(self.chips[1].vram)

    def adopt(self, regs: List[Tuple[bool, int, int, int]], vram: bytes, busy: Optional[List[bool]] = None) -> None:
        """Re-synchronise on an observed state (only used after steps where no model verdict is drawn)."""
        for ci, c in enumerate(self.chips):
            on, sl, pg, y = regs[ci]
            c.on, c.start_line, c.page, c.y = bool(on), int(sl) & 0x3F, int(pg) & 7, int(y) & 0x3F
            c.vram[:] = vram[ci * 512:(ci + 1) * 512]
            if busy is not None:
                c.busy = bool(busy[ci])

    def nontrivial(self) -> bool:
        return all(self.wrapped[ci] or self.read_after_set[ci] for ci in (LEFT, RIGHT))


# ---- documented display layout ---------------------------------------------------------------------------
# render_combined_image docstring (hd61202.py): "Left half: right chip (64px) + left chip (56px); Right half:
# left chip (56px flipped) + right chip (64px flipped)"; upper halves = pages 0-3, lower halves = pages 4-7
# (controller_wrapper.get_display_buffer / lcd.rs display_buffer, test_controller_wrapper.test_get_display_buffer:
# right[0][0]->col 0, left[0][0]->col 64, left[4][55]->col 120, right[4][0]->col 239; lcd.rs tests
# display_write_capture_records_display_mapped_coordinates, display_buffer_applies_start_line_rotation).

def layout_pixel(chip: int, page: int, col: int, bit: int, start_line: int = 0) -> Optional[Tuple[int, int]]:
    """Documented (row, column) of a VRAM bit in the 32x240 buffer, or None when it is not visible.

    `start_line` scrolls the chip's 64 rows (Rust model only: display row d shows VRAM row (d + start) mod 64)."""
    y_vram = page * 8 + bit
    y_disp = (y_vram - start_line) % 64
    upper = y_disp < 32
    row = y_disp if upper else y_disp - 32
    if chip == RIGHT:
        return (row, col) if upper else (row, 176 + (63 - col))
    if col >= 56:
        return None
    return (row, 64 + col) if upper else (row, 120 + (55 - col))
