"""C12 monitor: evaluates the interrupt property on one model's own run, step boundary by step boundary.

Input: the scenario (program spec -> c12_rom metadata) and the observation records of ONE model
(c12_pymachine.run / machine.rs).  No cross-model verdicts.  The only model-specific parameter is *where in its
step* the model performs delivery (both step() implementations document it): Python delivers first and then
executes one instruction ("pre"), Rust executes one instruction and delivers last ("post").

For the hand-encoded template instructions the monitor predicts exactly three things -- next PC, the IMR byte
and S -- (NOP / MV (IMR),n / OR|AND (IMR),n / MV (ISR),n / AND (ISR),n / INC / MV A,(KIL) / MV I,n / WAIT /
HALT / OFF / JR / RETI; README semantics, bytes verified against the repository's decoder by c12_rom.selftest).
Everything else is read from the observations.

Sub-checks (Violation.subcheck):
  gate      delivery only with IMR bit 7 set and (IMR & ISR & 0x7F) != 0 at the instant of delivery
  frame     exactly 5 bytes pushed: IMR, F, PC(3, LE) = the pre-delivery values; nothing else in the stack
            window changes; S drops by 5; IMR bit 7 cleared, other IMR bits kept
  vector    execution continues at the 3-byte vector stored at 0xFFFFA
  reti      the matching RETI restores PC, F, IMR and S (and the CPU registers the handler does not touch)
  state     a step changes PC / S / IMR / registers only as its instruction (and a delivery) explains
  not-lost  a status bit raised by a hardware event is cleared only by firmware, by the documented
            acknowledge paths, or after being taken; an enabled pending request is taken within BOUND steps
  halt      a halted CPU executes nothing, wakes when a status bit is pending, never wakes without one
  off       additionally: no timer status bit is raised while powered off, and a running timer's distance to its
            expiry (model's own target minus model's own cycle counter) does not shrink in a powered-off step
  machine   the model raised an error while stepping a valid scenario

Wider observations (round 2): every record carries the internal-memory window 00-EE (user RAM + BP/PX/PY); a step
may change it only as its template instruction explains (INC (n), MV (BP|PX|PY),n) -- interrupt entry and RETI
must not touch it, whatever the base pointer is (reti / frame / state).  The model's own timer targets ("nm","ns")
are used as expiry witnesses: an expiry must leave its status bit pending (not-lost).  With the machine's keyboard
interrupt enable off ("kbirq": false) no key event may raise KEYI (gate).

Round 3: the monitor is configuration-blind -- a Python run on the fast_mode path and a Rust run driven with batched
CoreRuntime::step(n) calls arrive as the same kind of instruction-by-instruction records and are judged by the same
rules.  For Rust, requests that were co-candidates of a delivery and are still pending after its RETI (which clears
exactly the served status bit) keep their bounded-response obligation.

Round 4: handler exit kind.  A handler may end with the RESET instruction (firmware restart through a vector; ISR is
cleared, IMR/S/F/registers are kept, no RETI will ever match the entry): the monitor drops its frames and applies the
ordinary main-program obligations from then on -- an enabled pending request raised later must be taken within BOUND
boundaries (symptoms carry the suffix "after a handler ended with RESET instead of RETI").  A handler may also fall
into HALT before it returns or never return: nothing is required while it is active.  Timer liveness outside handlers:
a timer that is overdue by the model's own cycle counter at the start of an ordinary step expires in that step
(not-lost).
"""

from __future__ import annotations

from typing import Any, Dict, List, Optional, Tuple

from . import c12_rom as R

BOUND = 3  # boundaries an enabled, pending request may stay untaken (both step loops evaluate delivery once per step)
SRC_BITS = {"MTI": 0x01, "STI": 0x02, "KEY": 0x04, "ONK": 0x08}
BIT_NAMES = {0x01: "MTI", 0x02: "STI", 0x04: "KEYI", 0x08: "ONKI"}
REGS = ("ba", "i", "x", "y", "u")


def _names(mask: int) -> str:
    return "+".join(n for b, n in BIT_NAMES.items() if mask & b) or "none"


class Monitor:
    def __init__(self, model: str, sc: Dict[str, Any]) -> None:
        self.model = model
        self.order = "pre" if model == "py" else "post"
        self.sc = sc
        _, self.meta = R.layout(sc["prog"])
        self.hclob = set(x.lower() for x in R.handler_clobbers(self.meta))
        self.vector = R.HANDLER
        self.frames: List[Dict[str, Any]] = []
        self.lp: Optional[str] = None          # instruction kind by which low power was entered
        # status bit -> [consecutive eligible boundaries without delivery, a delivery for another source happened
        # while this request was pending but not a candidate (masked)]
        self.req: Dict[int, List[Any]] = {}
        self.out: List[Tuple[str, str, str, str]] = []   # (subcheck, where, symptom, detail)
        self.labels: set = set()
        self.dead = False
        self.deliveries = 0
        self.masked_pending_run = 0
        self.max_masked_pending = 0
        self.wakes = 0
        self.lo = R.STACK_TOP - R.stack_window(sc)
        self.kbirq_off = sc.get("kbirq") is False
        if self.kbirq_off:
            self.labels.add("kbirq-disabled")
        if any(sc.get(f) for f in ("bp0", "px0", "py0")):
            self.labels.add("imem-base-nonzero")
        # handler exit kind (round 4): a handler may end with RESET (firmware restart), fall into HALT before it
        # returns, or never return at all
        self.hexit = str(sc["prog"].get("hexit") or "reti")
        self.labels.add("handler-exit:" + self.hexit)
        self.stuck_reported = 0                # timers already reported as overdue-but-not-expiring (once per run)
        self.reset_in_handler = False          # a RESET instruction was executed while a handler was active
        self.reset_targets = (R.MAIN, R.HANDLER)   # contents of the reset vector (0xFFFFD) / of the vector at 0xFFFFA
        self.periods = {0x01: int(sc.get("mti", 0) or 0), 0x02: int(sc.get("sti", 0) or 0)}
        # round 5: boundaries at which an enabled pending request met a not yet initialised stack pointer
        self.deferred_boundaries = 0
        self.deferred_then_valid = False
        if "s0" in sc:
            self.labels.add("initial-stack-pointer:" + ("uninitialised" if int(sc["s0"]) < 5 else "valid"))
        # round 5: powered-off periods with a running timer
        self.off_run = 0                       # consecutive steps the CPU stayed powered off with a timer armed
        self.off_rem = 0                       # time the nearest timer still had to run when that period began
        self.off_steps_armed = 0
        self.off_wakes_armed = 0
        self.off_adv_reported = 0              # timers already reported as counting while powered off (once per run)

    # ------------------------------------------------------------------ helpers
    def ctx(self, B: Dict[str, Any]) -> str:
        if B["pw"] != 0:
            return "off" if (self.lp == "OFF" or B["pw"] == 2) else "halt"
        return "handler" if self.frames else "main"

    def v(self, sub: str, where: str, symptom: str, detail: str) -> None:
        self.out.append((sub, f"{self.model}/{where}", symptom, detail))

    def _stk(self, obs: Dict[str, Any]) -> bytes:
        return bytes.fromhex(obs["stk"])

    def after_deferral(self) -> str:
        return (" after a delivery was deferred while the stack pointer was not yet initialised"
                if self.deferred_boundaries else "")

    def after_reset(self) -> str:
        return " after a handler ended with RESET instead of RETI" if self.reset_in_handler else ""

    # ------------------------------------------------------------------ host events (P -> B)
    def events(self, k: int, P: Dict[str, Any], B: Dict[str, Any], kinds: List[str]) -> None:
        rose = B["isr"] & ~P["isr"] & 0x0F
        fell = P["isr"] & ~B["isr"] & 0x0F
        if (rose & 0x04) and self.kbirq_off:
            self.v("gate", "host-event", "KEYI status raised by a key event although keyboard interrupts are disabled",
                   f"step {k}: events {kinds}: ISR {P['isr']:#04x} -> {B['isr']:#04x} key-latch {P['lat']}->{B['lat']}")
        for bit in (1, 2, 4, 8):
            if rose & bit:
                self.req.setdefault(bit, [0, False])
        if fell:
            allowed = 0x08 if "on_up" in kinds else 0
            bad = fell & ~allowed
            if bad:
                self.v("not-lost", "host-event", f"status bit {_names(bad)} cleared by a host event other than ON release",
                       f"step {k}: events {kinds}: ISR {P['isr']:#04x} -> {B['isr']:#04x}")
            for bit in (1, 2, 4, 8):
                if fell & bit:
                    self.req.pop(bit, None)

    # ------------------------------------------------------------------ one step (B -> A)
    def step(self, k: int, B: Dict[str, Any], A: Dict[str, Any], dl: Optional[List[List[int]]]) -> None:
        if self.dead:
            return
        ctx = self.ctx(B)
        d = A["irq"] - B["irq"]
        e = A["ic"] - B["ic"]
        if d not in (0, 1) or e not in (0, 1):
            self.v("state", ctx, "delivery/instruction counter moved by other than 0 or 1 in one step",
                   f"step {k}: irq {B['irq']}->{A['irq']} ic {B['ic']}->{A['ic']}")
            self.dead = True
            return
        isr_writer = False
        reti_frame: Optional[Dict[str, Any]] = None
        in_handler0 = bool(self.frames)        # a handler is active at the start of this step
        off_mode = B["pw"] != 0 and (self.lp == "OFF" or B["pw"] == 2)

        # requests that are enabled and pending at the boundary this step starts from (bounded response, see the end)
        elig = 0
        if B["pw"] != 2 and not off_mode and ctx in ("main", "halt") and not in_handler0 and (B["imr"] & 0x80):
            elig = B["imr"] & B["isr"] & 0x0F
        if B["s"] < 5:
            # Round 5: both step loops document that a delivery is deferred while the system stack pointer is not yet
            # initialised (S < 5: "IRQ deferred: stack pointer not initialized"); no obligation at such a boundary --
            # the obligation (sentence 2: not lost, taken promptly) starts at the first boundary with a usable S.
            if elig:
                self.deferred_boundaries += 1
                self.labels.add("enabled-request-pending-while-stack-pointer-uninitialised")
            elig = 0
        elif self.deferred_boundaries and elig and not self.deferred_then_valid:
            self.deferred_then_valid = True
            self.labels.add("deferred-request-still-pending-once-stack-pointer-valid")

        # ---------------- low power at the start of the step
        if B["pw"] != 0:
            stayed = A["pw"] != 0 and e == 0
            if stayed:
                changed = [f for f in ("pc", "s", "f", "imr") + REGS if A[f] != B[f]]
                if d or changed:
                    self.v("halt" if not off_mode else "off", ctx, "state changed while the CPU stayed in low power",
                           f"step {k}: delivered={d} changed={changed}")
                must = (B["isr"] & 0x08) if off_mode else B["isr"]
                if self.kbirq_off:
                    # lib.rs documents "When keyboard IRQs are disabled, ignore KEYI for HALT wake"; Python wakes on
                    # any status bit.  The models disagree and the statement does not cover a disabled source: no
                    # wake obligation for a (poked / firmware-written) KEYI bit in this configuration.
                    must &= ~0x04
                if must:
                    self.v("halt" if not off_mode else "off", ctx,
                           f"not resumed although status {_names(must & 0x0F) if must & 0x0F else 'bit(4-7)'} is pending",
                           f"step {k}: ISR={B['isr']:#04x} IMR={B['imr']:#04x} power {B['pw']}->{A['pw']}")
            else:
                self.wakes += 1
                self.labels.add("wake:" + ("off" if off_mode else "halt"))
        if off_mode and not (B["isr"] & 0x0C):
            # No key/ON status is pending at the start of this step, so the CPU is powered off for (at least the
            # beginning of) this step: a timer status bit appearing now means a timer kept running while off.
            rose_t = A["isr"] & ~B["isr"] & 0x03
            if rose_t:
                self.v("off", ctx, f"timer status {_names(rose_t)} raised while powered off",
                       f"step {k}: ISR {B['isr']:#04x}->{A['isr']:#04x} cycles {B['cyc']}->{A['cyc']} "
                       f"next_mti {B['nm']}->{A['nm']} next_sti {B['ns']}->{A['ns']} power {B['pw']}->{A['pw']}")

        # Round 5: "a powered-off CPU additionally stops both timers" -- judged on the timers' own progress, not only on
        # status bits: in a step that the model itself reports as powered off at both ends (nothing executed), the
        # distance between a running timer's own expiry target and the model's own time base (cycle counter) must not
        # shrink.  Otherwise the time spent powered off is charged to the timer and it expires (at once) after the
        # wake-up, however long the remaining period was.
        if B["pw"] == 2:
            armed = [(bit, key) for bit, key in ((0x01, "nm"), (0x02, "ns")) if self.periods[bit] > 0 and B[key] > 0]
            if A["pw"] == 2 and e == 0:
                if armed:
                    if self.off_run == 0:
                        self.off_rem = min(B[key] - B["cyc"] for _, key in armed)
                    self.off_run += 1
                    self.off_steps_armed += 1
                    self.labels.add("off-step-with-running-timer")
                adv = 0
                for bit, key in armed:
                    if A[key] - A["cyc"] < B[key] - B["cyc"]:
                        adv |= bit
                adv &= ~self.off_adv_reported
                self.off_adv_reported |= adv
                if adv:
                    self.v("off", ctx, f"timer {_names(adv)} kept counting down towards its expiry while powered off",
                           f"step {k}: cycles {B['cyc']}->{A['cyc']} next_mti {B['nm']}->{A['nm']} next_sti {B['ns']}->{A['ns']} "
                           f"periods mti={self.periods[1]} sti={self.periods[2]} ISR {B['isr']:#04x}->{A['isr']:#04x} "
                           f"power {B['pw']}->{A['pw']} (remaining time = model's expiry target - model's cycle counter)")
            elif self.off_run:
                # wake-up after a powered-off period with a running timer: classify its length against the time the
                # timer still had to run when the CPU went off
                per = max(self.periods.values())
                self.labels.add("off-period:" + ("shorter-than-remaining-timer" if self.off_run < max(self.off_rem, 1) else
                                                 ("at-least-remaining-timer" if self.off_run < max(self.off_rem, 1) + per
                                                  else "remaining-timer-plus-a-period-or-more")))
                self.off_wakes_armed += 1
                self.off_run = 0

        # ---------------- abstract replay of the step: delivery / instruction in the model's order
        cur = {"pc": B["pc"] & 0xFFFFF, "s": B["s"], "imr": B["imr"], "f": B["f"]}
        executed: Optional[Dict[str, Any]] = None
        delivered_here = False
        served = 0
        bypassed = 0

        def deliver() -> bool:
            nonlocal delivered_here, served, bypassed
            stk = self._stk(A)
            fa = cur["s"] - 5
            if fa < self.lo or cur["s"] > R.STACK_TOP:
                self.v("state", ctx, "stack pointer left the observed window", f"step {k}: S={cur['s']:#x}")
                self.dead = True
                return False
            fb = stk[fa - self.lo: fa - self.lo + 5]
            fr = {"imr": fb[0], "f": fb[1], "pc": fb[2] | (fb[3] << 8) | (fb[4] << 16)}
            if self.order == "pre":
                first = [x for x in (dl or []) if x[0] == cur["s"] - 3]
                if first:
                    isr_at, imr_at = first[0][2], first[0][3]
                else:
                    isr_at, imr_at = B["isr"], cur["imr"]
            else:
                isr_at, imr_at = A["isr"], cur["imr"]
            cand = imr_at & isr_at & 0x7F
            src = A.get("src")
            # (a) gate
            if not (imr_at & 0x80):
                pend = isr_at & 0x0F
                cls = "KEYI/ONKI pending" if pend & 0x0C else ("only timer status pending" if pend else "nothing pending")
                self.v("gate", ctx, f"delivered with master enable (IMR bit 7) clear; {cls}",
                       f"step {k}: IMR={imr_at:#04x} ISR={isr_at:#04x} model-source={src} resume-PC={cur['pc']:#x}")
            elif not cand:
                self.v("gate", ctx, "delivered although no pending status bit is enabled by its mask bit",
                       f"step {k}: IMR={imr_at:#04x} ISR={isr_at:#04x} model-source={src}")
            # (b) frame
            bad = []
            if cur["pc"] is None:
                # delivery right after a RESET instruction (Rust order): the restart address is the pushed resume PC
                check_reset_target(fr["pc"])
                cur["pc"] = fr["pc"]
            if fr["pc"] != cur["pc"]:
                bad.append("PC")
            if cur["f"] is not None and fr["f"] != cur["f"]:
                bad.append("F")
            if fr["imr"] != cur["imr"]:
                bad.append("IMR")
            if bad:
                self.v("frame", ctx, "pushed frame differs from the pre-delivery " + "/".join(bad),
                       f"step {k}: frame@{fa:#x}={fb.hex()} expected IMR={cur['imr']:#04x} "
                       f"F={cur['f'] if cur['f'] is None else hex(cur['f'])} PC={cur['pc']:#x}")
            before = self._stk(B)
            other = [i for i in range(len(stk)) if not (fa - self.lo <= i < fa - self.lo + 5) and stk[i] != before[i]]
            if other:
                self.v("frame", ctx, "delivery wrote stack bytes outside the 5-byte frame",
                       f"step {k}: changed offsets {[hex(self.lo + i) for i in other[:8]]}")
            self.frames.append({"pre": dict(cur), "regs": {r: (B if self.order == "pre" else A)[r] for r in REGS},
                                "src": src, "cand": cand & 0x0F, "step": k, "imr_written": False, "popped": 0})
            for bit in (1, 2, 4, 8):
                if cand & bit:
                    if self.req.pop(bit, None) is not None:
                        self.frames[-1]["popped"] |= bit
                elif bit in self.req and (isr_at & bit):
                    self.req[bit][1] = True
            served |= cand & 0x0F
            bypassed |= isr_at & ~cand & 0x0F
            self.deliveries += 1
            delivered_here = True
            self.labels.add(f"delivery:{ctx}")
            self.labels.add(f"src:{src}")
            if len(self.frames) > 1:
                self.labels.add("nested-delivery")
            cur["s"] -= 5
            cur["imr"] &= 0x7F
            cur["pc"] = self.vector
            return True

        def check_reset_target(pc: int) -> None:
            if pc not in self.reset_targets:
                self.v("state", ctx, "RESET did not continue at the target of the reset vector",
                       f"step {k}: PC after RESET={pc:#x}; reset vector -> {R.MAIN:#x} (vector at 0xFFFFA -> {R.HANDLER:#x})")

        def execute() -> bool:
            nonlocal executed, isr_writer, reti_frame
            m = self.meta.get(cur["pc"])
            if m is None:
                self.v("state", ctx, "PC left the program (neither main loop nor handler)",
                       f"step {k}: PC={cur['pc']:#x}")
                self.dead = True
                return False
            executed = m
            kind = m["kind"]
            if kind == "RETI":
                if not self.frames:
                    self.v("state", ctx, "RETI executed without a recorded delivery", f"step {k}: PC={cur['pc']:#x}")
                    self.dead = True
                    return False
                reti_frame = self.frames.pop()
                pre = reti_frame["pre"]
                cur["pc"], cur["f"], cur["imr"] = pre["pc"], pre["f"], pre["imr"]
                cur["s"] += 5
                self.labels.add("reti")
                return True
            if kind == "RESET":
                # Firmware restart.  Documented by both models (eval_intrinsic_reset docstring; llama/eval.rs
                # power_on_reset): ISR is cleared, IMR / S / F / the CPU registers are retained, execution continues
                # at a vector target (the models name different vectors: read from the observation).  Whatever
                # handler was active is over: no RETI will ever match its frame.
                if self.frames:
                    self.reset_in_handler = True
                    self.labels.add("reset-in-handler")
                    if len(self.frames) > 1:
                        self.labels.add("reset-in-nested-handler")
                else:
                    self.labels.add("reset-outside-handler")
                del self.frames[:]
                cur["pc"] = None
                isr_writer = True
                return True
            cur["pc"] = m["next"]
            if kind == "SETS":
                cur["s"] = int(m["arg"]) & 0xFFFFF     # MV S,imm20: the firmware loads its system stack pointer
                self.labels.add("stack-pointer-loaded-by-program")
            if m["imr"] is not None:
                op, val = m["imr"]
                cur["imr"] = val if op == "set" else (cur["imr"] | val if op == "or" else cur["imr"] & val)
                if self.frames:
                    self.frames[-1]["imr_written"] = True
            if m["isr_w"]:
                isr_writer = True
            if kind in ("INCA", "INCM", "ACK", "ORIMR", "ANDIMR", "HALT", "OFF"):
                cur["f"] = None   # flags change (INC/AND/OR) or are documented as undefined (HALT/OFF)
            if kind in ("HALT", "OFF"):
                self.lp = kind
            return True

        ok = True
        if self.order == "pre":
            if d:
                ok = deliver()
            if ok and e:
                ok = execute()
        else:
            if e:
                ok = execute()
            if ok and d:
                if cur["f"] is None:
                    cur["f"] = A["f"]
                ok = deliver()
        if not ok:
            return
        if B["pw"] != 0 and A["pw"] == 0:
            self.lp = None
        if e == 0 and d == 0 and A["pw"] == 0 and B["pw"] == 0:
            self.v("state", ctx, "running CPU executed no instruction in a step", f"step {k}: PC={B['pc']:#x}")

        # wake without any status evidence
        if B["pw"] != 0 and (A["pw"] == 0 or e == 1) and not d and not isr_writer:
            if B["isr"] == 0 and A["isr"] == 0:
                self.v("halt" if not off_mode else "off", ctx, "resumed although no status bit is pending",
                       f"step {k}: ISR {B['isr']:#04x}->{A['isr']:#04x} power {B['pw']}->{A['pw']} executed={e}")

        # ---------------- compare the prediction with the observation
        if cur["pc"] is None:
            check_reset_target(A["pc"] & 0xFFFFF)
            cur["pc"] = A["pc"] & 0xFFFFF
        bad = []
        if A["pc"] & 0xFFFFF != cur["pc"]:
            bad.append("PC")
        if A["s"] != cur["s"]:
            bad.append("S")
        if A["imr"] != cur["imr"]:
            bad.append("IMR")
        if cur["f"] is not None and A["f"] != cur["f"]:
            bad.append("F")
        clob = set(x.lower() for x in (executed["clob"] if executed else []))
        rbad = [r for r in REGS if r not in clob and A[r] != B[r]]
        det = (f"step {k}: expected PC={cur['pc']:#x} S={cur['s']:#x} IMR={cur['imr']:#04x} "
               f"F={'?' if cur['f'] is None else hex(cur['f'])}; observed PC={A['pc']:#x} S={A['s']:#x} "
               f"IMR={A['imr']:#04x} F={A['f']:#04x}; instr={executed['kind'] if executed else None} delivered={d}")
        if bad or rbad:
            fields = "/".join(bad + [r.upper() for r in rbad])
            if reti_frame is not None:
                self.v("reti", ctx, f"RETI did not restore {fields}" + (" (new delivery in the same step)" if delivered_here else ""), det)
            elif delivered_here and bad == ["PC"] and not rbad:
                self.v("vector", ctx, "execution did not continue at the interrupt vector", det)
            elif delivered_here and bad == ["IMR"] and not rbad and A["imr"] == (cur["imr"] | 0x80):
                self.v("frame", ctx, "delivery did not clear the master enable (IMR bit 7)", det)
            elif delivered_here:
                self.v("frame", ctx, f"after delivery {fields} differ from S-5 / IMR with bit 7 cleared / vector / untouched registers", det)
            else:
                self.v("state", ctx, f"{fields} changed in a way the executed instruction does not explain", det)
            self.dead = True
            return
        if reti_frame is not None:
            keep = [r for r in REGS if r not in self.hclob]
            diff = [r.upper() for r in keep if A[r] != reti_frame["regs"][r]]
            if diff:
                self.v("reti", ctx, "registers of the interrupted program changed across handler: " + "/".join(diff),
                       f"step {k}: at delivery {reti_frame['regs']} now { {r: A[r] for r in REGS} }")
            if delivered_here:
                self.labels.add("reti+redelivery" if self.order == "post" else "delivery+reti-in-one-step")

        # ---------------- internal memory of the interrupted program (user RAM 00-EB, BP, PX, PY)
        if "im" in A and "im" in B and (A["im"] != B["im"] or (executed is not None and executed.get("imw"))):
            before_im = bytes.fromhex(B["im"])
            after_im = bytes.fromhex(A["im"])
            exp = bytearray(before_im)
            w = executed.get("imw") if executed is not None else None
            if w:
                off = int(w[1]) - R.IM_LO
                if 0 <= off < len(exp):
                    exp[off] = (int(w[2]) & 0xFF) if w[0] == "set" else ((exp[off] + 1) & 0xFF)
            diff = [i for i in range(min(len(exp), len(after_im))) if after_im[i] != exp[i]]
            if diff:
                det_im = (f"step {k}: " + ", ".join(f"IMEM[{R.IM_LO + i:#04x}] {before_im[i]:#04x}->{after_im[i]:#04x}"
                                                    f" (expected {exp[i]:#04x})" for i in diff[:6]) +
                          f"; BP={before_im[R.BP - R.IM_LO]:#04x} PX={before_im[R.PX - R.IM_LO]:#04x} "
                          f"PY={before_im[R.PY - R.IM_LO]:#04x} instr={executed['kind'] if executed else None} delivered={d}")
                if reti_frame is not None:
                    self.v("reti", ctx, "RETI changed internal memory of the interrupted program (other than IMR)", det_im)
                elif delivered_here:
                    self.v("frame", ctx, "delivery wrote internal memory other than IMR", det_im)
                else:
                    self.v("state", ctx, "internal memory changed in a way the executed instruction does not explain", det_im)
        if "im" in B and (reti_frame is not None or delivered_here):
            o = 2 * (R.BP - R.IM_LO)
            if B["im"][o:o + 6] != "000000":
                if reti_frame is not None:
                    self.labels.add("reti-with-imem-base-nonzero")
                if delivered_here:
                    self.labels.add("delivery-with-imem-base-nonzero")

        # ---------------- status register bookkeeping (B -> A)
        rose = A["isr"] & ~B["isr"] & 0x0F
        fell = B["isr"] & ~A["isr"] & 0x0F
        fw_set = 0
        if executed is not None and executed["kind"] == "ISR":
            fw_set = executed["arg"] & 0x0F
        if self.kbirq_off and (rose & 0x04) and not (fw_set & 0x04):
            self.v("gate", ctx, "KEYI status raised during a step although keyboard interrupts are disabled",
                   f"step {k}: ISR {B['isr']:#04x}->{A['isr']:#04x} key-latch {B['lat']}->{A['lat']} "
                   f"instr={executed['kind'] if executed else None}")
        # timer expiries witnessed by the model's own timer targets: each must leave its status bit pending.  Not
        # judged in steps whose instruction writes ISR or is RETI (the models order tick and write differently) or
        # that start/end powered off (Rust documents that OFF clears non-ONK status).
        fired = (0x01 if A["nm"] != B["nm"] else 0) | (0x02 if A["ns"] != B["ns"] else 0)
        if fired:
            self.labels.add("timer-expiry:" + _names(fired))
            if not isr_writer and reti_frame is None and B["pw"] != 2 and A["pw"] != 2:
                missing = fired & ~A["isr"] & 0x03
                if missing:
                    self.v("not-lost", ctx,
                           f"timer expiry {_names(missing)} left no pending status bit"
                           + (" (both timers expired in this step)" if fired == 0x03 else ""),
                           f"step {k}: next_mti {B['nm']}->{A['nm']} next_sti {B['ns']}->{A['ns']} cycles "
                           f"{B['cyc']}->{A['cyc']} ISR {B['isr']:#04x}->{A['isr']:#04x} IMR={A['imr']:#04x} delivered={d}")
        # timers keep running outside handlers: a timer whose own expiry target has already been reached by the model's
        # own cycle counter at the start of an ordinary step (no handler active before or after, running, one
        # instruction executed, no delivery) expires in that step -- both step loops tick the timers once per
        # executed instruction unless a handler is active (Python before the instruction, Rust after it).  Typical
        # non-trivial instance: the first step after a RETI (the timers stand still while a handler runs).
        if not in_handler0 and not self.frames and e == 1 and d == 0 and B["pw"] == 0 and A["pw"] == 0:
            stuck = 0
            for bit, key in ((0x01, "nm"), (0x02, "ns")):
                if self.periods[bit] > 0 and B[key] > 0 and B["cyc"] >= B[key]:
                    self.labels.add("timer-overdue-at-step-start")
                    if A[key] == B[key]:
                        stuck |= bit
            stuck &= ~self.stuck_reported
            self.stuck_reported |= stuck
            if stuck:
                self.v("not-lost", ctx,
                       f"timer {_names(stuck)} is overdue by the model's own cycle counter but did not expire in a step "
                       "outside any handler" + self.after_reset() + self.after_deferral(),
                       f"step {k}: cycles {B['cyc']}->{A['cyc']} next_mti {B['nm']}->{A['nm']} next_sti {B['ns']}->{A['ns']} "
                       f"ISR {B['isr']:#04x}->{A['isr']:#04x} IMR={A['imr']:#04x} model in-interrupt={B['inint']}->{A['inint']} "
                       f"instr={executed['kind'] if executed else None}")
        for bit in (1, 2, 4, 8):
            if rose & bit and not (fw_set & bit) and not (served & bit):
                self.req.setdefault(bit, [0, bool(bypassed & bit)])
        if fell:
            allowed = 0
            how = []
            if isr_writer:
                allowed = 0x0F
            if reti_frame is not None and self.model == "rs":
                # documented: RETI clears the delivered status bit.  "Delivered" is judged from the machine state at
                # delivery (status bits that were pending AND enabled by their mask bit), not from the source name the
                # model reports, so a model that credits a masked source is not believed.
                allowed |= int(reti_frame.get("cand", SRC_BITS.get(str(reti_frame["src"]), 0)))
                how.append(f"at RETI of the {reti_frame['src']} handler")
            if B["pw"] == 2:
                allowed |= 0x07   # documented assumption in CoreRuntime::step + unit test off_clears_non_onk_isr_and_pending
            badbits = fell & ~allowed
            if badbits:
                if reti_frame is not None and self.model == "rs":
                    sym = f"status bit {_names(badbits)} cleared by the RETI of another source's handler"
                else:
                    sym = f"status bit {_names(badbits)} cleared without a firmware write"
                self.v("not-lost", ctx, sym,
                       f"step {k}: ISR {B['isr']:#04x}->{A['isr']:#04x} instr={executed['kind'] if executed else None} "
                       + " ".join(how))
            for bit in (1, 2, 4, 8):
                if fell & bit:
                    self.req.pop(bit, None)
        if reti_frame is not None and self.model == "rs":
            # Rust serves ONE source per delivery: its RETI clears exactly the delivered status bit (documented in
            # lib.rs / eval.rs).  Event-raised requests that were only co-candidates of that delivery and are still
            # pending after the return have not been taken yet: they keep their obligation.  (Python has no such
            # bookkeeping -- one delivery stands for every candidate -- so nothing is re-registered there.)
            again = int(reti_frame.get("popped", 0)) & A["isr"] & 0x0F
            for bit in (1, 2, 4, 8):
                if again & bit and bit not in self.req:
                    self.req[bit] = [0, False]
                    self.labels.add("still-pending-after-reti")

        # ---------------- bounded response for enabled pending requests
        for bit in list(self.req):
            if delivered_here:
                self.req[bit][0] = 0
                continue
            if elig & bit:
                self.req[bit][0] += 1
                if self.req[bit][0] >= BOUND:
                    why = (" after a delivery for another source intervened while it was masked"
                           if self.req[bit][1] else "") + self.after_reset()
                    if not self.req[bit][1]:
                        why += self.after_deferral()
                    self.v("not-lost", ctx, f"enabled pending request {_names(bit)} not taken within {BOUND} step boundaries" + why,
                           f"step {k}: IMR={B['imr']:#04x} ISR={B['isr']:#04x} model pending-flag={B['pend']} in-interrupt={B['inint']}")
                    self.req.pop(bit, None)
            else:
                self.req[bit][0] = 0
        # coverage bookkeeping: pending-but-masked boundaries
        if B["isr"] & 0x0F and not (B["imr"] & 0x80 and B["imr"] & B["isr"] & 0x0F):
            self.masked_pending_run += 1
            self.max_masked_pending = max(self.max_masked_pending, self.masked_pending_run)
        else:
            self.masked_pending_run = 0


def evaluate(model: str, sc: Dict[str, Any], run: Dict[str, Any]) -> Monitor:
    mon = Monitor(model, sc)
    evs: Dict[int, List[str]] = {}
    for ev in sc.get("events", []):
        evs.setdefault(int(ev[0]), []).append(str(ev[1]))
    P = run["obs0"]
    for k, rec in enumerate(run["steps"]):
        B = rec.get("b") or P
        if "b" in rec:
            mon.events(k, P, B, evs.get(k, []))
        if rec.get("err"):
            # a step that returned an error but left the machine steppable (Rust adapter, "step_errors": "record"):
            # the documented deferral notice while S is not initialised is accepted, anything else is a machine error
            if "IRQ deferred: stack pointer not initialized" in str(rec["err"]) and rec["a"]["s"] < 5:
                mon.labels.add("step-returned-documented-deferral-error")
            else:
                mon.v("machine", "step", "model raised an error while stepping a valid scenario", f"step {k}: {rec['err']}")
        mon.step(k, B, rec["a"], rec.get("dl"))
        P = rec["a"]
        if mon.dead:
            break
    if run.get("err"):
        mon.v("machine", "step", "model raised an error while stepping a valid scenario", str(run["err"]))
    return mon
