"""Machine-state generation for the core-level properties (C03-C07, C09).

All choices come from a deterministic counter-based stream (mix32 of the shard seed and a case index), so a
case is a pure function of (VERIF_SEED, index) and can be regenerated; saved replay files contain the fully
expanded case and never need the stream.
"""

from __future__ import annotations

from typing import Any, Dict, List, Optional, Sequence, Tuple

from .core import mix32

COUNTED = {"MVL", "MVLD", "ADCL", "SBCL", "DADL", "DSBL", "DSLL", "DSRL", "EXL"}
IMEM = 0x100000
BP, PX, PY = 0xEC, 0xED, 0xEE
BOUND8 = (0x00, 0x01, 0x0F, 0x10, 0x7F, 0x80, 0x99, 0x9A, 0xF0, 0xFE, 0xFF)
BOUND16 = (0x0000, 0x0001, 0x00FF, 0x0100, 0x7FFF, 0x8000, 0xFFFE, 0xFFFF)
PTR_BOUNDARY = (0x00000, 0x00001, 0x00002, 0x00003, 0x0FFFD, 0x0FFFE, 0x0FFFF, 0x10000, 0x10001,
                0xFFFFC, 0xFFFFD, 0xFFFFE, 0xFFFFF)


class Stream:
    """Counter-based deterministic value stream."""

    def __init__(self, seed: int, *ctx: int) -> None:
        self.s = mix32(seed, *ctx)
        self.n = 0

    def u32(self) -> int:
        self.n += 1
        return mix32(self.s, self.n)

    def below(self, n: int) -> int:
        return self.u32() % n

    def chance(self, num: int, den: int) -> bool:
        return self.u32() % den < num

    def choice(self, seq: Sequence[Any]) -> Any:
        return seq[self.u32() % len(seq)]

    def byte(self) -> int:
        if self.chance(1, 4):
            return self.choice(BOUND8)
        return self.u32() & 0xFF

    def word(self) -> int:
        if self.chance(1, 4):
            return self.choice(BOUND16)
        return self.u32() & 0xFFFF

    def pointer(self, boundary: bool = True) -> Tuple[int, str]:
        """(value, class): interior 7/8 (no wrap reachable), boundary 1/8 (when allowed)."""
        if boundary and self.chance(1, 8):
            return self.choice(PTR_BOUNDARY), "boundary"
        return 0x00400 + self.below(0xFF000 - 0x00400), "interior"


def gen_state(st: Stream, code: bytes, mnemonic: str = "", imax: int = 24,
              pc: Optional[int] = None, pad: bytes = bytes(8),
              boundary: bool = True) -> Tuple[Dict[str, Any], List[str]]:
    """Build a case dict (regs, seed, mem overrides incl. the code at PC) and its class labels."""
    labels: List[str] = []
    regs: Dict[str, int] = {}
    regs["BA"] = st.word()
    counted = mnemonic in COUNTED
    if counted:
        if st.chance(1, 16) and imax >= 255:
            regs["I"] = st.choice((255, 256, 257))
            labels.append("I:wrap-boundary")
        else:
            regs["I"] = 1 + st.below(imax)
            labels.append("I:1" if regs["I"] == 1 else "I:>=2")
    else:
        regs["I"] = st.word()
    # one decision per case: 7/8 all pointers interior; 1/8 boundary class (each pointer then 1/2 boundary)
    ptr_cls = "interior"
    case_boundary = boundary and st.chance(1, 8)
    for r in ("X", "Y", "U", "S"):
        if case_boundary and st.chance(1, 2):
            regs[r] = st.choice(PTR_BOUNDARY)
            ptr_cls = "boundary"
        else:
            regs[r] = st.pointer(False)[0]
    labels.append(f"ptr:{ptr_cls}")
    regs["F"] = st.u32() & 0xFF
    if pc is None:
        pc = 0x01000 + st.below(0xE0000)
        # keep the code away from a 64 KiB page end unless asked for (C05 generates those explicitly)
        if (pc & 0xFFFF) > 0xFFE0:
            pc -= 0x40
    regs["PC"] = pc & 0xFFFFF
    mem: List[List[int]] = []
    for i, b in enumerate(code + pad):
        mem.append([(pc + i) & 0xFFFFF, b])
    # BP / PX / PY: random, boundary-biased
    mem.append([IMEM + BP, st.byte()])
    mem.append([IMEM + PX, st.byte()])
    mem.append([IMEM + PY, st.byte()])
    case = {"regs": regs, "power": "running", "seed": st.u32(), "mem": mem, "steps": 1}
    return case, labels


def code_of(case: Dict[str, Any], n: int = 8) -> bytes:
    pc = case["regs"]["PC"]
    m = {a: v for a, v in case["mem"]}
    return bytes(m.get((pc + i) & 0xFFFFF, 0) for i in range(n))
