"""Shared by C01 and C02: decoder entry points beyond "one call, one fresh context".

Three generated dimensions the per-byte-string sweeps do not have:

* routine  -- Binary Ninja analyses a function the way `routine_violations` does: info callback for every instruction,
              ONE LowLevelILFunction for the whole routine in which a label is registered for every branch destination
              (plus generated other addresses) and which already contains the IL of the instructions lifted before, then
              text and IL callbacks per instruction.  The IL function argument is state the lifter can consult.
* stream   -- the exported streaming decoder `fusion(iter_decode(decoder, addr))` (`_create_decoder`) over a buffer of
              several instructions.  Every yielded instruction must be the instruction a stand-alone decode() finds at
              that offset (length, text, re-encoded bytes): "independent of anything decoded earlier".
* preempt  -- harness-owned schedule.  Callback A runs under a line tracer restricted to repository frames; at the
              k-th traced line (k generated, 0 <= k < lines of the uninterrupted run) thread A is parked and callback
              B runs to completion on a second thread (exactly a pre-emption of A by an analysis worker at that point),
              then A continues.  Both results must equal the uninterrupted results.  If B blocks (a lock held by A) A is
              resumed after a timeout and B joined afterwards, so a lock-protected implementation is not reported.
"""

from __future__ import annotations

import sys
import threading
from typing import Any, Callable, Dict, List, Optional, Tuple

from ..core import Violation, mix32
from .. import gen_enc as G

REPO_MARK = "/sc62015/"


# ---------------------------------------------------------------------------------------------- callbacks
def _exc(exc: BaseException) -> Tuple[str, str]:
    return ("EXC", type(exc).__name__)


def cb_call(cb: str, data: bytes, addr: int) -> Any:
    """Result encoding comparable with ==.  cb: info | text | il | rt (decode + encode round trip) | emu."""
    from binja_test_mocks.mock_llil import MockLowLevelILFunction

    a = G.arch()
    try:
        if cb == "info":
            info = a.get_instruction_info(bytes(data), addr)
            return None if info is None else int(info.length)
        if cb == "text":
            r = a.get_instruction_text(bytes(data), addr)
            if r is None:
                return None
            toks, ln = r
            return ("".join(str(getattr(t, "text", t)) for t in toks), int(ln))
        if cb == "il":
            il = MockLowLevelILFunction()
            ln = a.get_instruction_low_level_il(bytes(data), addr, il)
            return None if ln is None else (int(ln), len(il.ils))
        if cb == "rt":
            from sc62015.pysc62015.instr import decode, encode, OPCODES

            ins = decode(bytes(data), addr, OPCODES)
            if ins is None:
                return None
            return (int(ins.length()), bytes(encode(ins, addr)).hex())
        from sc62015.pysc62015.emulator import Emulator
        from binja_test_mocks.eval_llil import Memory

        buf = bytes(data)

        def rd(x: int) -> int:
            off = x - addr
            return buf[off] if 0 <= off < len(buf) else 0

        ins = Emulator(Memory(rd, lambda x, v: None), reset_on_init=False).decode_instruction(addr)
        return (str(ins.name()), int(ins.length()))
    except BaseException as exc:  # noqa: BLE001 - totality is part of the property
        return _exc(exc)


# ---------------------------------------------------------------------------------------------- preempt
def count_lines(fn: Callable[[], Any]) -> Tuple[Any, int]:
    return _traced(fn, None, -1)[0::2]


def _traced(fn_a: Callable[[], Any], fn_b: Optional[Callable[[], Any]], k: int) -> Tuple[Any, Any, int]:
    st: Dict[str, Any] = {"n": 0, "fired": False, "res_b": ("NOT-RUN",), "thread": None}

    def fire() -> None:
        st["fired"] = True

        def body() -> None:
            st["res_b"] = fn_b()  # type: ignore[misc]

        th = threading.Thread(target=body, daemon=True)
        st["thread"] = th
        th.start()
        th.join(5.0)

    def local(frame: Any, event: str, arg: Any) -> Any:
        if event == "line":
            if fn_b is not None and not st["fired"] and st["n"] == k:
                fire()
            st["n"] += 1
        return local

    def glob(frame: Any, event: str, arg: Any) -> Any:
        if REPO_MARK in frame.f_code.co_filename:
            return local
        return None

    old = sys.gettrace()
    sys.settrace(glob)
    try:
        res_a = fn_a()
    finally:
        sys.settrace(old)
    th = st["thread"]
    if th is not None and th.is_alive():
        th.join(30.0)
        if th.is_alive():
            st["res_b"] = ("BLOCKED",)
    return res_a, st["res_b"], st["n"]


def preempt_violations(prop: str, a: List[Any], b: List[Any], kfrac: int) -> Tuple[List[Violation], Dict[str, Any]]:
    """a, b = [cb, hexbytes, addr]; kfrac in 0..9999 selects the pre-emption line as a fraction of the traced run."""
    cba, hxa, ada = a
    cbb, hxb, adb = b
    da, db = bytes.fromhex(hxa), bytes.fromhex(hxb)
    want_a = cb_call(cba, da, ada)
    want_b = cb_call(cbb, db, adb)
    _, _, n = _traced(lambda: cb_call(cba, da, ada), None, -1)
    if n <= 0:
        return [], {"lines": 0}
    k = (kfrac * n) // 10000
    got_a, got_b, _ = _traced(lambda: cb_call(cba, da, ada), lambda: cb_call(cbb, db, adb), k)
    out: List[Violation] = []
    case = {"kind": "preempt", "a": [cba, hxa, ada], "b": [cbb, hxb, adb], "kfrac": kfrac}
    sub = "schedule"
    if got_a != want_a:
        sym = "pre-empted callback returns a different result than the uninterrupted call"
        if prop == "C02" and cba == "text" and got_a is None:
            sym = "valid instruction demoted to data when another decode runs in between"
        out.append(Violation(sub, f"{cba} pre-empted by {cbb}", sym, case,
                             f"{cba}({hxa} @ {ada:#x}) pre-empted at traced line {k}/{n} by {cbb}({hxb}): got {got_a}, "
                             f"uninterrupted {want_a}"))
    if got_b != want_b and got_b != ("BLOCKED",):
        out.append(Violation(sub, f"{cbb} while {cba} is suspended", "callback running while another is suspended mid-decode "
                             "returns a different result", case,
                             f"{cbb}({hxb} @ {adb:#x}) during suspended {cba}({hxa}) at line {k}/{n}: got {got_b}, alone {want_b}"))
    return out, {"lines": n, "k": k}


# ---------------------------------------------------------------------------------------------- stream
def stream_violations(prop: str, buf: bytes, addr: int) -> Tuple[List[Violation], int, int]:
    """Returns (violations, instructions yielded, how many yielded instructions follow a prefixed one)."""
    from sc62015.pysc62015.instr.opcodes import Decoder, _create_decoder
    from sc62015.pysc62015.instr import decode, encode, OPCODES
    from binja_test_mocks.tokens import asm_str

    out: List[Violation] = []
    case = {"kind": "stream", "data": buf.hex(), "addr": addr}
    off = 0
    n = 0
    after_pre = 0
    prev_pre = False
    streamed: List[Any] = []
    try:
        for ins, _a in _create_decoder(Decoder(bytearray(buf)), addr, OPCODES):
            alone = decode(bytes(buf[off:]), addr + off, OPCODES)
            if alone is None:
                out.append(Violation("stream", f"instruction #{n}", "stream yields an instruction where stand-alone decode rejects",
                                     case, f"offset {off}: stream={asm_str(ins.render())}"))
                break
            ln = int(alone.length())
            here = bytes(buf[off:off + ln])
            pre = " after a prefixed instruction" if prev_pre else ""
            if prop == "C01":
                if int(ins.length()) != ln:
                    out.append(Violation("stream", "streamed instruction" + pre, "length differs from the stand-alone decode of the same bytes",
                                         case, f"offset {off} bytes {here.hex()}: stream length {int(ins.length())}, stand-alone {ln}"))
                elif asm_str(ins.render()) != asm_str(alone.render()):
                    out.append(Violation("stream", "streamed instruction" + pre, "text differs from the stand-alone decode of the same bytes",
                                         case, f"offset {off}: '{asm_str(ins.render())}' vs '{asm_str(alone.render())}'"))
            else:
                try:
                    enc = bytes(encode(ins, addr + off))
                except BaseException as exc:  # noqa: BLE001
                    enc = None
                    out.append(Violation("stream", "streamed instruction" + pre, f"encode raises {type(exc).__name__}", case,
                                         f"offset {off} bytes {here.hex()}"))
                if enc is not None and (enc != here or int(ins.length()) != len(enc)):
                    out.append(Violation("stream", "streamed instruction" + pre,
                                         "re-encoded bytes / reported length differ from the bytes consumed", case,
                                         f"offset {off} consumed {here.hex()} re-encoded {enc.hex()} length() {int(ins.length())}"))
            if prev_pre:
                after_pre += 1
            prev_pre = here[:1] != b"" and here[0] in G.PRE_OPCODES
            off += ln
            n += 1
            if out:
                break
            streamed.append(ins)
    except BaseException as exc:  # noqa: BLE001
        if type(exc).__name__ not in ("NotImplementedError",):
            out.append(Violation("stream", "stream decoder", f"raises {type(exc).__name__}", case, f"at offset {off}: {str(exc)[:100]}"))
    if prop == "C02" and not out and streamed:
        # the decoded sequence encoded into ONE encoder (iter_encode) reproduces the consumed bytes
        from sc62015.pysc62015.instr import iter_encode

        try:
            whole = bytes(iter_encode(streamed, addr))
        except BaseException as exc:  # noqa: BLE001
            whole = None
            out.append(Violation("stream", "iter_encode of the streamed instructions", f"raises {type(exc).__name__}", case, str(exc)[:100]))
        if whole is not None and whole != bytes(buf[:off]):
            out.append(Violation("stream", "iter_encode of the streamed instructions", "differs from the bytes consumed", case,
                                 f"consumed {bytes(buf[:off]).hex()} re-encoded {whole.hex()}"))
    return out, n, after_pre


def gen_stream(seed: int, pool: List[bytes]) -> Tuple[bytes, int, int]:
    """Concatenation of 2..9 accepted encodings (prefixed ones weighted up), optional junk tail; returns (buf, addr, n)."""
    n = 2 + mix32(seed, 1) % 8
    parts = []
    prefixed = [p for p in pool if p[0] in G.PRE_OPCODES]
    for i in range(n):
        h = mix32(seed, 2, i)
        src = prefixed if (prefixed and h % 5 < 2) else pool
        parts.append(src[(h >> 8) % len(src)])
    # value coincidence across an instruction boundary: last byte of an instruction == prefix byte of the next one
    # (kept only if the patched instruction is still accepted with the same length)
    for i in range(1, len(parts)):
        if parts[i][0] in G.PRE_OPCODES and len(parts[i - 1]) >= 2 and mix32(seed, 5, i) % 3 == 0:
            cand = parts[i - 1][:-1] + bytes([parts[i][0]])
            if G.info_len(cand + G.NOP_PAD) == len(cand):
                parts[i - 1] = cand
    buf = b"".join(parts)
    h = mix32(seed, 3)
    if h % 4 == 0:
        buf += bytes(mix32(seed, 4, j) & 0xFF for j in range(1 + (h >> 8) % 3))
    addr = (0x0, 0x1000, 0x0FFF0, 0xFFF00, 0x12345)[(h >> 16) % 5]
    return buf, addr, n


# ---------------------------------------------------------------------------------------------- routine
def routine_violations(buf: bytes, base: int, extra_labels: List[int]) -> Tuple[List[Violation], int, int]:
    """Analyse `buf` at `base` the way Binary Ninja analyses a function. Returns (violations, n_instr, n_label_hits)."""
    from binja_test_mocks.mock_llil import MockLowLevelILFunction

    a = G.arch()
    out: List[Violation] = []
    case = {"kind": "routine", "data": buf.hex(), "addr": base, "labels": list(extra_labels)}
    instrs: List[Tuple[int, bytes, int]] = []
    targets = set(int(x) & 0xFFFFF for x in extra_labels)
    off = 0
    while off < len(buf):
        addr = base + off
        data = bytes(buf[off:off + 16])
        try:
            info = a.get_instruction_info(data, addr)
        except BaseException as exc:  # noqa: BLE001
            out.append(Violation("routine", "info: " + _where(data), f"raises {type(exc).__name__}", case, f"{data[:7].hex()} @ {addr:#x}"))
            return out, len(instrs), 0
        if info is None or not info.length:
            break
        ln = int(info.length)
        instrs.append((addr, data, ln))
        for br in getattr(info, "branches", None) or []:
            tgt = getattr(br, "target", None)
            if tgt is None and isinstance(br, tuple) and len(br) > 1:
                tgt = br[1]
            if isinstance(tgt, int):
                targets.add(tgt & 0xFFFFF)
        targets.add((addr + ln) & 0xFFFFF)  # fall-through block starts
        off += ln
    shared = MockLowLevelILFunction()
    for t in sorted(targets):
        shared.register_label_for_address(t)
    hits = 0
    for addr, data, ln in instrs:
        fresh = cb_call("il", data, addr)
        try:
            before = len(shared.ils)
            got = a.get_instruction_low_level_il(data, addr, shared)
            got = None if got is None else (int(got), len(shared.ils) - before)
        except BaseException as exc:  # noqa: BLE001
            got = _exc(exc)
        txt = cb_call("text", data, addr)
        hits += 1
        w = _where(data)
        if isinstance(got, tuple) and got[0] == "EXC":
            if got != fresh:
                out.append(Violation("routine", "il: " + w, f"raises {got[1]} when lifted into a routine's IL function "
                                     "(labels registered for block starts, earlier instructions already lifted)", case,
                                     f"{data[:ln].hex()} @ {addr:#x}: shared IL -> {got}, fresh IL -> {fresh}"))
                break
        elif got is None or got[0] != ln:
            if got is None and fresh is None:
                continue
            out.append(Violation("routine", "il: " + w, "length from the IL callback differs from info when lifted into a routine's IL function",
                                 case, f"{data[:ln].hex()} @ {addr:#x}: info {ln}, IL(shared) {got}, IL(fresh) {fresh}"))
            break
        if txt is None or (isinstance(txt, tuple) and (txt[0] == "EXC" or txt[1] != ln)):
            out.append(Violation("routine", "text: " + w, "text callback disagrees with info inside a routine sweep", case,
                                 f"{data[:ln].hex()} @ {addr:#x}: info {ln}, text {txt}"))
            break
    return out, len(instrs), hits


def _where(data: bytes) -> str:
    if not data:
        return "empty buffer"
    if data[0] in G.PRE_OPCODES:
        return f"PRE+opcode {data[1]:02X}" if len(data) > 1 else "PRE+opcode --"
    return f"opcode {data[0]:02X}"


BRANCHY = (0x02, 0x03, 0x04, 0x05, 0x06, 0x07, 0x10, 0x11, 0x12, 0x13, 0x14, 0x15, 0x16, 0x17, 0x18, 0x19, 0x1A, 0x1B,
           0x1C, 0x1D, 0x1E, 0x1F, 0x01)


def gen_routine(seed: int, pool: List[bytes]) -> Tuple[bytes, int, List[int]]:
    """3..12 instructions, about half of them direct jumps/calls/returns; relative jumps keep their generated
    displacement (targets inside or just outside the routine), absolute ones are re-pointed into the routine half the
    time so that registered block labels and jump destinations coincide."""
    n = 3 + mix32(seed, 1) % 10
    base = (0x21000, 0x0, 0x0FF80, 0xFFF80, 0x40000)[mix32(seed, 2) % 5]
    parts: List[bytearray] = []
    for i in range(n):
        h = mix32(seed, 3, i)
        if h % 2 == 0:
            op = BRANCHY[(h >> 4) % len(BRANCHY)]
            pre = (None, None, 0x32, 0x22, 0x30)[(h >> 12) % 5]
            tail = bytes(mix32(h, j) & 0xFF for j in range(4))
            if op in (0x12, 0x13) or 0x18 <= op <= 0x1F:
                tail = bytes([(h >> 16) % 24]) + tail[1:]  # short displacement: lands on or near an instruction start
            data = (bytes([pre]) if pre is not None else b"") + bytes([op]) + tail
            ln = G.info_len(data + G.NOP_PAD, base)
            if ln is None:
                data = bytes([op]) + tail
                ln = G.info_len(data + G.NOP_PAD, base)
            if ln is None:
                continue
            parts.append(bytearray(data[:ln]))
        else:
            parts.append(bytearray(pool[(h >> 8) % len(pool)]))
    if not parts:
        parts.append(bytearray(b"\x00"))
    starts = []
    off = 0
    for p in parts:
        starts.append(off)
        off += len(p)
    # re-point 16/20-bit absolute jump/call operands at instruction starts of this routine
    for i, p in enumerate(parts):
        h = mix32(seed, 5, i)
        o = 1 if p[0] in G.PRE_OPCODES else 0
        op = p[o] if len(p) > o else 0
        if h % 2 == 0 and op in (0x02, 0x04, 0x14, 0x15, 0x16, 0x17) and len(p) >= o + 3:
            t = (base + starts[(h >> 8) % len(starts)]) & 0xFFFFF
            p[o + 1], p[o + 2] = t & 0xFF, (t >> 8) & 0xFF
        elif h % 2 == 0 and op in (0x03, 0x05) and len(p) >= o + 4:
            t = (base + starts[(h >> 8) % len(starts)]) & 0xFFFFF
            p[o + 1], p[o + 2], p[o + 3] = t & 0xFF, (t >> 8) & 0xFF, (t >> 16) & 0x0F
    buf = b"".join(bytes(p) for p in parts)
    extra = [(base + mix32(seed, 6, j) % (len(buf) + 4)) & 0xFFFFF for j in range(mix32(seed, 7) % 4)]
    return buf, base, extra


# ---------------------------------------------------------------------------------------------- after a rejected operation
FAIL_KINDS = ("encode-bad-value", "iter-encode-good-then-bad", "decode-invalid", "decode-truncated", "text-invalid")


def rejected_operation(kind: str, victim: bytes, addr: int, seed: int) -> bool:
    """Perform one operation that the code is expected to reject (raise / return None). Returns True if it was rejected."""
    from sc62015.pysc62015.instr import decode, encode, iter_encode, OPCODES

    a = G.arch()
    try:
        if kind in ("encode-bad-value", "iter-encode-good-then-bad"):
            ins = decode(bytes(victim) + G.NOP_PAD, addr, OPCODES)
            if ins is None:
                return False
            patched = False
            for op in ins.operands():
                for holder in (op, getattr(op, "imem", None), getattr(op, "offset", None)):
                    if holder is not None and isinstance(getattr(holder, "value", None), int) and not isinstance(getattr(holder, "value"), bool):
                        holder.value = (0x1FFFFFFF, -1, 0x1FF)[mix32(seed, 7) % 3]
                        patched = True
                        break
                if patched:
                    break
            if not patched:
                return False
            if kind == "encode-bad-value":
                encode(ins, addr)
            else:
                good = decode(bytes.fromhex("7dec") + G.NOP_PAD, addr, OPCODES)
                iter_encode([good, ins], addr)
            return False  # accepted the patched value: nothing was rejected
        if kind == "decode-invalid":
            bad = (bytes([0x56, 0x04, 0x10]), bytes([0x5E, 0x00, 0x10]), bytes([0xE3, 0x00, 0x10]), bytes([0x32, 0x32, 0x00]),
                   bytes([0x20, 0x00]))[mix32(seed, 8) % 5]
            return decode(bad + G.NOP_PAD, addr, OPCODES) is None
        if kind == "decode-truncated":
            return decode(bytes(victim[:max(1, len(victim) - 1)]), addr, OPCODES) is None
        bad = (bytes([0x56, 0x04, 0x10]), bytes([0xE3, 0x00, 0x10]))[mix32(seed, 9) % 2]
        return a.get_instruction_text(bad + G.NOP_PAD, addr) is None
    except BaseException:  # noqa: BLE001 - a raised error is a rejection
        return True
