"""C13, machine level: the timers as the two machines tick them while *executing instructions*.

Plain flavour: a small program (NOP, `MV IL,n` + WAIT, HALT, final `JR -2` self-loop) sits in RAM at 0xB8100,
IMR = 0 so no interrupt is ever delivered (ticking is therefore never suppressed), and the machine is stepped one
instruction at a time:

  py-machine    pce500.emulator.PCE500Emulator.step            (+ save_snapshot/load_snapshot at generated points)
  rust-machine  sc62015_core::CoreRuntime::step                 (+ save_snapshot/load_snapshot through the zip shim)

Between steps the harness may clear ISR bits (firmware acknowledging).  The two machines tick at different
points of a step (Python at the start of the next step, Rust at the end of this one; DESIGN appendix A), so the
verdicts are per machine and indifferent to that one-cycle latency.  With C the cycle counter after a step, p
the period, grid = base + k*p and nb(x) the smallest grid point > x, for an active timer:

  * the target is on the grid, never moves backwards, and  nb(C-1) <= target <= nb(C)
    (no boundary <= C-1 is left unconsumed -- none skipped, however many cycles the step took; and no boundary
    beyond C has been consumed -- none fired early);
  * the target moved during the step  ==>  the status bit is set after the step   (firing sets the bit);
  * the target did not move and the bit was clear before the step  ==>  it is still clear (no firing without a
    boundary);  an inactive timer (disabled / zero period) never gets its bit set;
  * save -> load into a fresh machine changes neither cycle counter, ISR nor targets.

"irq" flavour (interrupts unmasked): main program (looping), handler (.. RETI) and both vectors live in a ROM image,
IMR is generated, interrupts are delivered, and save/load round trips and machine resets also happen while a handler
runs.  Both machines gate the timers while in_interrupt, so inside a handler the cycle counter runs ahead of the
targets; the first tick after RETI catches up.  Per step the harness observes whether the step's instruction ran
inside a handler ("in_exec").  The lower bound nb(C-1) <= target is asserted for in_exec = false only (every cycle
of an instruction outside a handler is ticked -- this is what sees a WAIT that stops ticking early); the other
rules hold everywhere, except that a pending status bit may be cleared inside a handler (CoreRuntime's RETI
acknowledges the delivered request).  save -> load keeps a target that lies *behind* the cycle counter
(where tag " stale-target"); a machine reset re-arms the timers one period after the machine's own cycle counter
and the grid is re-anchored there.

Keyboard dimension (every second run of either flavour, own value stream): the host strobes keyboard columns, holds
keys down and releases them on the machines' real keyboard matrices (CoreRuntime scans the matrix whenever MTI fires,
so a debounced key asserts KEYI on the very tick a timer fires; PCE500Emulator scans once per instruction), harness
acknowledgements may clear KEYI too, the keyboard interrupt enable is a configuration, and the program may
acknowledge requests itself with MV (ISR),v (v without timer bits).  The verdicts are unchanged -- in particular
"the target moved during the step ==> the status bit is set after the step" -- except in a step that executed such a
store (observed: address of the executed instruction): there ISR bits 0/1 are not judged on PCE500Emulator (tick
first, store second) and only "fired ==> bit set" is kept on CoreRuntime (store first, tick second).

Bulk entry points (round 4): the hosts do not single-step, they call PCE500Emulator.run(n) / CoreRuntime::step(n).
A "run" flavour case is an irq-flavour case (firmware-style idle loops: MV (ISR),v + HALT, WAITs, NOPs; handler;
IMR generated) that carries "chunkings": ways to chop the same instruction sequence into bulk calls (sizes 1..50,
uniform or mixed; host actions -- acknowledgements, snapshots, resets, key activity -- only between calls).  The case is
executed single-stepped (judged as above) and once per chunking with ONE run(n)/step(n) call per chunk; at the end of
every chunk cycle counter, next targets and ISR bits 0/1 must equal what single-stepping the same implementation
produced after the same number of instructions, and (PCE500Emulator, where the real TimerScheduler.advance calls are
recorded) the timers must have fired at the same cycles: the firing sequence is a function of the cycles that went
by, not of how the host chops execution into calls.
"""

from __future__ import annotations

import os
from typing import Any, Dict, List, Optional, Tuple

from ..core import ROOT, HarnessError, Violation, mix32
from ..gen_state import Stream
from .. import rsclient

BASE = 0xB8100
NOP, WAIT, HALT, MV_IL, RETI, JR_BACK = 0x00, 0xEF, 0xDE, 0x09, 0x01, 0x13
JR_SELF = (0x13, 0x02)
PRE_DIRECT, MV_IMEM_IMM, ISR_OFF = 0x32, 0xCC, 0xFC     # 32 CC FC vv = MV (ISR),vv  (firmware acknowledging requests)
ISR_STORE = (PRE_DIRECT, MV_IMEM_IMM, ISR_OFF)
# "irq" flavour: main program, interrupt handler and both vectors in a ROM image (a RAM program would be wiped by
# PCE500Emulator.reset(), and without a ROM overlay the Python machine's vector fetch at 0xFFFFA aliases IMEM)
ROM_BASE, ROM_SIZE = 0xC0000, 0x40000
MAIN, HANDLER = 0xC0100, 0xC0800
IRQ_VECTOR, RESET_VECTOR = 0xFFFFA, 0xFFFFD
STACK_TOP = 0xBFF00
I32MAX = 2 ** 31 - 1
TIMERS = ("MTI", "STI")

_checked = False
RUST_TIMEOUT_S = 600.0
PY_CASE_TIMEOUT_S = 300


def rust_call(req: Dict[str, Any], timeout: float = RUST_TIMEOUT_S) -> Dict[str, Any]:
    """rsclient.Rust.call with a watchdog: a spinning implementation must end as a harness error (exit 2), not
    as a hung check.  (Generated histories bound every loop for a correct implementation.)"""
    import json
    import select
    import time

    rust = rsclient.shared()
    proc = rust.proc
    data = (json.dumps(req, separators=(",", ":")) + "\n").encode()
    try:
        proc.stdin.write(data)
        proc.stdin.flush()
    except (BrokenPipeError, OSError) as exc:
        raise HarnessError(f"rust harness pipe failed: {exc!r}")
    fd = proc.stdout.fileno()
    buf = b""
    deadline = time.time() + timeout
    while not buf.endswith(b"\n"):
        left = deadline - time.time()
        r = select.select([fd], [], [], max(0.0, left))[0] if left > 0 else []
        if not r:
            proc.kill()
            raise HarnessError(f"rust harness did not answer {req.get('cmd')} within {timeout:.0f} s "
                               f"(implementation spinning?)")
        chunk = os.read(fd, 1 << 20)
        if not chunk:
            raise HarnessError(f"rust harness died (rc={proc.poll()}) on {req.get('cmd')}")
        buf += chunk
    return json.loads(buf)


class py_watchdog:
    """SIGALRM watchdog around code under test running in this process (same reasoning as rust_call)."""

    def __init__(self, what: str, seconds: int = PY_CASE_TIMEOUT_S) -> None:
        self.what, self.seconds = what, seconds

    def _fire(self, *_: Any) -> None:
        raise HarnessError(f"{self.what} did not finish within {self.seconds} s (implementation spinning?)")

    def __enter__(self) -> "py_watchdog":
        import signal

        self.old = signal.signal(signal.SIGALRM, self._fire)
        signal.alarm(self.seconds)
        return self

    def __exit__(self, *a: Any) -> None:
        import signal

        signal.alarm(0)
        signal.signal(signal.SIGALRM, self.old)


def selftest() -> None:
    """The hand-encoded templates must mean what we think they mean -- asked of the repository's own decoder."""
    global _checked
    if _checked:
        return
    from .. import textparse as TP

    want = {bytes([NOP]): ("NOP", 1), bytes([WAIT]): ("WAIT", 1), bytes([HALT]): ("HALT", 1),
            bytes([MV_IL, 5]): ("MV", 2), bytes(JR_SELF): ("JR", 2), bytes([RETI]): ("RETI", 1),
            bytes([JR_BACK, 0x21]): ("JR", 2), bytes(ISR_STORE + (0x04,)): ("MV", 4)}
    for code, (mn, ln) in want.items():
        r = TP.tokens(code + b"\x00" * 8)
        if r is None or TP.mnemonic(r[0]) != mn or r[1] != ln:
            raise HarnessError(f"machine-layer template {code.hex()} does not decode as {mn}/{ln}: {r}")
    r = TP.tokens(bytes([MV_IL, 5]) + b"\x00" * 8)
    if "IL" not in "".join(t[1] for t in r[0]):
        raise HarnessError("template 09 nn is not MV IL,n")
    r = TP.tokens(bytes(ISR_STORE + (0x04,)) + b"\x00" * 8)
    txt = "".join(t[1] for t in r[0]).replace(" ", "")
    if "(ISR),04" not in txt:
        raise HarnessError(f"template 32 CC FC nn is not MV (ISR),n: {txt}")
    _checked = True


def gen_machine_case(seed: int, mti: int, sti: int, enabled: bool, idx: int, snapshots: bool,
                     timer_base: Optional[int] = None) -> Dict[str, Any]:
    st = Stream(seed, 0xC13AC, mti, sti, idx, int(enabled))
    ps = [p for p in (mti, sti) if p > 0] or [3]
    prog: List[int] = []
    nblocks = 4 + st.below(8)
    for _ in range(nblocks):
        k = st.below(10)
        if k <= 2:
            prog += [NOP] * (1 + st.below(4))
        elif k <= 6:
            p = st.choice(ps)
            n = st.choice((1, 1, 2, max(1, p - 2), max(1, p - 1), p, p + 1, 2 * p, 2 * p + 1, 3 * p + 1,
                           1 + st.below(40), 255, 1 + st.below(255)))
            if st.chance(1, 60):
                n = 0   # Python burns 65536 cycles for WAIT with I = 0 (Rust none): a long multi-period step
            prog += [MV_IL, min(255, n), WAIT]
        elif k <= 8:
            prog += [HALT]
            if st.chance(1, 2):
                prog += [NOP]
        else:
            prog += [NOP, HALT, HALT]
    prog += list(JR_SELF)
    nsteps = 24 + st.below(50)
    clear_mode = st.below(4)   # 0: never acknowledge, 1: often, 2: every step, 3: rarely
    steps: List[List[int]] = []
    snap_at = (3 + st.below(nsteps - 4)) if snapshots else -1
    for k in range(nsteps):
        if clear_mode == 0:
            clear = 0
        elif clear_mode == 1:
            clear = st.choice((0, 0, 3, 3, 1, 2))
        elif clear_mode == 2:
            clear = 3
        else:
            clear = 3 if st.chance(1, 7) else 0
        steps.append([clear, 1 if k == snap_at else 0])
    case = {"layer": "machine", "mti": mti, "sti": sti, "enabled": enabled, "prog": prog, "steps": steps}
    if timer_base is not None:
        # The runtime's cycle counter cannot be set through the public API, so the only cheap way to put a next
        # target beyond 2^31-1 into a real CoreRuntime/PCE500Emulator is to anchor the timer grid there
        # (TimerContext::reset / TimerScheduler.reset).  Nothing fires in such a run; it exists to push the
        # real save_snapshot/load_snapshot code path over large targets.
        case["timer_base"] = timer_base
    return case


IMR_CHOICES = (0x83, 0x83, 0x83, 0x81, 0x82, 0x81, 0x82, 0xFF, 0x80, 0x03, 0x00)


def gen_irq_case(seed: int, mti: int, sti: int, enabled: bool, idx: int, snapshots: bool,
                 resets: bool) -> Dict[str, Any]:
    """Interrupts are *not* masked: IMR is a generated dimension (IRM with one/both timer sources, IRM only, sources
    without IRM, 0), the main program loops over NOP / MV IL,n+WAIT / HALT blocks (WAIT lengths reach over several
    boundaries of either timer), the handler is NOP runs and its own WAITs ending in RETI (from 'return at once'
    to 'outlasts several periods'), and real save/load round trips and machine resets happen at generated steps --
    also inside the handler, where the timers are gated and a saved target may lie behind the cycle counter."""
    st = Stream(seed, 0xC131E, mti, sti, idx, int(enabled))
    ps = [p for p in (mti, sti) if p > 0] or [3]
    lo_p, hi_p = min(ps), max(ps)

    def wait_len() -> int:
        p = st.choice(ps)
        return min(255, max(1, st.choice((1, 2, p - 1, p, p + 1, 2 * p, 2 * p + 1, 3 * p + 1, lo_p + hi_p,
                                          2 * hi_p + 1, hi_p + 1, 1 + st.below(40), 255, 1 + st.below(255)))))

    prog: List[int] = []
    for _ in range(3 + st.below(6)):
        k = st.below(10)
        if k <= 2:
            prog += [NOP] * (1 + st.below(4))
        elif k <= 7:
            prog += [MV_IL, wait_len(), WAIT]
        else:
            prog += [HALT]
            if st.chance(1, 2):
                prog += [NOP]
    prog += [JR_BACK, len(prog) + 2]            # JR back to the first instruction
    handler: List[int] = []
    shape = st.below(8)
    if shape == 0:
        pass                                       # RETI at once
    elif shape <= 2:
        handler += [NOP] * (1 + st.below(6))       # short
    else:
        for _ in range(1 + st.below(3)):
            if st.chance(1, 3):
                handler += [NOP] * (1 + st.below(5))
            p = st.choice(ps)
            n = st.choice((1, 2, max(1, p - 2), max(1, p - 1), p, p + 1, 2 * p + 1, hi_p + 1, lo_p + hi_p,
                           1 + st.below(40)))
            handler += [MV_IL, min(255, n), WAIT]
        handler += [MV_IL, 1 + st.below(3)]        # leave I != 0 for an interrupted MV IL,n / WAIT pair
    handler += [RETI]
    nsteps = 40 + st.below(80)
    clear_mode = st.below(4)
    steps: List[List[int]] = []
    nsnap = nreset = 0
    for k in range(nsteps):
        if clear_mode == 0:
            clear = 0
        elif clear_mode == 1:
            clear = st.choice((0, 0, 3, 3, 1, 2))
        elif clear_mode == 2:
            clear = 3
        else:
            clear = 3 if st.chance(1, 7) else 0
        action = 0
        if k >= 3:
            if snapshots and nsnap < 5 and st.chance(1, 9):
                action, nsnap = 1, nsnap + 1
            elif resets and nreset < 2 and st.chance(1, 25):
                action, nreset = 2, nreset + 1
        steps.append([clear, action])
    return {"layer": "machine", "flavour": "irq", "mti": mti, "sti": sti, "enabled": enabled, "prog": prog,
            "handler": handler, "imr": st.choice(IMR_CHOICES), "steps": steps}


CHUNK_SIZES = (1, 1, 2, 2, 3, 3, 5, 7, 7, 13, 20, 50)
UNIFORM_CHUNKS = (2, 3, 7, 50)


def gen_run_case(seed: int, mti: int, sti: int, enabled: bool, idx: int, snapshots: bool,
                 resets: bool) -> Dict[str, Any]:
    """'run' flavour: the hosts' bulk entry points.  Same machine set-up as the irq flavour (ROM image, looping main
    program, handler, vectors, IMR generated -- masked and unmasked), the main program is a firmware-style idle loop
    (acknowledge ISR with MV (ISR),v, HALT, now and then WAITs / NOP runs), the handler may acknowledge at its entry.
    The step list is generated chunk by chunk: host actions (acknowledgements, snapshot round trips, resets) sit on the
    first step of a chunk only, so the same case can be executed with one run(n)/step(n) call per chunk and,
    as the reference, single-stepped.  A second chunking is uniform (n = 2, 3, 7 or 50, cut at host actions)."""
    st = Stream(seed, 0xC134B, mti, sti, idx, int(enabled))
    ps = [p for p in (mti, sti) if p > 0] or [3]
    lo_p, hi_p = min(ps), max(ps)

    def wait_len() -> int:
        p = st.choice(ps)
        return min(255, max(1, st.choice((1, 2, p - 1, p, p + 1, 2 * p + 1, lo_p + hi_p, hi_p + 1,
                                          1 + st.below(40)))))

    def ack() -> List[int]:
        return list(ISR_STORE) + [st.choice((0, 0, 0, 0, 0, 0, 0, st.u32() & 0xF8))]

    prog: List[int] = []
    idle_style = st.below(4)          # 0: every HALT is preceded by an acknowledgement, 1-2: most, 3: few
    for _ in range(2 + st.below(5)):
        k = st.below(10)
        if k <= 1:
            prog += [NOP] * (1 + st.below(4))
        elif k <= 3:
            prog += [MV_IL, wait_len(), WAIT]
        else:
            if idle_style == 0 or (idle_style <= 2 and st.chance(3, 4)) or st.chance(1, 4):
                prog += ack()
            prog += [HALT]
            if st.chance(1, 3):
                prog += [NOP]
    if HALT not in prog:
        prog += ack() + [HALT]
    prog += [JR_BACK, len(prog) + 2]
    handler: List[int] = []
    if st.chance(1, 2):
        handler += ack()
    shape = st.below(8)
    if shape == 0:
        pass
    elif shape <= 3:
        handler += [NOP] * (1 + st.below(8))
    else:
        for _ in range(1 + st.below(3)):
            if st.chance(1, 3):
                handler += [NOP] * (1 + st.below(5))
            p = st.choice(ps)
            n = st.choice((1, 2, max(1, p - 1), p, p + 1, 2 * p + 1, hi_p + 1, lo_p + hi_p, 1 + st.below(40)))
            handler += [MV_IL, min(255, n), WAIT]
        handler += [MV_IL, 1 + st.below(3)]
    handler += [RETI]
    nsteps = 60 + st.below(160)
    clear_mode = st.below(4)
    size_mode = st.below(4)           # 0: mixed sizes, 1: mostly long calls, 2: one size, 3: mixed with a tail call
    one = st.choice((2, 3, 5, 7, 13, 50))
    steps: List[List[int]] = []
    chunks: List[int] = []
    nsnap = nreset = 0
    while len(steps) < nsteps:
        left = nsteps - len(steps)
        if size_mode == 1:
            n = st.choice((13, 20, 50, 50, 7))
        elif size_mode == 2:
            n = one
        elif size_mode == 3 and len(chunks) >= 3 and st.chance(1, 6):
            n = left
        else:
            n = st.choice(CHUNK_SIZES)
        n = min(n, left)
        if clear_mode == 0:
            clear = 0
        elif clear_mode == 1:
            clear = st.choice((0, 0, 3, 3, 1, 2))
        elif clear_mode == 2:
            clear = 3
        else:
            clear = 3 if st.chance(1, 5) else 0
        action = 0
        if chunks:
            if snapshots and nsnap < 4 and st.chance(1, 6):
                action, nsnap = 1, nsnap + 1
            elif resets and nreset < 2 and st.chance(1, 14):
                action, nreset = 2, nreset + 1
        steps.append([clear, action])
        steps.extend([0, 0] for _ in range(n - 1))
        chunks.append(n)
    return {"layer": "machine", "flavour": "irq", "bulk": True, "mti": mti, "sti": sti, "enabled": enabled,
            "prog": prog, "handler": handler, "imr": st.choice(IMR_CHOICES), "steps": steps,
            "chunkings": [chunks, [st.choice(UNIFORM_CHUNKS)]]}


def _host_action(stp: List[Any]) -> bool:
    return bool(int(stp[0]) or int(stp[1]) or (len(stp) > 2 and stp[2]))


def chunk_plan(steps: List[List[Any]], sizes: List[int]) -> List[int]:
    """Effective call sizes for a chunking: the size list is cycled over the step list (a one-element list means a
    uniform chunking), cut at the end of the steps and at every step that carries a host action (those happen between
    calls only).  Whatever steps / sizes a shrink or a hand-written replay case contains, the plan is executable."""
    sizes = [max(1, int(n)) for n in sizes] or [1]
    out: List[int] = []
    k, i = 0, 0
    while k < len(steps):
        n = min(sizes[i % len(sizes)], len(steps) - k)
        m = 1
        while m < n and not _host_action(steps[k + m]):
            m += 1
        out.append(m)
        k += m
        i += 1
    return out


def _boundaries(code: List[int]) -> List[int]:
    """instruction boundaries of a generated code sequence (templates: 09 nn, 13 nn, 32 CC FC nn, else 1 byte)"""
    out, i = [], 0
    while i < len(code):
        out.append(i)
        b = code[i]
        i += 2 if b in (MV_IL, JR_BACK) else (4 if b == PRE_DIRECT else 1)
    out.append(len(code))
    return out


KEY_NAMES = ("KEY_F1", "KEY_A", "KEY_ENTER", "KEY_Q", "KEY_SPACE")
ISR_KEYI = 0x04


def add_keyboard(case: Dict[str, Any], seed: int, tag: int, idx: int) -> Dict[str, Any]:
    """Keyboard dimension of a machine run (own value stream, the rest of the case is left as generated): in every
    second run the host strobes keyboard columns, holds keys down / releases them at generated steps (a held key on a
    strobed column is debounced by the machines' keyboard scans -- CoreRuntime scans whenever MTI fires -- and then
    asserts KEYI in the middle of a step), the harness-level acknowledgements may also clear KEYI (a latched KEYI is
    then re-asserted), and the keyboard interrupt enable is a configuration (off in 1 of 8).  A step becomes
    [clear mask, action, key ops] with key ops = [["kd"|"ku", key name] | ["kol"|"koh", value], ...]."""
    st = Stream(seed, 0xC13CB, int(case["mti"]), int(case["sti"]), idx, tag, int(bool(case["enabled"])))
    if st.below(2):
        return case
    steps = [list(x) for x in case["steps"]]
    n = len(steps)
    kops: Dict[int, List[List[Any]]] = {}
    strobe = st.below(8)
    if strobe <= 5:
        kops.setdefault(0, []).extend([["kol", 0xFF], ["koh", 0x07]])
    elif strobe == 6:
        kops.setdefault(0, []).extend([["kol", st.u32() & 0xFF], ["koh", st.u32() & 0x07]])
    # strobe == 7: columns as the machine leaves them at power-on
    down: List[str] = []
    k = st.below(6)
    while k < n:
        if down and st.chance(1, 2):
            name = down.pop(st.below(len(down)))
            kops.setdefault(k, []).append(["ku", name])
        else:
            name = st.choice(KEY_NAMES)
            if name not in down:
                down.append(name)
            kops.setdefault(k, []).append(["kd", name])
        if st.chance(1, 12):
            kops.setdefault(k, []).extend([["kol", st.choice((0xFF, 0x00, st.u32() & 0xFF))]])
        k += 1 + st.below(max(2, n // 3))
    # firmware acknowledging requests by its own store: MV (ISR),v with v = 0 / KEYI kept / upper bits only (never
    # sets a timer status bit), inserted at instruction boundaries of the main program and, in the irq flavour, at
    # the handler's entry -- the store and the timer tick of the same instruction then meet inside one step
    prog = list(case["prog"])
    handler = list(case["handler"]) if "handler" in case else None

    def store() -> List[int]:
        return list(ISR_STORE) + [st.choice((0, 0, 0, ISR_KEYI, st.u32() & 0xF8, st.u32() & 0xFC))]

    if st.below(3) != 0:
        tail, body = prog[-2:], prog[:-2]
        for _ in range(1 + st.below(3)):
            bounds = _boundaries(body)
            at = st.choice(bounds)
            body[at:at] = store()
        if handler is not None:
            tail = [JR_BACK, len(body) + 2]             # irq flavour: JR back to the first instruction
        prog = body + tail
        if handler is not None and st.chance(1, 3):
            handler = store() + handler
    ack_keyi = st.below(3)     # 0: KEYI is never acknowledged by the harness, 1: together with timer bits, 2: often
    for i, stp in enumerate(steps):
        if ack_keyi == 1 and stp[0]:
            stp[0] |= ISR_KEYI
        elif ack_keyi == 2 and st.chance(1, 3):
            stp[0] |= ISR_KEYI
        if i in kops:
            while len(stp) < 2:
                stp.append(0)
            stp.append(kops[i])
    out = dict(case, steps=steps, keys=True, prog=prog)
    if handler is not None:
        out["handler"] = handler
    if st.below(8) == 0:
        out["kbirq"] = False
    return out


def gen_from_config(seed: int, cfg: Tuple[Any, ...]) -> Dict[str, Any]:
    if cfg and cfg[0] == "run":
        case = gen_run_case(seed, *cfg[1:])
        if mix32(seed, int(cfg[1]), int(cfg[2]), int(cfg[4]), 0x4B2) % 2 == 0:
            # key activity between calls (every host action cuts the chunk it falls into, see chunk_plan)
            case = add_keyboard(case, seed, 2, int(cfg[4]))
        return case
    if cfg and cfg[0] == "irq":
        return add_keyboard(gen_irq_case(seed, *cfg[1:]), seed, 1, int(cfg[4]))
    return add_keyboard(gen_machine_case(seed, *cfg), seed, 0, int(cfg[3]))


def plan(seed: int, tier: str) -> List[Tuple[Any, ...]]:
    out: List[Tuple[Any, ...]] = []
    per_pair = 2 if tier == "quick" else 24
    for mti in range(13):
        for sti in range(13):
            for i in range(per_pair):
                h = mix32(seed, mti, sti, i, 0x3AC)
                out.append((mti, sti, (h % 9) != 0, i, (h >> 8) % 6 == 0))
    st = Stream(seed, 0x3AC2)
    for i in range(80 if tier == "quick" else 1500):
        a = st.below(4)
        big = lambda: st.choice((13, 16, 17, 31, 32, 33, 64, 100, 127, 128, 200, 255, 256, 257, 300, 600, 2048))
        mti, sti = ((big(), 0), (0, big()), (big(), big()), (1 + st.below(12), big()))[a]
        out.append((mti, sti, st.below(10) != 0, 1000 + i, st.below(5) == 0))
    for i, (mti, sti) in enumerate(((1, 0), (0, 3), (5, 7), (2048, 512000), (12, 1), (I32MAX, 9))):
        out.append((mti, sti, True, 5000 + i, True, I32MAX - 4 + st.below(40)))
    # interrupts unmasked, handlers, snapshots inside handlers, machine resets
    per_pair = 2 if tier == "quick" else 12
    for mti in range(13):
        for sti in range(13):
            for i in range(per_pair):
                h = mix32(seed, mti, sti, i, 0x1E9)
                out.append(("irq", mti, sti, (h % 11) != 0, i, (h >> 8) % 2 == 0, (h >> 12) % 3 == 0))
    st = Stream(seed, 0x3AC3)
    for i in range(60 if tier == "quick" else 800):
        a = st.below(4)
        big = lambda: st.choice((13, 16, 17, 31, 32, 33, 64, 100, 127, 128, 200, 255, 256, 257, 300))
        mti, sti = ((big(), 0), (0, big()), (big(), big()), (1 + st.below(12), big()))[a]
        out.append(("irq", mti, sti, st.below(12) != 0, 1000 + i, st.below(2) == 0, st.below(3) == 0))
    # bulk entry points: run(n) / step(n) against single stepping (round 4)
    per_pair = 1 if tier == "quick" else 4
    for mti in range(13):
        for sti in range(13):
            for i in range(per_pair):
                h = mix32(seed, mti, sti, i, 0x4B1)
                out.append(("run", mti, sti, (h % 13) != 0, i, (h >> 8) % 3 == 0, (h >> 12) % 4 == 0))
    st = Stream(seed, 0x3AC4)
    for i in range(40 if tier == "quick" else 300):
        a = st.below(4)
        big = lambda: st.choice((13, 16, 17, 31, 32, 33, 64, 100, 127, 128, 200, 255, 256, 257, 300))
        mti, sti = ((big(), 0), (0, big()), (big(), big()), (1 + st.below(12), big()))[a]
        out.append(("run", mti, sti, st.below(14) != 0, 1000 + i, st.below(3) == 0, st.below(4) == 0))
    return out


# --------------------------------------------------------------------------------------------------

def rom_segments(case: Dict[str, Any]) -> List[Tuple[int, List[int]]]:
    return [(MAIN, list(case["prog"])), (HANDLER, list(case["handler"])),
            (IRQ_VECTOR, list(HANDLER.to_bytes(3, "little"))), (RESET_VECTOR, list(MAIN.to_bytes(3, "little")))]


def rom_image(case: Dict[str, Any]) -> bytes:
    img = bytearray(ROM_SIZE)
    for addr, data in rom_segments(case):
        img[addr - ROM_BASE:addr - ROM_BASE + len(data)] = bytes(data)
    return bytes(img)


def is_irq(case: Dict[str, Any]) -> bool:
    return case.get("flavour") == "irq"


def run_py_machine(case: Dict[str, Any], snap_path: str, chunks: Optional[List[int]] = None) -> Any:
    """chunks = None: one PCE500Emulator.step() per step.  chunks = effective call sizes (chunk_plan): the host
    actions of the first step of a chunk, then ONE PCE500Emulator.run(n) call, one observation per chunk."""
    from pce500.emulator import PCE500Emulator
    from sc62015.pysc62015.emulator import RegisterName
    from sc62015.pysc62015.constants import INTERNAL_MEMORY_START
    from sc62015.pysc62015.instr.opcodes import IMEMRegisters

    isr_addr = INTERNAL_MEMORY_START + int(IMEMRegisters.ISR)
    imr_addr = INTERNAL_MEMORY_START + int(IMEMRegisters.IMR)
    irq = is_irq(case)
    image = rom_image(case) if irq else None
    start_pc = MAIN if irq else BASE
    imr = int(case.get("imr", 0)) & 0xFF
    exec_flags: List[bool] = []
    exec_pcs: List[int] = []
    fires: List[List[int]] = []

    def fresh() -> Any:
        e = PCE500Emulator(perfetto_trace=False, save_lcd_on_exit=False)
        if image is not None:
            e.load_rom(image)          # the ROM is part of the machine, not of a snapshot
        orig = e.cpu.execute_instruction
        sched = e._scheduler
        sched_advance = type(sched).advance

        def advance(cycle_count: int, _s: Any = sched, _orig: Any = sched_advance) -> Any:
            # observation only: at which cycles did the real TimerScheduler.advance report a firing?
            got = list(_orig(_s, cycle_count))
            fl = 0
            for src in got:
                name = str(getattr(src, "name", src)).upper()
                fl |= 1 if "MTI" in name else (2 if "STI" in name else 4)
            if fl:
                fires.append([int(cycle_count), fl])
            return got

        sched.advance = advance        # instance attribute, this emulator's scheduler only

        def execute_instruction(pc: int, _e: Any = e, _orig: Any = orig) -> Any:
            # observation only: was the instruction executed inside an interrupt handler?
            exec_flags.append(bool(getattr(_e, "_in_interrupt", False)))
            exec_pcs.append(int(pc) & 0xFFFFFF)
            return _orig(pc)

        e.cpu.execute_instruction = execute_instruction   # instance attribute, this emulator only
        return e

    emu = fresh()
    if not irq:
        for i, b in enumerate(case["prog"]):
            emu.memory.write_byte(BASE + i, b)
    emu.cpu.regs.set(RegisterName.PC, start_pc)
    emu.cpu.regs.set(RegisterName.S, STACK_TOP)
    emu.memory.write_byte(imr_addr, imr)
    emu.memory.write_byte(isr_addr, 0)
    emu._timer_mti_period = int(case["mti"])
    emu._timer_sti_period = int(case["sti"])
    emu._timer_enabled = bool(case["enabled"])
    emu._scheduler.reset(cycle_base=int(case.get("timer_base", emu.cycle_count)))
    obs: List[Any] = []

    def look() -> List[Any]:
        return [int(emu.cycle_count), emu.memory.read_byte(isr_addr) & 0xFF, int(emu._scheduler.next_mti),
                int(emu._scheduler.next_sti), bool(getattr(emu.cpu.state, "halted", False)),
                int(emu.cpu.regs.get(RegisterName.PC)), bool(emu._in_interrupt),
                int(emu.irq_counts.get("total", 0))]

    if "kbirq" in case:
        emu._kb_irq_enabled = bool(case["kbirq"])     # a snapshot field; the maintainers' tests set it directly

    all_steps = case["steps"]
    if chunks is None:
        calls = [(k, None) for k in range(len(all_steps))]
    else:
        calls, k = [], 0
        for n in chunks:
            if k >= len(all_steps):
                break
            calls.append((k, int(n)))
            k += int(n)
    for k0, bulk in calls:
        stp = all_steps[k0]
        clear, action = int(stp[0]), int(stp[1])
        if clear:
            cur = emu.memory.read_byte(isr_addr) & 0xFF
            emu.memory.write_byte(isr_addr, cur & ~clear & 0xFF)
        if action == 1:
            emu.save_snapshot(snap_path)
            emu = fresh()
            emu.load_snapshot(snap_path)
            obs.append({"restored": look()})
        elif action == 2:
            emu.reset()                                    # the real machine reset, after N > 0 cycles
            if not irq:
                for i, b in enumerate(case["prog"]):       # PCE500Memory.reset() zeroes RAM
                    emu.memory.write_byte(BASE + i, b)
                emu.cpu.regs.set(RegisterName.PC, start_pc)
            emu.cpu.regs.set(RegisterName.S, STACK_TOP)
            emu.memory.write_byte(imr_addr, imr)
            emu.memory.write_byte(isr_addr, 0)
            obs.append({"reset": look()})
        for kop in (stp[2] if len(stp) > 2 else ()):
            if kop[0] == "kd":
                emu.press_key(str(kop[1]))
            elif kop[0] == "ku":
                emu.release_key(str(kop[1]))
            elif kop[0] == "kol":
                emu.memory.write_byte(INTERNAL_MEMORY_START + 0xF0, int(kop[1]) & 0xFF)
            elif kop[0] == "koh":
                emu.memory.write_byte(INTERNAL_MEMORY_START + 0xF1, int(kop[1]) & 0xFF)
            else:
                raise HarnessError(f"bad key op {kop!r}")
        in_before = bool(emu._in_interrupt)
        del exec_flags[:]
        del exec_pcs[:]
        del fires[:]
        if bulk is None:
            emu.step()
        else:
            emu.run(bulk)              # the bulk entry point: up to `bulk` instructions in one call
        # [.., in_exec, address of the instruction this step executed (None: none, e.g. idle HALT cycle),
        #  instructions asked of this call, [[cycle, fired timers], ...] reported by the scheduler during it]
        obs.append(look() + [exec_flags[-1] if exec_flags else in_before, exec_pcs[-1] if exec_pcs else None,
                             1 if bulk is None else bulk, [list(f) for f in fires]])
    return {"obs": obs}


def run_rust_machine(cases: List[Dict[str, Any]], snap_path: str,
                     plans: Optional[List[Optional[List[int]]]] = None) -> List[Any]:
    """plans[i] = None: CoreRuntime::step(1) per step; else the effective call sizes: one step(n) call per chunk."""
    out: List[Any] = []
    for i in range(0, len(cases), 32):
        reqs = []
        for j, c in enumerate(cases[i:i + 32]):
            r = dict({k: c[k] for k in ("mti", "sti", "enabled", "prog", "steps")}, base=BASE, snap_path=snap_path,
                     stack=STACK_TOP)
            if plans is not None and plans[i + j] is not None:
                r["chunks"] = list(plans[i + j])
            if "timer_base" in c:
                r["timer_base"] = c["timer_base"]
            if "kbirq" in c:
                r["kbirq"] = bool(c["kbirq"])
            if is_irq(c):
                r["base"] = MAIN
                r["imr"] = int(c.get("imr", 0)) & 0xFF
                r["rom"] = {"base": ROM_BASE, "size": ROM_SIZE, "segs": [[a, d] for a, d in rom_segments(c)]}
            reqs.append(r)
        resp = rust_call({"cmd": "c13.machine", "cases": reqs})
        if not resp.get("ok"):
            raise HarnessError(f"c13.machine failed: {str(resp)[:300]}")
        out.extend(resp["results"])
    return out


def _nb(x: int, base: int, p: int) -> int:
    """smallest grid point base + k*p (k >= 1) that is > x"""
    if x < base:
        return base + p
    return base + ((x - base) // p + 1) * p


def judge_machine(case: Dict[str, Any], impl: str, res: Any) -> Tuple[List[Violation], Dict[str, Any]]:
    out: List[Violation] = []
    facts = {"fires": 0, "halt_idle": 0, "wait_multi": 0, "steps": 0, "max_step_cycles": 0, "deliveries": 0,
             "handler_steps": 0, "snap_in_handler": 0, "stale_restore": 0, "wait_unmasked_multi": 0,
             "catch_up_after_handler": 0, "reset_after_run": 0, "derailed": 0, "keyi_rise": 0,
             "keyi_rise_with_fresh_fire": 0, "isr_store_steps": 0, "isr_store_fire": 0}
    if not isinstance(res, dict) or "obs" not in res or res.get("error") or res.get("panic"):
        msg = str(res.get("panic") or res.get("error") if isinstance(res, dict) else res)
        out.append(Violation("crash", impl, "machine raised/panicked", case, msg[:300]))
        return out, facts
    periods = (int(case["mti"]), int(case["sti"]))
    active = [bool(case["enabled"]) and p > 0 for p in periods]
    base = int(case.get("timer_base", 0))
    hi = base + max(periods) > I32MAX
    irq = is_irq(case)
    imr = int(case.get("imr", 0)) & 0xFF
    regions = ((MAIN, MAIN + len(case["prog"])), (HANDLER, HANDLER + len(case["handler"]))) if irq else ()
    code: Dict[int, int] = {}
    for a0, data in (rom_segments(case)[:2] if irq else [(BASE, list(case["prog"]))]):
        for i, b in enumerate(data):
            code[a0 + i] = int(b)
    dead = [False, False]
    after_snap = False
    prev: Optional[List[Any]] = None     # observation after the previous step
    steps = case["steps"]
    it = iter(res["obs"])
    nxt0 = [base + p if a else None for p, a in zip(periods, active)]
    last_next = list(nxt0)
    last_isr = 0
    last_c = 0
    last_in = False
    last_irqs = 0
    prev_exec = False

    def fail(ti: int, subcheck: str, symptom: str, detail: str, k: int, full: bool = False,
             stale: bool = False) -> None:
        if dead[ti]:
            return
        dead[ti] = True
        ctx = ((" after-snapshot" if after_snap else "") + (" stale-target" if full and stale else "")
               + (" targets>i32" if full and hi else ""))
        out.append(Violation(subcheck, f"{impl}:{TIMERS[ti]}{ctx}", symptom, case,
                             f"step#{k} (mti={case['mti']} sti={case['sti']} enabled={case['enabled']}"
                             f"{' imr=%#04x' % imr if irq else ''}): {detail}"))

    for k, stp in enumerate(steps):
        clear, action = int(stp[0]), int(stp[1])
        isr_before = last_isr & ~clear & 0xFF
        if action == 1:
            o = next(it, None)
            if not isinstance(o, dict) or "restored" not in o:
                out.append(Violation("crash", impl, "observation stream out of step", case, f"step#{k}: {o!r}"))
                return out, facts
            r = o["restored"]
            after_snap = True
            if last_in:
                facts["snap_in_handler"] += 1
            for ti in range(2):
                if not active[ti]:
                    continue
                stale = last_next[ti] <= last_c      # saved target not in the future: timers were gated
                if stale:
                    facts["stale_restore"] += 1
                if r[2 + ti] != last_next[ti]:
                    fail(ti, "restore", "snapshot/restore changed the next target",
                         f"save->load at cycle {last_c} (in handler: {last_in}): target {r[2 + ti]}, "
                         f"before {last_next[ti]}", k, True, stale)
            if r[0] != last_c and not (dead[0] and dead[1]):
                out.append(Violation("restore", f"{impl}:cycle-counter", "snapshot/restore changed the cycle counter",
                                     case, f"step#{k}: cycle {r[0]} after load, {last_c} before save"))
                return out, facts
            if (r[1] ^ isr_before) & 3:
                out.append(Violation("restore", f"{impl}:ISR", "snapshot/restore changed ISR bits 0/1", case,
                                     f"step#{k}: ISR {r[1]:#04x} after load, {isr_before:#04x} before save"))
                return out, facts
        elif action == 2:
            o = next(it, None)
            if not isinstance(o, dict) or "reset" not in o:
                out.append(Violation("crash", impl, "observation stream out of step", case, f"step#{k}: {o!r}"))
                return out, facts
            r = o["reset"]
            c0 = int(r[0])
            if last_c > 0:
                facts["reset_after_run"] += 1
            after_snap = False
            for ti in range(2):
                if active[ti] and int(r[2 + ti]) - c0 != periods[ti]:
                    fail(ti, "reset", "machine reset did not re-arm the timer one period after the cycle counter",
                         f"reset after {last_c} cycles: cycle counter {c0}, target {r[2 + ti]}, "
                         f"expected {c0 + periods[ti]}", k)
                last_next[ti] = int(r[2 + ti]) if active[ti] else None
            # the grid is re-anchored at the machine's own cycle counter at the moment of the reset
            base, last_c, isr_before, last_in, prev = c0, c0, int(r[1]) & 0xFF, bool(r[6]), None
            last_irqs = int(r[7])
            prev_exec = False
        o = next(it, None)
        if not isinstance(o, list):
            out.append(Violation("crash", impl, "observation stream out of step", case, f"step#{k}: {o!r}"))
            return out, facts
        c, isr = int(o[0]), int(o[1])
        in_after = bool(o[6]) if len(o) > 6 else False
        irqs = int(o[7]) if len(o) > 7 else 0
        # in_exec: the instruction of this step ran inside an interrupt handler, i.e. with the timers gated
        in_exec = bool(o[8]) if len(o) > 8 else False
        # the instruction of this step is the program's own ISR acknowledgement (MV (ISR),v; v never has a timer bit):
        # the two machines order that store and the timer tick of the step differently (Python ticks first, CoreRuntime
        # stores first), so the ISR timer bits after such a step say nothing about firing -- not judged for this step
        xpc = o[9] if len(o) > 9 else None
        isr_store = xpc is not None and tuple(code.get(int(xpc) + i) for i in range(3)) == ISR_STORE
        if isr_store:
            facts["isr_store_steps"] += 1
        if irq and not any(lo_ <= int(o[5]) <= hi_ for lo_, hi_ in regions):
            # the program counter left main program and handler: nothing generated is being executed any more
            # (vectoring/stack problems are C12's subject); stop judging this run
            facts["derailed"] = 1
            break
        facts["steps"] += 1
        facts["max_step_cycles"] = max(facts["max_step_cycles"], c - last_c)
        facts["deliveries"] += max(0, irqs - last_irqs)
        if in_exec:
            facts["handler_steps"] += 1
        if o[4] and prev is not None and prev[4]:
            facts["halt_idle"] += 1
        crossed_total = 0
        keyi_rose = bool(isr & ISR_KEYI) and not (isr_before & ISR_KEYI)
        if keyi_rose:
            facts["keyi_rise"] += 1
        for ti in range(2):
            bit = 1 << ti
            p = periods[ti]
            was = bool(isr_before & bit)
            now = bool(isr & bit)
            if not active[ti]:
                if now and not was:
                    why = "disabled scheduler" if not case["enabled"] else "zero period"
                    fail(ti, "never-fires", f"inactive timer set its status bit ({why})",
                         f"cycle {last_c}->{c}: ISR {isr_before:#04x} -> {isr:#04x}", k)
                continue
            tgt = int(o[2 + ti])
            old = last_next[ti]
            lo, hi_b = _nb(c - 1, base, p), _nb(c, base, p)
            moved = tgt != old
            if moved:
                facts["fires"] += 1
                if keyi_rose and not was:
                    # KEYI was asserted during the very step in which this timer fired with its status bit clear
                    facts["keyi_rise_with_fresh_fire"] += 1
                crossed_total += max(1, (tgt - old) // p)
                if (tgt - old) // p > 1:
                    facts["wait_multi"] += 1
                if prev_exec and not in_exec and old <= last_c:
                    facts["catch_up_after_handler"] += 1
            if (tgt - base) % p != 0 or tgt <= base:
                fail(ti, "next-target", "next target is off the period grid",
                     f"cycle {last_c}->{c}: target {tgt}, grid {base}+k*{p}", k)
            elif tgt < old:
                fail(ti, "next-target", "next target moved backwards", f"cycle {last_c}->{c}: target {old} -> {tgt}", k)
            elif tgt < lo and not in_exec:
                # an instruction executed outside a handler: every one of its cycles is ticked
                fail(ti, "cadence", "boundary crossed but not consumed by the end of the step",
                     f"cycle {last_c}->{c}: target still {tgt} although cycle {c - 1} has passed "
                     f"(halted={o[4]}, step took {c - last_c} cycle(s), in handler after the step: {in_after})", k)
            elif tgt > hi_b:
                fail(ti, "cadence", "boundary consumed before the cycle counter reached it",
                     f"cycle {last_c}->{c}: target {tgt}, smallest boundary > {c} is {hi_b}", k)
            elif isr_store:
                if moved:
                    facts["isr_store_fire"] += 1
                    if impl == "rust-machine" and not now:
                        # CoreRuntime executes the store first and ticks the instruction's cycle afterwards (lib.rs
                        # step: executor.execute, then the per-cycle tick loop), so a timer that fired during this
                        # step has set its bit after the store
                        fail(ti, "status-bit", "fired but status bit not set",
                             f"cycle {last_c}->{c}: target {old} -> {tgt}, ISR {isr_before:#04x} -> {isr:#04x} "
                             f"(step executed MV (ISR),{code.get(int(xpc) + 3, 0):#04x})", k)
            elif moved and not now:
                fail(ti, "status-bit", "fired but status bit not set",
                     f"cycle {last_c}->{c}: target {old} -> {tgt}, ISR {isr_before:#04x} -> {isr:#04x}", k)
            elif not moved and now and not was:
                fail(ti, "status-bit", "status bit set without firing",
                     f"cycle {last_c}->{c}: target stays {tgt}, ISR {isr_before:#04x} -> {isr:#04x}", k)
            elif was and not now and not in_exec:
                # (inside a handler the program acknowledges requests: CoreRuntime's RETI clears the delivered bit)
                fail(ti, "status-bit", "step cleared a pending status bit",
                     f"cycle {last_c}->{c}: ISR {isr_before:#04x} -> {isr:#04x} outside any handler", k)
            last_next[ti] = tgt
        if (irq and not in_exec and c - last_c > 1 and crossed_total >= 2 and (imr & 0x80)
                and (imr & 3 & sum(1 << i for i in range(2) if active[i]))):
            facts["wait_unmasked_multi"] += 1
        last_isr, last_c, prev, last_in, last_irqs, prev_exec = isr, c, o, in_after, irqs, in_exec
    return out, facts


BULK_NAME = {"py-machine": "PCE500Emulator.run(n)", "rust-machine": "CoreRuntime::step(n)"}


def judge_chunking(case: Dict[str, Any], sizes: List[int], plan_: List[int], impl: str, single: Any,
                   bulk: Any) -> Tuple[List[Violation], Dict[str, Any]]:
    """The same instruction sequence, once single-stepped and once through the bulk entry point with one call per
    chunk, on the SAME implementation.  At the end of every chunk the timers must be where single stepping left them
    after the same number of instructions: cycle counter, next targets of the active timers, ISR bits 0/1, and (where
    the harness can see the scheduler's own reports: PCE500Emulator) the cycles at which the timers fired during the
    chunk.  Grounding: the statement quantifies over the ways the *cycle counter* advances; how the host chops the
    instruction stream into run()/step() calls is not one of them (run(n) is `while count < n: step()`,
    step(n) is `for _ in 0..n`), so the firing sequence may not depend on it.  Only the first differing chunk is
    reported (per timer).  Nothing is judged once the single-stepped reference left the generated program or once the
    cycle counters differ while the timers agree (cycle accounting is not C13's subject)."""
    out: List[Violation] = []
    facts = {"bulk_calls": 0, "bulk_max": 0, "bulk_delivery_mid_call": 0, "bulk_handler_fire_window": 0,
             "bulk_halt_idle": 0, "bulk_fire_in_halt_idle": 0, "bulk_fire_mid_call": 0, "bulk_other_mismatch": 0,
             "bulk_calls_compared": 0, "bulk_offgrid_pair": 0}
    vcase = dict(case, chunkings=[list(sizes)])

    def ok(res: Any) -> bool:
        return isinstance(res, dict) and "obs" in res and not res.get("error") and not res.get("panic")

    if not ok(single):
        return out, facts                       # reported by judge_machine
    if not ok(bulk):
        msg = str(bulk.get("panic") or bulk.get("error") if isinstance(bulk, dict) else bulk)
        out.append(Violation("crash", impl, "machine raised/panicked in bulk execution", vcase, msg[:300]))
        return out, facts
    periods = (int(case["mti"]), int(case["sti"]))
    active = [bool(case["enabled"]) and p > 0 for p in periods]
    irq = is_irq(case)
    regions = ((MAIN, MAIN + len(case["prog"])), (HANDLER, HANDLER + len(case["handler"]))) if irq else ()
    per_step = [o for o in single["obs"] if isinstance(o, list)]
    per_call = [o for o in bulk["obs"] if isinstance(o, list)]
    if len(per_step) != len(case["steps"]) or len(per_call) != len(plan_):
        out.append(Violation("crash", impl, "observation stream out of step", vcase,
                             f"{len(per_step)} step / {len(per_call)} call observations for {len(case['steps'])} "
                             f"steps / {len(plan_)} calls"))
        return out, facts
    dead = [False, False]
    k = 0
    prev: Optional[List[Any]] = None
    for ci, n in enumerate(plan_):
        seg = per_step[k:k + n]
        ref, got = seg[-1], per_call[ci]
        if irq and any(not any(lo_ <= int(o[5]) <= hi_ for lo_, hi_ in regions) for o in seg):
            break                               # the reference left main program and handler: not judged further
        if n > 1:
            facts["bulk_calls"] += 1
            facts["bulk_max"] = max(facts["bulk_max"], n)
            irqs0 = int(prev[7]) if prev is not None else 0
            tg0 = [int(prev[2 + ti]) if prev is not None else None for ti in range(2)]
            delivered_at = None
            for j, o in enumerate(seg):
                moved = [ti for ti in range(2) if active[ti] and tg0[ti] is not None and int(o[2 + ti]) != tg0[ti]]
                if moved and j < n - 1:
                    facts["bulk_fire_mid_call"] += 1
                was_halted = bool((seg[j - 1] if j else (prev or o))[4])
                if was_halted and bool(o[4]):
                    facts["bulk_halt_idle"] += 1
                if moved and was_halted:
                    facts["bulk_fire_in_halt_idle"] += 1
                    if len(moved) == 1 and all(active):
                        # one timer fired in an idle HALT cycle on which the other one has no boundary
                        facts["bulk_offgrid_pair"] += 1
                if int(o[7]) > irqs0 and delivered_at is None and j < n - 1:
                    delivered_at = j
                    facts["bulk_delivery_mid_call"] += 1
                irqs0 = int(o[7])
                tg0 = [int(o[2 + ti]) for ti in range(2)]
            if delivered_at is not None:
                # a boundary of an active timer went by inside the handler before the call returned
                # (gated: the target of an active timer lies behind the cycle counter while the handler still runs)
                if any(bool(o[6]) and any(active[ti] and int(o[0]) >= int(o[2 + ti]) for ti in range(2))
                       for o in seg[delivered_at:]):
                    facts["bulk_handler_fire_window"] += 1
        facts["bulk_calls_compared"] += 1
        where_call = (f"call#{ci} = {BULK_NAME.get(impl, impl)} with n={n} covering steps {k}..{k + n - 1} "
                      f"(mti={case['mti']} sti={case['sti']} enabled={case['enabled']}"
                      f"{' imr=%#04x' % (int(case.get('imr', 0)) & 0xFF) if irq else ''})")
        differs = False
        for ti in range(2):
            if not active[ti] or dead[ti]:
                continue
            bit = 1 << ti
            symptom = None
            if int(got[2 + ti]) != int(ref[2 + ti]):
                symptom = "bulk execution left a different next target than single-stepping the same instructions"
                detail = f"target {got[2 + ti]} after the call, {ref[2 + ti]} single-stepped"
            elif (int(got[1]) ^ int(ref[1])) & bit:
                symptom = "bulk execution left a different status bit than single-stepping the same instructions"
                detail = f"ISR {int(got[1]):#04x} after the call, {int(ref[1]):#04x} single-stepped"
            elif len(got) > 11 and all(len(o) > 11 for o in seg):
                f_ref = [f[0] for o in seg for f in o[11] if f[1] & bit]
                f_got = [f[0] for f in got[11] if f[1] & bit]
                if f_ref != f_got:
                    symptom = "bulk execution fired at different cycles than single-stepping the same instructions"
                    detail = f"fired at cycles {f_got[:8]}, single-stepped at {f_ref[:8]}"
            if symptom is not None:
                differs = True
                dead[ti] = True
                out.append(Violation("chunking", f"{impl}:{TIMERS[ti]}", symptom, vcase,
                                     f"{where_call}: {detail}; cycle counter {got[0]} / {ref[0]}, halted {got[4]} / "
                                     f"{ref[4]}, pc {int(got[5]):#x} / {int(ref[5]):#x}, in handler {got[6]} / "
                                     f"{ref[6]}, deliveries {got[7]} / {ref[7]} (bulk / single-stepped)"))
        if dead[0] and dead[1]:
            break
        if differs or any(dead):
            # a timer already went its own way: the continuation is no longer the same cycle sequence
            break
        if int(got[0]) != int(ref[0]) or [got[i] for i in (4, 5, 6, 7)] != [ref[i] for i in (4, 5, 6, 7)]:
            facts["bulk_other_mismatch"] += 1
            break
        prev = ref
        k += n
    return out, facts


def snap_path_for(tag: str) -> str:
    d = os.path.join(ROOT, "rust", "target", "c13-tmp")
    os.makedirs(d, exist_ok=True)
    return os.path.join(d, f"{tag}-{os.getpid()}.pcsnap")


def evaluate_machine(cases: List[Dict[str, Any]]) -> List[Tuple[List[Violation], Dict[str, Any]]]:
    selftest()
    sp_rs, sp_py = snap_path_for("rs"), snap_path_for("py")
    rs_all = run_rust_machine(cases, sp_rs)
    # bulk entry points: every chunking of a case is one more execution on each machine
    bulk_jobs: List[Tuple[int, List[int], List[int]]] = []
    for ci, case in enumerate(cases):
        for sizes in case.get("chunkings", ()):
            bulk_jobs.append((ci, list(sizes), chunk_plan(case["steps"], list(sizes))))
    rs_bulk = (run_rust_machine([cases[ci] for ci, _, _ in bulk_jobs], sp_rs, [pl for _, _, pl in bulk_jobs])
               if bulk_jobs else [])

    def py_run(case: Dict[str, Any], plan_: Optional[List[int]]) -> Any:
        try:
            with py_watchdog("PCE500Emulator machine history"):
                return run_py_machine(case, sp_py, plan_)
        except HarnessError:
            raise
        except Exception as exc:  # noqa: BLE001
            return {"error": f"{type(exc).__name__}: {exc}"}

    res: List[Tuple[List[Violation], Dict[str, Any]]] = []
    for ci, (case, rs) in enumerate(zip(cases, rs_all)):
        py = py_run(case, None)
        v1, f1 = judge_machine(case, "py-machine", py)
        v2, f2 = judge_machine(case, "rust-machine", rs)
        facts = {k: max(f1.get(k, 0), f2.get(k, 0)) for k in set(f1) | set(f2)}
        vs = v1 + v2
        for (cj, sizes, plan_), rsb in zip(bulk_jobs, rs_bulk):
            if cj != ci:
                continue
            v3, f3 = judge_chunking(case, sizes, plan_, "py-machine", py, py_run(case, plan_))
            v4, f4 = judge_chunking(case, sizes, plan_, "rust-machine", rs, rsb)
            vs += v3 + v4
            for k in set(f3) | set(f4):
                facts[k] = facts.get(k, 0) + max(f3.get(k, 0), f4.get(k, 0))
        res.append((vs, facts))
    for p in (sp_rs, sp_py):
        try:
            os.remove(p)
        except OSError:
            pass
    return res
