"""C13, round 5 -- host life-cycle layer ("live" cases).

Two generated dimensions that rounds 1-4 held constant:

* flavour "rollback" (PCE500Emulator): every earlier restore went into a *fresh* object at the *same* point of the
  history with the snapshot exactly as the same process wrote it.  Here a snapshot is captured with the real
  `save_snapshot`, the *same live instance* keeps running (timers fire, status bits are acknowledged or left
  pending), and later the real `load_snapshot` rolls that used instance back (or, for contrast, a fresh one is
  loaded).  The snapshot file is a generated input, too: the optional metadata entries `load_snapshot` reads with a
  default / an isinstance guard (what another producer -- the Rust core's InterruptInfo has no `halted`,
  `key_irq_latched`, `last_imem_values` -- or an older version of the emulator would not have written) are dropped
  in generated subsets.  Afterwards the timers are ticked through `_tick_timers()` per cycle and with gaps and judged
  by the usual verdicts (cadence / next-target / status-bit / restore) against the arithmetic reference, whose
  state (grid anchor, last ticked cycle) is rolled back with the snapshot.

* flavour "async" (Rust): the public *device task* entry point `AsyncTimerKeyboardTask::run` / `run_for` on an
  `AsyncDriver` -- "ticked every cycle" by a scheduler the host does not single-step -- with the host acting on
  the shared `CoreRuntime` between driver slices: ISR acknowledgements, `timer.reset(now)`, period reprogramming +
  reset, snapshot round trips at one point and restores of *earlier* `snapshot_info()`s (targets nearer than, or
  behind, the ones the task last saw).  After every slice the timers must be where per-cycle ticking leaves them.

Reference (closed form) as in c13.py: boundaries base + k*p, a tick at c fires iff floor((c-base)/p) >
floor((mark-base)/p), next target = smallest boundary > c.
"""

from __future__ import annotations

import json
import os
import zipfile
from typing import Any, Dict, List, Optional, Tuple

from ..core import HarnessError, Violation, jhash, mix32
from ..gen_state import Stream
from . import c13_machine as M

TIMERS = ("MTI", "STI")
# entries of the snapshot metadata that PCE500Emulator.load_snapshot treats as optional (default / guard)
OPTIONAL_INTERRUPT_KEYS = ("irq_counts", "last_irq", "irq_bit_watch", "halted", "key_irq_latched",
                           "last_imem_values")
RUST_ABSENT_KEYS = ("halted", "key_irq_latched", "last_imem_values")   # not in the Rust core's InterruptInfo
OPTIONAL_TOP_KEYS = ("kb_metrics",)

ASSUMPTIONS = [
    "live/rollback: PCE500Emulator.load_snapshot of a file written by save_snapshot earlier in the same history "
    "brings back cycle counter, next targets and ISR (IMEM is part of the snapshot) whether it is loaded into the "
    "used instance that wrote it or into a fresh one; the reference's grid anchor and last-ticked cycle are rolled "
    "back with it; metadata entries that load_snapshot reads with a default or behind an isinstance/in guard "
    "(interrupts.irq_counts/last_irq/irq_bit_watch/halted/key_irq_latched/last_imem_values, kb_metrics) may be "
    "absent (the Rust core's InterruptInfo has no halted/key_irq_latched/last_imem_values) without any effect on "
    "the timers; ticks go through _tick_timers() with cycle_count set by the harness (as py-emu does)",
    "live/async: AsyncTimerKeyboardTask::run / run_for(N >= cycles driven) ticks CoreRuntime once per driver cycle "
    "(async_devices.rs; maintainers' test async_timer_task_fires_mti), so after driver.run_for() has processed every "
    "wake-up <= c the timers are where ticks at every cycle <= c leave them; firing is observed through the next "
    "target moving and ISR bits 0/1; host actions happen between driver slices; timer.reset(now) anchors the grid at "
    "now (next = now + period, timer.rs reset()), also after the host wrote new periods into the public period "
    "fields; apply_snapshot_info keeps the saved absolute targets ('do not rebase forward. Allow immediate fire if "
    "targets are in the past'), so after restoring an earlier snapshot_info() the first tick fires once if >= 1 "
    "boundary of the restored grid lies at or before it; cycles stay far below 2^31 (the i32 clamp finding cannot "
    "occur); in_interrupt gating, keyboard activity and the OFF state are not generated here",
]


class RefTimer:
    __slots__ = ("p", "enabled", "base", "mark")

    def __init__(self, p: int, enabled: bool) -> None:
        self.p, self.enabled, self.base, self.mark = int(p), bool(enabled), 0, 0

    @property
    def active(self) -> bool:
        return self.enabled and self.p > 0

    def reset(self, b: int) -> None:
        self.base = self.mark = b

    def nxt(self) -> Optional[int]:
        if not self.active:
            return None
        return self.base + ((self.mark - self.base) // self.p + 1) * self.p

    def tick(self, c: int) -> int:
        """boundaries crossed by ticking up to cycle c"""
        if not self.active:
            return 0
        k0 = (self.mark - self.base) // self.p
        k1 = (c - self.base) // self.p
        if c > self.mark:
            self.mark = c
        return max(0, k1 - k0)

    def state(self) -> Tuple[int, int, int]:
        return (self.p, self.base, self.mark)

    def load(self, s: Tuple[int, int, int]) -> None:
        self.p, self.base, self.mark = s


def _new_facts() -> Dict[str, Any]:
    return {"fires": 0, "rollbacks": 0, "rollback_used": 0, "rollback_fresh": 0, "dropped": 0, "rust_like": 0,
            "pending_cleared_by_rollback": 0, "fire_after_rollback": 0, "stale_restore": 0,
            "earlier_target_rearm": 0, "catch_up_after_rearm": 0, "reprogram": 0, "reset": 0, "same_point": 0,
            "ticks": 0, "multi_cycle_slice": 0}


# --------------------------------------------------------------------------------------------------
# flavour "rollback": PCE500Emulator, real save_snapshot / load_snapshot on a used instance
# --------------------------------------------------------------------------------------------------

def _rewrite_snapshot(src: str, dst: str, drop: List[str]) -> None:
    with zipfile.ZipFile(src) as zin, zipfile.ZipFile(dst, "w") as zout:
        for item in zin.infolist():
            data = zin.read(item.filename)
            if item.filename == "snapshot.json":
                doc = json.loads(data)
                intr = doc.get("interrupts")
                if not isinstance(intr, dict):
                    raise HarnessError("snapshot.json has no 'interrupts' block (snapshot layout changed)")
                for key in drop:
                    if key in OPTIONAL_TOP_KEYS:
                        doc.pop(key, None)
                    elif key in OPTIONAL_INTERRUPT_KEYS:
                        intr.pop(key, None)
                    else:
                        raise HarnessError(f"not an optional snapshot entry: {key!r}")
                data = json.dumps(doc).encode()
            zout.writestr(item, data)


def run_rollback(case: Dict[str, Any]) -> Tuple[List[Violation], Dict[str, Any]]:
    from . import c13 as C

    facts = _new_facts()
    out: List[Violation] = []
    k = C._emu_consts()
    isr_addr = k["isr"]
    emu = C._new_emu()
    log: List[Tuple[int, int]] = []
    emu._timer_mti_period = int(case["mti"])
    emu._timer_sti_period = int(case["sti"])
    emu._timer_enabled = bool(case["enabled"])
    emu._scheduler.reset(cycle_base=0)
    emu.memory.write_byte(isr_addr, int(case.get("isr0", 0)) & 0xFF)
    C._record_advance(emu, log)
    ref = [RefTimer(case["mti"], case["enabled"]), RefTimer(case["sti"], case["enabled"])]
    last = 0
    tag = ""
    slots: Dict[int, Dict[str, Any]] = {}
    pending_lost = [False, False]     # bit was pending on the live machine and clear in the snapshot rolled back to

    def targets() -> List[int]:
        return [int(emu._scheduler.next_mti), int(emu._scheduler.next_sti)]

    def isr() -> int:
        return emu.memory.read_byte(isr_addr) & 0xFF

    def V(sub: str, who: str, sym: str, detail: str) -> None:
        out.append(Violation(sub, f"py-emu-live:{who}{tag}", sym, case, detail))

    def one_tick(c: int, opi: int) -> None:
        nonlocal last
        before = isr()
        prev = targets()
        emu.cycle_count = c
        del log[:]
        emu._tick_timers()
        flags = 0
        for _, fl in log:
            flags |= fl
        last = c
        after = isr()
        got = targets()
        facts["ticks"] += 1
        for i, name in enumerate(TIMERS):
            bit = 1 << i
            crossed = ref[i].tick(c)
            fired = bool(flags & bit)
            d = (f"op {opi} tick at cycle {c}: {name} period {ref[i].p}, grid anchored at {ref[i].base}, crossed "
                 f"{crossed} boundaries, advance() flags {flags:#x}, target {prev[i]} -> {got[i]}, "
                 f"ISR {before:#04x} -> {after:#04x}")
            if not ref[i].active:
                if fired or (after & bit and not before & bit):
                    V("never-fires", name, "inactive timer fired", d)
                continue
            if crossed and fired:
                facts["fires"] += 1
                if tag == " after-rollback":
                    facts["fire_after_rollback"] += 1
            if crossed and not fired:
                V("cadence", name, "boundary crossed but not fired", d)
            elif fired and not crossed:
                V("cadence", name, "fired without a boundary crossed", d)
            if got[i] <= c:
                V("next-target", name, "not strictly in the future", d)
            elif got[i] != ref[i].nxt():
                V("next-target", name, "not the smallest boundary after the tick", d)
            if fired and not after & bit:
                V("status-bit", name, "fired but status bit not set", d)
            elif not fired and (after & bit) and not (before & bit):
                V("status-bit", name, "status bit set without firing", d)
            elif (before & bit) and not (after & bit):
                V("status-bit", name, "tick cleared a pending bit", d)
        if (before ^ after) & 0xFC:
            V("status-bit", "other-bits", "tick changed ISR bits 2..7", f"op {opi}: ISR {before:#04x} -> {after:#04x}")

    for opi, op in enumerate(case["ops"]):
        verb = op[0]
        if verb == "t":
            one_tick(int(op[1]), opi)
        elif verb == "b":
            for _ in range(int(op[1])):
                one_tick(last + 1, opi)
                if out:
                    break
        elif verb == "w":
            emu.memory.write_byte(isr_addr, int(op[1]) & 0xFF)
        elif verb == "c":
            slot = int(op[1])
            path = M.snap_path_for(f"live{slot}")
            emu.cycle_count = last
            emu.save_snapshot(path)
            slots[slot] = {"path": path, "ref": [r.state() for r in ref], "last": last, "targets": targets(),
                           "isr": isr()}
        elif verb == "L":
            slot, drop, fresh = int(op[1]), list(op[2]), bool(op[3])
            if slot not in slots:
                raise HarnessError(f"live case loads empty slot {slot}")
            sv = slots[slot]
            path = sv["path"]
            if drop:
                path2 = M.snap_path_for("live-rewritten")
                _rewrite_snapshot(path, path2, drop)
                path = path2
                facts["dropped"] += 1
                if all(key in drop for key in RUST_ABSENT_KEYS):
                    facts["rust_like"] += 1
            cur = isr()
            lost = [bool(cur & (1 << i)) and not (sv["isr"] & (1 << i)) for i in range(2)]
            if fresh:
                emu = C._new_emu()
                C._record_advance(emu, log)
                facts["rollback_fresh"] += 1
                tag = " after-snapshot" if tag != " after-rollback" else tag
            else:
                facts["rollback_used"] += 1
                tag = " after-rollback"
                if any(lost):
                    facts["pending_cleared_by_rollback"] += 1
            facts["rollbacks"] += 1
            emu.load_snapshot(path)
            for r, s in zip(ref, sv["ref"]):
                r.load(s)
            last = sv["last"]
            got, gi = targets(), isr()
            for i, name in enumerate(TIMERS):
                if ref[i].active and got[i] != sv["targets"][i]:
                    V("restore", name, "snapshot/restore changed the next target",
                      f"op {opi}: saved target {sv['targets'][i]}, after load_snapshot {got[i]}")
                if (gi ^ sv["isr"]) & (1 << i):
                    V("restore", name, "snapshot/restore changed the status bit",
                      f"op {opi}: saved ISR {sv['isr']:#04x}, after load_snapshot {gi:#04x}")
            if int(emu.cycle_count) != sv["last"]:
                V("restore", "-", "snapshot/restore changed the cycle counter",
                  f"op {opi}: saved {sv['last']}, after load_snapshot {int(emu.cycle_count)}")
        else:
            raise HarnessError(f"bad live op {op!r}")
        if out:
            break
    return out, facts


def gen_rollback(seed: int, mti: int, sti: int, enabled: bool, idx: int) -> Dict[str, Any]:
    st = Stream(seed, 0x5A50, mti, sti, idx)
    ops: List[List[Any]] = []
    ps = [p for p in (mti, sti) if p > 0] or [4]
    maxp = max(ps)
    last = 0
    have: List[int] = []
    nsteps = 14 + st.below(16)
    ack_style = st.below(3)          # 0 never, 1 sometimes, 2 often
    # a capture early on, so that rollbacks have something to go back to
    cap_at = st.below(4)
    for stepi in range(nsteps):
        if stepi == cap_at or (have and st.chance(1, 12)) and len(ops) > 0:
            slot = st.below(2)
            ops.append(["c", slot])
            if slot not in have:
                have.append(slot)
            continue
        r = st.below(20)
        if have and r < 4:
            slot = st.choice(have)
            v = st.below(6)
            if v <= 1:
                drop: List[str] = []
            elif v <= 3:
                drop = list(RUST_ABSENT_KEYS)
            else:
                pool = list(OPTIONAL_INTERRUPT_KEYS) + list(OPTIONAL_TOP_KEYS)
                drop = [key for key in pool if st.chance(1, 2)]
            ops.append(["L", slot, drop, 1 if st.chance(1, 5) else 0])
            # what follows is in the captured timeline; cycles are re-derived by the runner ('b' is relative)
            continue
        if r < 4 + (0, 2, 5)[ack_style]:
            ops.append(["w", st.choice((0, 0, 0, 1, 2, st.byte() & 0xFC))])
            continue
        kind = st.below(6)
        p = st.choice(ps)
        if kind <= 2:
            ops.append(["b", 1 + st.below(min(2 * maxp + 2, 40))])
        elif kind == 3:
            ops.append(["b", p])
        elif kind == 4:
            ops.append(["b", 1])
        else:
            ops.append(["b", 1 + st.below(3 * p + 1)])
    ops.append(["b", min(2 * maxp + 3, 60)])
    return {"layer": "live", "flavour": "rollback", "mti": mti, "sti": sti, "enabled": enabled, "isr0": 0,
            "ops": ops}


# --------------------------------------------------------------------------------------------------
# flavour "async": AsyncTimerKeyboardTask on an AsyncDriver
# --------------------------------------------------------------------------------------------------

def run_async_rust(cases: List[Dict[str, Any]]) -> List[Any]:
    out: List[Any] = []
    for i in range(0, len(cases), 64):
        resp = M.rust_call({"cmd": "c13.async", "cases": [
            {k: c[k] for k in ("mti", "sti", "enabled", "isr0", "entry", "run_for_cycles", "ops") if k in c}
            for c in cases[i:i + 64]]})
        if not resp.get("ok"):
            raise HarnessError(f"c13.async failed: {str(resp)[:300]}")
        out.extend(resp["results"])
    return out


def judge_async(case: Dict[str, Any], res: Any) -> Tuple[List[Violation], Dict[str, Any]]:
    facts = _new_facts()
    out: List[Violation] = []
    if not isinstance(res, dict) or "obs" not in res or res.get("error") or res.get("panic"):
        raise HarnessError(f"c13.async: {str(res)[:300]}")
    obs = res["obs"]
    if len(obs) != len(case["ops"]):
        raise HarnessError("c13.async: observation count differs from op count")
    enabled = bool(case["enabled"])
    ref = [RefTimer(case["mti"], enabled), RefTimer(case["sti"], enabled)]
    now = 0
    tag = ""
    prev = [int(case["mti"]) if ref[0].active else 0, int(case["sti"]) if ref[1].active else 0,
            int(case.get("isr0", 0)) & 0xFF]
    slots: Dict[int, List[Tuple[int, int, int]]] = {}
    rearmed_earlier = False

    def V(sub: str, who: str, sym: str, detail: str) -> None:
        out.append(Violation(sub, f"rust-async:{who}{tag}", sym, case, detail))

    for opi, (op, ob) in enumerate(zip(case["ops"], obs)):
        verb = op[0]
        got = [int(ob[0]), int(ob[1])]
        gi = int(ob[2]) & 0xFF
        if verb == "a":
            c = int(op[1])
            if c - now > 1:
                facts["multi_cycle_slice"] += 1
            facts["ticks"] += c - now
            for i, name in enumerate(TIMERS):
                bit = 1 << i
                before_nxt = ref[i].nxt()
                crossed = ref[i].tick(c)
                moved = got[i] != prev[i]
                d = (f"op {opi} driver advanced {now} -> {c} (task entry {case.get('entry')}): {name} period "
                     f"{ref[i].p}, grid anchored at {ref[i].base}, boundaries crossed {crossed} (first at "
                     f"{before_nxt}), target {prev[i]} -> {got[i]}, ISR {prev[2]:#04x} -> {gi:#04x}")
                if not ref[i].active:
                    if gi & bit and not prev[2] & bit:
                        V("never-fires", name, "inactive timer fired", d)
                    continue
                if crossed and moved:
                    facts["fires"] += 1
                    if rearmed_earlier:
                        facts["catch_up_after_rearm"] += 1
                if crossed and not moved:
                    V("cadence", name, "boundary crossed but not fired", d)
                elif moved and not crossed:
                    V("cadence", name, "fired without a boundary crossed", d)
                if got[i] <= c:
                    V("next-target", name, "not strictly in the future", d)
                elif got[i] != ref[i].nxt():
                    V("next-target", name, "not the smallest boundary after the tick", d)
                if moved and not gi & bit:
                    V("status-bit", name, "fired but status bit not set", d)
                elif not moved and (gi & bit) and not (prev[2] & bit):
                    V("status-bit", name, "status bit set without firing", d)
                elif (prev[2] & bit) and not (gi & bit):
                    V("status-bit", name, "tick cleared a pending bit", d)
            if (prev[2] ^ gi) & 0xF8:
                V("status-bit", "other-bits", "tick changed ISR bits 3..7", f"op {opi}: {prev[2]:#04x} -> {gi:#04x}")
            now = c
            rearmed_earlier = False
        elif verb in ("r", "p"):
            old = [r.nxt() for r in ref]
            if verb == "p":
                ref[0].p, ref[1].p = int(op[1]), int(op[2])
                facts["reprogram"] += 1
                tag = " after-reprogram"
            else:
                facts["reset"] += 1
                tag = " after-reset"
            for i, name in enumerate(TIMERS):
                ref[i].reset(now)
                if ref[i].active and got[i] != now + ref[i].p:
                    V("reset", name, "did not set the target to cycle_base + period",
                      f"op {opi}: reset at {now}, period {ref[i].p}, target {got[i]}")
                if ref[i].active and old[i] is not None and ref[i].nxt() < old[i]:
                    rearmed_earlier = True
            if rearmed_earlier:
                facts["earlier_target_rearm"] += 1
        elif verb == "c":
            slots[int(op[1])] = [r.state() for r in ref]
        elif verb in ("L", "s"):
            old = [r.nxt() for r in ref]
            if verb == "L":
                if int(op[1]) not in slots:
                    raise HarnessError("async case restores an empty slot")
                for r, s in zip(ref, slots[int(op[1])]):
                    r.load(s)
                tag = " after-rollback"
                facts["rollbacks"] += 1
            else:
                tag = " after-snapshot" if tag == "" else tag
                facts["same_point"] += 1
            stale = False
            for i, name in enumerate(TIMERS):
                if not ref[i].active:
                    continue
                if got[i] != ref[i].nxt():
                    V("restore", name, "snapshot/restore changed the next target",
                      f"op {opi}: saved target {ref[i].nxt()}, after apply_snapshot_info {got[i]}")
                if ref[i].nxt() <= now:
                    stale = True
                if old[i] is not None and ref[i].nxt() < old[i]:
                    rearmed_earlier = True
            if stale:
                facts["stale_restore"] += 1
            if verb == "L" and rearmed_earlier:
                facts["earlier_target_rearm"] += 1
        elif verb == "w":
            pass
        else:
            raise HarnessError(f"bad async op {op!r}")
        if verb != "a" and gi != (int(op[1]) & 0xFF if verb == "w" else prev[2]):
            V("status-bit", "-", "host operation changed ISR unexpectedly",
              f"op {opi} {op!r}: ISR {prev[2]:#04x} -> {gi:#04x}")
        prev = [got[0], got[1], gi]
        if out:
            break
    return out, facts


def gen_async(seed: int, mti: int, sti: int, enabled: bool, idx: int) -> Dict[str, Any]:
    st = Stream(seed, 0x5A51, mti, sti, idx)
    ops: List[List[Any]] = []
    cur = [mti, sti]
    now = 0
    have: List[int] = []
    nsteps = 30 + st.below(50)
    host_rate = st.choice((2, 4, 7))     # of 20
    small = (1, 2, 3, 4, 5, 6, 7, 9, 12)
    for _ in range(nsteps):
        ps = [p for p in cur if p > 0] or [4]
        r = st.below(20)
        if r < host_rate:
            h = st.below(10)
            if h < 3:
                slot = st.below(3)
                ops.append(["c", slot])
                if slot not in have:
                    have.append(slot)
            elif h < 6 and have:
                ops.append(["L", st.choice(have)])
            elif h == 6:
                ops.append(["s", st.below(2)])
            elif h == 7:
                ops.append(["r"])
            elif h == 8:
                # reprogram: shorter, longer, switched off, small
                new = []
                for p in cur:
                    k = st.below(5)
                    new.append((max(1, p // (2 + st.below(8))) if p else st.choice(small), st.choice(small),
                                p * 2 if p else 0, 0 if st.chance(1, 3) else st.choice(small), p)[k])
                cur = new
                ops.append(["p", cur[0], cur[1]])
            else:
                ops.append(["w", st.choice((0, 0, 0, 1, 2, st.byte() & 0xF8))])
            continue
        g = st.below(10)
        p = st.choice(ps)
        if g < 6:
            gap = 1
        elif g == 6:
            gap = 1 + st.below(3)
        elif g == 7:
            gap = max(1, p - (now % p) + st.below(3) - 1)
        elif g == 8:
            gap = 1 + st.below(2 * max(ps) + 1)
        else:
            gap = p
        now += min(gap, 600)
        ops.append(["a", now])
    now += 1
    ops.append(["a", now])
    entry = "run" if st.chance(2, 3) else "run_for"
    case = {"layer": "live", "flavour": "async", "mti": mti, "sti": sti, "enabled": enabled, "isr0": 0,
            "entry": entry, "ops": ops}
    if entry == "run_for":
        case["run_for_cycles"] = now
    return case


# --------------------------------------------------------------------------------------------------
# plan / evaluate / labels
# --------------------------------------------------------------------------------------------------

BIG = (13, 16, 17, 31, 32, 33, 40, 64, 100, 127, 128, 200, 255, 256, 257, 300, 600, 2048)


def plan(seed: int, tier: str) -> List[Tuple[Any, ...]]:
    out: List[Tuple[Any, ...]] = []
    per_a = 2 if tier == "quick" else 24
    per_r = 1 if tier == "quick" else 6
    for mti in range(13):
        for sti in range(13):
            for i in range(per_a):
                out.append(("async", mti, sti, mix32(seed, mti, sti, i, 0x5A1) % 12 != 0, i))
            for i in range(per_r):
                out.append(("rollback", mti, sti, mix32(seed, mti, sti, i, 0x5A2) % 12 != 0, i))
    st = Stream(seed, 0x5A53)
    for i in range(120 if tier == "quick" else 2400):
        a = st.below(4)
        big = lambda: st.choice(BIG)
        mti, sti = ((big(), 0), (0, big()), (big(), big()), (1 + st.below(12), big()))[a]
        out.append(("async", mti, sti, st.below(14) != 0, 1000 + i))
    for i in range(40 if tier == "quick" else 600):
        a = st.below(4)
        big = lambda: st.choice(BIG[:14])
        mti, sti = ((big(), 0), (0, big()), (big(), big()), (1 + st.below(12), big()))[a]
        out.append(("rollback", mti, sti, st.below(14) != 0, 1000 + i))
    return out


def gen_from_config(seed: int, cfg: Tuple[Any, ...]) -> Dict[str, Any]:
    flavour, mti, sti, enabled, idx = cfg
    return (gen_async if flavour == "async" else gen_rollback)(seed, mti, sti, enabled, idx)


def evaluate_live(cases: List[Dict[str, Any]]) -> List[Tuple[List[Violation], Dict[str, Any]]]:
    res: List[Optional[Tuple[List[Violation], Dict[str, Any]]]] = [None] * len(cases)
    ai = [i for i, c in enumerate(cases) if c.get("flavour") == "async"]
    if ai:
        for i, r in zip(ai, run_async_rust([cases[i] for i in ai])):
            res[i] = judge_async(cases[i], r)
    for i, c in enumerate(cases):
        if res[i] is None:
            if c.get("flavour") != "rollback":
                raise HarnessError(f"unknown live flavour {c.get('flavour')!r}")
            res[i] = run_rollback(c)
    return [r for r in res if r is not None]


def labels(case: Dict[str, Any], facts: Dict[str, Any]) -> List[str]:
    fl = case["flavour"]
    lab = ["layer:live", f"live:{fl}", f"live:{fl}:enabled" if case["enabled"] else f"live:{fl}:disabled"]
    if fl == "async":
        lab.append(f"live:async:entry={case.get('entry')}")
        names = (("rollbacks", "restore-of-earlier-snapshot"), ("stale_restore", "restore-with-stale-target"),
                 ("earlier_target_rearm", "re-armed-to-an-earlier-target-between-firings"),
                 ("catch_up_after_rearm", "fire-on-first-slice-after-earlier-re-arm"),
                 ("reprogram", "periods-reprogrammed+reset"), ("reset", "reset-at-current-cycle"),
                 ("same_point", "same-point-snapshot-round-trip"), ("multi_cycle_slice", "multi-cycle-driver-slice"))
    else:
        names = (("rollback_used", "load-into-the-used-instance"), ("rollback_fresh", "load-into-a-fresh-instance"),
                 ("dropped", "snapshot-without-some-optional-entries"),
                 ("rust_like", "snapshot-without-the-entries-rust-does-not-write"),
                 ("pending_cleared_by_rollback", "pending-status-bit-clear-in-the-snapshot-rolled-back-to"),
                 ("fire_after_rollback", "timer-fired-after-rollback"))
    for key, name in names:
        if facts.get(key):
            lab.append(f"live:{fl}:{name}")
    if facts.get("fires", 0) >= 2:
        lab.append(f"live:{fl}:>=2-fires")
    return lab


def nontrivial_key(case: Dict[str, Any], facts: Dict[str, Any]) -> Optional[str]:
    if case["flavour"] == "async":
        nt = facts["fires"] >= 2 and (facts["earlier_target_rearm"] or facts["reprogram"] or facts["reset"]
                                      or facts["same_point"])
    else:
        nt = facts["fire_after_rollback"] >= 1 and facts["fires"] >= 2
    if not nt:
        return None
    return jhash(["live", case["flavour"], case["mti"], case["sti"], case["enabled"], case.get("entry"),
                  case["ops"]], 16)
