"""C14 helper: keyboard-port accesses performed by CPU instructions (generator side only -- no verdicts here).

The abstract history says "write KOL", "write KOH", "read KIL".  On the CPU flavours of the models these are
carried out by *instructions* whose internal-memory operand merely has to cover the port: every operand width
(1/2/3 bytes), every start offset that makes the operand overlap the port (e.g. a 16-bit store at 0xEF or a 24-bit
store at 0xEE/0xEF ends in KOL), immediate / register / IMEM-to-IMEM source forms, and every internal-memory
addressing form ((n), (BP+n), (PX+n), (PY+n), (BP+PX), (BP+PY); with and without a PRE byte).

What the oracle is told about such an instruction is only its architectural meaning, byte by byte: a little-endian
store of `width` bytes at IMEM offset `start` writes byte i of the value to offset start+i; the bytes that land on
0xF0 / 0xF1 are strobe-register writes, a load that covers 0xF2 carries the key-input value in byte 0xF2-start.

Concrete op (JSON-able, replayable without generators; the Rust adapter ignores the last element):
    ["x", code_addr, [code bytes], {reg: value}, {imem offset: value}, [result regs], [result imem offsets], meta]
    meta = {"kind": "st"|"ld", "start": s, "width": w, "value": v (st), "from": ["reg", name] | ["imem", off] (ld),
            "form": "<mnemonic>/<dst mode>[,<src mode>]"}
"""

from __future__ import annotations

from typing import Any, Dict, List, Optional, Tuple

from ..gen_state import Stream

KOL, KOH, KIL = 0xF0, 0xF1, 0xF2
IMR, ISR = 0xFB, 0xFC
KEYI = 0x04
BP, PX, PY = 0xEC, 0xED, 0xEE

# PRE byte for (first operand mode, second operand mode) -- the architecture's prefix table
PRE = {
    ("n", "n"): 0x32, ("n", "bp+n"): 0x30, ("n", "py+n"): 0x33, ("n", "bp+py"): 0x31,
    ("bp+n", "n"): 0x22, ("bp+n", "py+n"): 0x23, ("bp+n", "bp+py"): 0x21,
    ("px+n", "n"): 0x36, ("px+n", "bp+n"): 0x34, ("px+n", "py+n"): 0x37, ("px+n", "bp+py"): 0x35,
    ("bp+px", "n"): 0x26, ("bp+px", "bp+n"): 0x24, ("bp+px", "py+n"): 0x27, ("bp+px", "bp+py"): 0x25,
}
PAIRS = sorted(PRE) + [("bp+n", "bp+n")]          # the last one is "no PRE byte"
# one internal-memory operand: the prefix's first-operand mode applies; None = no prefix = (BP+n)
SINGLE = (("bp+n", None), ("n", 0x32), ("bp+n", 0x22), ("px+n", 0x36), ("bp+px", 0x26))

ST_IMM = {1: 0xCC, 2: 0xCD, 3: 0xDC}              # MV / MVW / MVP (n),imm
ST_REG = {1: ((0xA0, "A"), (0xA1, "IL")), 2: ((0xA2, "BA"), (0xA3, "I")),
          3: ((0xA4, "X"), (0xA5, "Y"), (0xA6, "U"))}          # MV (n),r
LD_REG = {1: ((0x80, "A"), (0x81, "IL")), 2: ((0x82, "BA"), (0x83, "I")),
          3: ((0x84, "X"), (0x85, "Y"), (0x86, "U"))}          # MV r,(n)
MV_MM = {1: 0xC8, 2: 0xC9, 3: 0xCA}               # MV / MVW / MVP (m),(n)
AND_IMM = 0x71                                     # AND (n),imm
CODE_BASES = {"rs-cpu": (0x30000, 0x40100, 0x6FF00, 0xB8000),       # flat external memory of CoreRuntime::new()
              "py-cpu": (0xB8000, 0xB9010, 0xBC100, 0xBFE00)}       # the PC-E500's built-in RAM
SCRATCH = (0x10, 0x24, 0x3D, 0x50, 0x68, 0x7C, 0x90)


def _solve(mode: str, target: int, ptrs: Dict[str, int], st: Stream, second: bool) -> int:
    """Pick the operand byte (and, for the pointer-only forms, the pointer) so that the mode resolves to target."""
    bp = ptrs["bp"]
    if mode == "n":
        return target
    if mode == "bp+n":
        return (target - bp) & 0xFF
    if mode == "px+n":
        return (target - ptrs["px"]) & 0xFF
    if mode == "py+n":
        return (target - ptrs["py"]) & 0xFF
    if mode == "bp+px":
        ptrs["px"] = (target - bp) & 0xFF
        return st.below(256)
    if mode == "bp+py":
        ptrs["py"] = (target - bp) & 0xFF
        return st.below(256)
    raise ValueError(mode)


def _ptrs(st: Stream) -> Dict[str, int]:
    return {"bp": st.choice((0, 0, st.below(256))), "px": st.below(256), "py": st.below(256)}


def _pre_imem(ptrs: Dict[str, int]) -> Dict[str, int]:
    return {str(BP): ptrs["bp"], str(PX): ptrs["px"], str(PY): ptrs["py"]}


def nop(st: Stream, model: str) -> List[Any]:
    """One NOP: on a machine that scans the keyboard once per executed instruction this is a scan tick."""
    code_addr = st.choice(CODE_BASES[model]) + 16 * st.below(8)
    return ["x", code_addr, [0x00], {}, {}, [], [], {"kind": "nop", "form": "nop"}]


def store(st: Stream, start: int, width: int, value: int, model: str = "rs-cpu") -> List[Any]:
    """An instruction that stores `value` (width bytes, little endian) at IMEM offset `start`."""
    code_addr = st.choice(CODE_BASES[model]) + 16 * st.below(8)
    ptrs = _ptrs(st)
    regs: Dict[str, int] = {}
    pre_imem: Dict[str, int] = {}
    r = st.below(10)
    if width == 3 and (value >> 20):
        # 24-bit immediates and the pointer registers X/Y/U carry 20 significant bits on both cores; a value whose
        # top nibble is set can only be moved faithfully by the IMEM-to-IMEM form
        r = 9
    if r < 4:
        mode, pre = st.choice(SINGLE)
        n = _solve(mode, start, ptrs, st, False)
        code = ([pre] if pre is not None else []) + [ST_IMM[width], n] + \
               [(value >> (8 * i)) & 0xFF for i in range(width)]
        form = f"st-imm{width}/{mode}{'' if pre is not None else ' (no PRE)'}"
    elif r < 7:
        mode, pre = st.choice(SINGLE)
        n = _solve(mode, start, ptrs, st, False)
        opc, reg = st.choice(ST_REG[width])
        regs[reg] = value
        code = ([pre] if pre is not None else []) + [opc, n]
        form = f"st-{reg}/{mode}{'' if pre is not None else ' (no PRE)'}"
    else:
        m1, m2 = st.choice(PAIRS)
        src = st.choice(SCRATCH)
        n1 = _solve(m1, start, ptrs, st, False)
        n2 = _solve(m2, src, ptrs, st, True)
        for i in range(width):
            pre_imem[str(src + i)] = (value >> (8 * i)) & 0xFF
        pre = PRE.get((m1, m2))
        code = ([pre] if pre is not None else []) + [MV_MM[width], n1, n2]
        form = f"st-mem{width}/{m1},{m2}{'' if pre is not None else ' (no PRE)'}"
    pre_imem.update(_pre_imem(ptrs))
    meta = {"kind": "st", "start": start, "width": width, "value": value, "form": form}
    return ["x", code_addr, code, regs, pre_imem, [], [], meta]


def load(st: Stream, start: int, width: int, model: str = "rs-cpu") -> List[Any]:
    """An instruction that loads width bytes from IMEM offset `start` into a register or scratch IMEM."""
    code_addr = st.choice(CODE_BASES[model]) + 16 * st.below(8)
    ptrs = _ptrs(st)
    pre_imem: Dict[str, int] = {}
    # X/Y/U keep 20 bits: the third byte of a 24-bit load is only observable through the IMEM-to-IMEM form
    if st.chance(2, 3) and not (width == 3 and start + 2 == KIL):
        mode, pre = st.choice(SINGLE)
        n = _solve(mode, start, ptrs, st, False)
        opc, reg = st.choice(LD_REG[width])
        code = ([pre] if pre is not None else []) + [opc, n]
        out_regs, out_imem = [reg], []
        frm: List[Any] = ["reg", reg]
        form = f"ld-{reg}/{mode}{'' if pre is not None else ' (no PRE)'}"
    else:
        m1, m2 = st.choice(PAIRS)
        dst = st.choice(SCRATCH)
        # pointer-only forms fix px (first operand) / py (second operand): solve the operand that needs it first
        n1 = _solve(m1, dst, ptrs, st, False)
        n2 = _solve(m2, start, ptrs, st, True)
        for i in range(width):
            pre_imem[str(dst + i)] = 0
        pre = PRE.get((m1, m2))
        code = ([pre] if pre is not None else []) + [MV_MM[width], n1, n2]
        out_regs, out_imem = [], [dst + i for i in range(width)]
        frm = ["imem", dst]
        form = f"ld-mem{width}/{m1},{m2}{'' if pre is not None else ' (no PRE)'}"
    pre_imem.update(_pre_imem(ptrs))
    meta = {"kind": "ld", "start": start, "width": width, "from": frm, "form": form}
    return ["x", code_addr, code, {}, pre_imem, out_regs, out_imem, meta]


def rmw_and(st: Stream, target: int, mask: int, model: str = "py-cpu") -> List[Any]:
    """`AND (target),mask`: a read-modify-write of one IMEM byte (how firmware acknowledges a status bit)."""
    code_addr = st.choice(CODE_BASES[model]) + 16 * st.below(8)
    ptrs = _ptrs(st)
    mode, pre = st.choice(SINGLE)
    n = _solve(mode, target, ptrs, st, False)
    code = ([pre] if pre is not None else []) + [AND_IMM, n, mask & 0xFF]
    meta = {"kind": "rmw", "start": target, "width": 1, "and": mask & 0xFF,
            "form": f"and-imm/{mode}{'' if pre is not None else ' (no PRE)'}"}
    return ["x", code_addr, code, {}, _pre_imem(ptrs), [], [], meta]


def isr_ack(st: Stream, imr: int, model: str = "py-cpu") -> List[Any]:
    """Firmware acknowledges the key interrupt without RETI: ISR bit 2 is cleared by a store instruction -- a byte
    store to ISR, a 16-bit store at IMR that rewrites IMR (same value) and ISR together, an AND (ISR),~KEYI, or a
    write from the host side of the bus.  Other status bits are never set by these writes."""
    r = st.below(8)
    if r < 3:
        return store(st, ISR, 1, 0x00, model)
    if r < 5:
        return store(st, IMR, 2, imr & 0xFF, model)
    if r < 7:
        return rmw_and(st, ISR, 0xFF & ~KEYI, model)
    return ["hw", ISR, "and", 0xFF & ~KEYI]


def imr_write(st: Stream, value: int, model: str = "py-cpu") -> List[Any]:
    if st.chance(1, 4):
        return ["hw", IMR, "set", value & 0xFF]
    return store(st, IMR, 1, value & 0xFF, model)


def implied_strobes(meta: Dict[str, Any]) -> List[List[Any]]:
    """Strobe-register writes a store means, byte by byte, in address order."""
    out: List[List[Any]] = []
    for i in range(int(meta["width"])):
        off = int(meta["start"]) + i
        b = (int(meta["value"]) >> (8 * i)) & 0xFF
        if off == KOL:
            out.append(["kol", b])
        elif off == KOH:
            out.append(["koh", b])
    return out


def loaded_value(meta: Dict[str, Any], ret: Dict[str, Any]) -> Optional[int]:
    """The little-endian value the load instruction delivered (register or scratch IMEM bytes)."""
    frm = meta["from"]
    if frm[0] == "reg":
        v = (ret.get("regs") or {}).get(frm[1])
        return None if v is None else int(v)
    bs = ret.get("imem") or []
    if len(bs) != int(meta["width"]):
        return None
    v = 0
    for i, b in enumerate(bs):
        v |= (int(b) & 0xFF) << (8 * i)
    return v


def kil_of_load(meta: Dict[str, Any], value: Optional[int]) -> Optional[int]:
    if value is None:
        return None
    i = KIL - int(meta["start"])
    if not 0 <= i < int(meta["width"]):
        return None
    return (value >> (8 * i)) & 0xFF


def strobe_store(st: Stream, reg: str, value: int, other: int, model: str = "rs-cpu") -> List[Any]:
    """A store that writes `value` to the strobe register `reg` ("kol"/"koh"): any width/start that covers it.
    `other` is the byte for the second strobe register when the operand covers both; remaining bytes are arbitrary."""
    target = KOL if reg == "kol" else KOH
    width = st.choice((1, 1, 2, 2, 2, 3, 3, 3))
    start = target - st.below(width)
    v = 0
    for i in range(width):
        off = start + i
        if off == target:
            b = value
        elif off in (KOL, KOH):
            b = other
        else:
            b = st.below(256)
        v |= (b & 0xFF) << (8 * i)
    return store(st, start, width, v, model)


def kil_load(st: Stream, model: str = "rs-cpu") -> List[Any]:
    width = st.choice((1, 1, 1, 2, 2, 3, 3))
    start = KIL - st.below(width)
    return load(st, start, width, model)
