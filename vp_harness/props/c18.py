"""C18 -- the virtual-time task scheduler wakes tasks exactly on time and in order; the CPU driven through it
ends in the same state as the synchronous step loop.

Part 1 (scheduler): scripted cooperative tasks (sleep d / bare Pending, optional event per resumption) are
interpreted by generic `async fn`s in the Rust harness on a real `sc62015_core::AsyncDriver`; `run_for` is called
with a list of budgets, then with a huge budget until everything finished.  A small space is enumerated
completely; Hypothesis explores beyond it (up to 4 tasks, 6 steps, late spawns, huge values, zero budgets,
non-zero start clock); "long" cases have chains of thousands of steps; "dur" cases sweep the sleep duration
(every value 0..200, every power-of-two neighbourhood); "defer" cases (and a share of the Hypothesis / multi / long
cases) construct a sleep future in one place and first await it in another (`let nap = sleep_cycles(d); ...;
nap.await`, or built by the host before spawn) or construct and drop one; "multi" cases keep 2-3 drivers alive on one thread and
interleave their run_for calls (plus block_on interludes whose futures sleep and emit events), each driver must
behave as it does alone.  Verdicts: vp_harness/c18_sched.py.

Part 2 (CPU): generated machine images (templates + random valid encodings, timers, interrupt handler) are run
on two identical `CoreRuntime`s, one through `AsyncRuntimeRunner::run_instructions` with a slice size, one
through `CoreRuntime::step`; everything observable is compared; block_on of an event-emitting future may run on
the thread before a call.  Verdicts: vp_harness/c18_prog.py.
"""

from __future__ import annotations

import copy
import itertools
import json
import os
import select
import time
from typing import Any, Dict, Iterator, List, Optional, Tuple

from ..core import Ctx, HarnessError, Report, Violation, jhash, mix32
from .. import rsclient
from .. import c18_sched as SC
from .. import c18_prog as PG
from ..gen_state import Stream

PROPERTY = "C18"
RULE = ("scheduler: task sets x budget partitions; complete enumeration of {1-2 tasks x 1-2 steps, 3 tasks x 1 step, "
        "1 task x 3 steps} with every step = (sleep d from the palette, emit yes/no) under every budget list of "
        "length 0..2 (0..3 for the single-task family) from the budget palette, each followed by run_for(2^63) until "
        "all tasks finished (quick palettes d in {0,1,2,3}, b in {1,2,3,100}; thorough d in {0,1,2,3,5,8}, b in "
        "{1,2,3,5,13,100}); plus Hypothesis-generated cases (1-4 tasks, 0-6 steps, bare-Pending steps, emit on first "
        "poll, late spawns, budgets incl. 0 and 2^40+, start clock up to 2^62); long scripts (compact [d,ev,rep] ops, "
        "chains of 7..5000 (thorough ..100000) equal steps around powers of two/ten, systematic family + random mixes); "
        "duration sweep: every sleep duration 0..200 and 2^k-1,2^k,2^k+1 (k<=16, thorough k<=40) in systematic shapes "
        "(start-clock alignments, budgets cut at the wake-up, two tasks meeting at one cycle, neighbours side by side) "
        "plus boundary-weighted random scripts; "
        "construction place of a sleep future as a generated dimension (op [d,ev,1,mk]: constructed k resumptions "
        "before the one that awaits it, or by the host right before spawn / right after the driver was constructed; "
        "task key gh: constructed and dropped): systematic arm-work-wait shapes x work sequences x budgets x start "
        "clocks x ticker task, host-built x start clock x late spawn, every duration of the sweep with the stale "
        "deadline before / at / after the await, random mixes; also 1/3 of the Hypothesis and multi cases; "
        "event payloads as a generated dimension (ids from a palette of 1-3 values, so that several tasks emit EQUAL "
        "DriverEvents, also within one cycle: periodic emitters sharing / not sharing an id, complete enumeration of 2 "
        "tasks x 1-2 steps with one id for every emission, random mixes; 1/4 of the Hypothesis and multi drivers); "
        "budget magnitudes over the whole u64 range (u64::MAX, u64::MAX-1, 2^63(+1), 2^64-2^32, (u64::MAX - clock) + "
        "{-2..2}, uniform 64-bit; also as tail budget) issued at clocks > 0 (later calls, start clocks up to 2^64-2^32), "
        "sleeps small so that every wake-up stays far below 2^64; "
        "multi cases: 2-3 such drivers alive on one thread, run_for calls interleaved in a generated order with "
        "block_on interludes (futures that sleep and emit events, in completing or non-completing polls), drivers "
        "created up front or lazily, each compared with itself run alone.  "
        "CPU: generated images (templates, random encodings, optional parking construct: self-jump / conditional "
        "self-jump / endless short loop) x slice sizes "
        "{1,2,3,7,10000,default,...} x instruction-count lists x warm-up x optional block_on interlude (future emitting "
        "User(1)) before a call.  Non-trivial (scheduler) = >= 2 tasks "
        "resumed at one cycle, or one task's resumptions spread over >= 2 run_for calls, or an event emitted at the "
        "last cycle of a budget window; non-trivial (CPU) = >= 2 instructions executed and a register other than PC, "
        "internal or external memory changed; non-trivial (multi) = >= 2 drivers resumed tasks and some driver was "
        "stepped again after another one ran.  distinct = hash of the full case.")

TAIL_BUDGET = 2 ** 63
# Sleep durations are a generated dimension of their own: every value 0..200 and the neighbourhood of every power
# of two (the places where a queue organised in buckets / wheels / levels changes its mind) occur in every run.
HOT_D = tuple(sorted({2 ** k + o for k in range(1, 17) for o in (-1, 0, 1)}))
HOT_D_THOROUGH = tuple(sorted(set(HOT_D) | {2 ** k + o for k in range(17, 41) for o in (-1, 0, 1)}))
HOT_CLOCK = (None, 0, 0, 1, 7, 63, 64, 65, 4095, 2 ** 16 - 1, 2 ** 32 + 5)
Q_D, Q_B = (0, 1, 2, 3), (1, 2, 3, 100)
T_D, T_B = (0, 1, 2, 3, 5, 8), (1, 2, 3, 5, 13, 100)

ASSUMPTIONS = [
    "same-cycle order is compared with FIFO-by-wake-up-request (the mechanism named in the C18 anchors); the "
    "statement itself only demands a deterministic, split-independent order (checked separately, oracle-free)",
    "no progress obligation beyond the maintainers' tests: run_for(b) from clock c must serve exactly the wake-ups "
    "in [c, c+b) unless an event ends the run; budget is not consumed while idle (clock only moves to served "
    "wake-up cycles), so a task sleeping >= b is never reached by repeating run_for(b) -- not a violation",
    "at most one emit_event per resumption (the statement's precondition); event VALUES need not be unique: 'every "
    "emitted event exactly once, in emission order' is about emissions, so the returned sequence must equal the "
    "emission sequence value by value (equal values from different resumptions are all returned)",
    "wake-up cycles stay far below 2^64-1 (no saturating wake-up exercised); budgets do range over the whole u64 "
    "domain: run_for(b) from clock c serves the wake-ups in [c, c+b) with c+b taken mathematically (== the "
    "saturating sum the unchanged driver computes, because no wake-up reaches 2^64-1), so an 'unlimited' budget runs "
    "to the next event or to completion; block_on() is not a subject (it is only "
    "used as a second user of the thread between run_for calls; nothing is asserted about its own timing)",
    "CPU cases: before AsyncRuntimeRunner::run_instructions is entered, the host loop it runs (run_for(slice) until "
    "the completion event, slice+1 after an idle call) is rehearsed with a bound of 1000 calls on a scratch driver "
    "with the same clock and slice and a sleep-one-cycle task; the unchanged crate needs <= 3 calls; a stall is the "
    "verdict no-progress (a call-count watchdog, no wall clock) and the crate's unbounded loop is not entered",
    "a driver's behaviour is a function of its own tasks, clock and run_for calls only: other AsyncDrivers or "
    "block_on running on the same thread between its calls are not inputs of any of its tasks, so every verdict "
    "must hold for each driver of an interleaved group and its observation must equal the stand-alone run",
    "events emitted by a future that runs under block_on are not events of any AsyncDriver task: no driver may return "
    "them and AsyncRuntimeRunner must not react to them (block_on itself discards them after every non-completing "
    "poll -- the maintainers' intent); where they do leak (completing poll, known finding) the fingerprint carries "
    "the kind of foreign future in its `where`",
    "every harness case starts from an empty event slot (a scratch AsyncDriver polls one empty task): what an earlier "
    "case left in the thread-locals is not an input of the next case",
    "the statement puts no bound on the length of a sleep sequence or on the number of wake-ups served within "
    "one cycle: sleep_cycles(0) must stay in its cycle however long the chain is",
    "a sleep asks for its wake-up when it is first polled (C18 anchors: 'sleep future records its absolute wake cycle "
    "on first poll'; Rust futures are inert until polled): the cycle a task 'asked for' is (cycle of the resumption "
    "that awaits the sleep) + d wherever sleep_cycles(d) was called -- in an earlier resumption, by the host before "
    "spawn -- and constructing a sleep future without awaiting it asks for nothing",
    "a bare Poll::Pending (no sleep registered) is expected one cycle later, as the maintainers' "
    "pending_without_sleep_advances_by_one test states",
    "CPU: LCD controller and keyboard-matrix internals are compared only through memory/IMEM/FIFO length; perfetto "
    "off; MemoryImage read/write perf counters are instrumentation, not machine state (label only: they differ "
    "while the CPU is OFF); an Err from step (e.g. 'IRQ deferred: stack pointer not initialized') must be identical on both twins",
]


# ------------------------------------------------------------------------------------------------
# scheduler: enumeration
# ------------------------------------------------------------------------------------------------

def _scripts(dur: Tuple[int, ...], nsteps: Tuple[int, ...]) -> List[List[List[Any]]]:
    steps = [[d, e] for d in dur for e in (0, 1)]
    out: List[List[List[Any]]] = []
    for n in nsteps:
        for combo in itertools.product(steps, repeat=n):
            out.append([list(s) for s in combo])
    return out


def _assign_events(task_ops: List[List[List[Any]]], se: Optional[List[bool]] = None,
                   at: Optional[List[int]] = None) -> List[Dict[str, Any]]:
    tasks = []
    for i, ops in enumerate(task_ops):
        t: Dict[str, Any] = {"at": at[i] if at else 0,
                             "ops": [[d, (100 * (i + 1) + j + 1) if e else None] for j, (d, e) in enumerate(ops)]}
        if se and se[i]:
            t["se"] = 100 * (i + 1)
        tasks.append(t)
    return tasks


def _with_mk(tasks: List[Dict[str, Any]], mks: List[List[Any]],
             ghosts: Optional[List[List[List[int]]]] = None) -> List[Dict[str, Any]]:
    """Attach construction places (None | k >= 1 | "spawn" | "new", one per op) and dropped sleep futures
    ([[resumption, d], ...] per task) to tasks made by _assign_events."""
    for t, ms in zip(tasks, mks):
        for o, m in zip(t["ops"], ms):
            if m and o[0] >= 0:
                del o[2:]
                o.extend([1, m])
    for t, g in zip(tasks, ghosts or []):
        if g:
            t["gh"] = [list(x) for x in g]
    return tasks


def _budget_lists(pal: Tuple[int, ...], maxlen: int) -> List[List[int]]:
    out: List[List[int]] = [[]]
    for n in range(1, maxlen + 1):
        out += [list(c) for c in itertools.product(pal, repeat=n)]
    return out


def enum_task_sets(tier: str) -> Iterator[Tuple[str, List[List[List[Any]]], int]]:
    """(family, list of scripts, max budget-list length)"""
    dur = Q_D if tier == "quick" else T_D
    s12 = _scripts(dur, (1, 2))
    s1 = _scripts(dur, (1,))
    s3 = _scripts(dur, (3,))
    for a in s12:
        yield "1task", [a], 2
    for a in s12:
        for b in s12:
            yield "2tasks", [a, b], 2
    for a in s1:
        for b in s1:
            for c in s1:
                yield "3tasks", [a, b, c], 2
    for a in s3:
        yield "1task-3steps", [a], 3


def _mk_case(tasks: List[Dict[str, Any]], budgets: List[int], clock0: Optional[int] = 0) -> Dict[str, Any]:
    n_emit = sum(1 for t in tasks for o in t["ops"] if o[1] is not None) + sum(1 for t in tasks if t.get("se") is not None)
    case: Dict[str, Any] = {"kind": "sched", "tasks": tasks, "budgets": budgets, "tail_budget": TAIL_BUDGET,
                            "tail_max": n_emit + len(tasks) + 4}
    if clock0 is not None:
        case["clock0"] = clock0
    return case


WATCHDOG_S = 120.0


def _timed_call(req: Dict[str, Any]) -> Dict[str, Any]:
    """rsclient.Rust.call with a watchdog: the code under test contains unbounded loops
    (AsyncRuntimeRunner::run_instructions spins until its CPU task reports completion), so a defect there can
    hang the harness.  No answer within WATCHDOG_S is an infrastructure-level failure (exit 2), never a verdict."""
    cli = rsclient.shared()
    proc = cli.proc
    data = (json.dumps(req, separators=(",", ":")) + "\n").encode()
    try:
        proc.stdin.write(data)
        proc.stdin.flush()
    except (BrokenPipeError, OSError) as exc:
        raise HarnessError(f"rust harness pipe failed: {exc!r}")
    fd = proc.stdout.fileno()
    buf = bytearray()
    deadline = time.time() + WATCHDOG_S
    while not buf.endswith(b"\n"):
        left = deadline - time.time()
        if left <= 0:
            proc.kill()
            raise _Hang(f"rust harness gave no answer within {WATCHDOG_S:.0f} s (c18 request with "
                        f"{len(req.get('cases', []))} cases): the code under test probably does not terminate")
        r, _, _ = select.select([fd], [], [], min(left, 5.0))
        if not r:
            continue
        chunk = os.read(fd, 1 << 16)
        if not chunk:
            raise HarnessError(f"rust harness died (rc={proc.poll()}) during a c18 request")
        buf += chunk
    return json.loads(bytes(buf))


class _Hang(HarnessError):
    pass


def _call(req: Dict[str, Any]) -> Dict[str, Any]:
    """One request; a dead harness process (the sandbox is shared: OOM victim, stray pkill) is restarted once.  A
    request that kills the harness deterministically still ends as HarnessError (exit 2); a hang is not retried."""
    try:
        return _timed_call(req)
    except _Hang:
        raise
    except HarnessError:
        return _timed_call(req)


def _rust_sched(cases: List[Dict[str, Any]]) -> List[Dict[str, Any]]:
    resp = _call({"cmd": "c18.sched", "cases": cases})
    if not resp.get("ok"):
        raise HarnessError(f"c18.sched failed: {str(resp)[:300]}")
    return resp["results"]


def _rust_cpu(cases: List[Dict[str, Any]]) -> List[Dict[str, Any]]:
    resp = _call({"cmd": "c18.cpu", "cases": cases})
    if not resp.get("ok"):
        raise HarnessError(f"c18.cpu failed: {str(resp)[:300]}")
    return resp["results"]


def _record(rep: Report, case: Dict[str, Any], vs: List[Violation], labels: List[str], nt: bool,
            sample_every: int, extra_labels: Tuple[str, ...] = ()) -> None:
    for v in vs:
        rep.violate(v)
    sample = None
    if rep.evaluations % sample_every == 3:
        sample = case
    rep.case(jhash(case) if nt else None, list(labels) + list(extra_labels), sample)


def _enum_shard(task: Tuple[int, int, str]) -> Report:
    shard, nshards, tier = task
    rep = Report()
    pal_b = Q_B if tier == "quick" else T_B
    blists = {2: _budget_lists(pal_b, 2), 3: _budget_lists(pal_b, 3)}
    pending: List[Tuple[str, List[Dict[str, Any]], List[List[int]]]] = []
    n_pending_cases = 0

    def flush() -> None:
        nonlocal pending, n_pending_cases
        if not pending:
            return
        cases: List[Dict[str, Any]] = []
        for fam, tasks, bls in pending:
            for bl in bls:
                cases.append(_mk_case(tasks, bl))
        obs = _rust_sched(cases)
        idx = 0
        for fam, tasks, bls in pending:
            ref = obs[idx]  # budget list [] is first: the single-budget reference run
            for j, bl in enumerate(bls):
                vs, labels, nt = SC.check(cases[idx + j], obs[idx + j], ref=ref if j else None)
                _record(rep, cases[idx + j], vs, labels, nt, 9973, ("enum:" + fam,))
            idx += len(bls)
        pending = []
        n_pending_cases = 0

    for n, (fam, scripts, maxb) in enumerate(enum_task_sets(tier)):
        if n % nshards != shard:
            continue
        tasks = _assign_events(scripts)
        pending.append((fam, tasks, blists[maxb]))
        n_pending_cases += len(blists[maxb])
        if n_pending_cases >= 1500:
            flush()
    flush()
    return rep


# ------------------------------------------------------------------------------------------------
# scheduler: Hypothesis beyond the enumerated space
# ------------------------------------------------------------------------------------------------

def _case_strategy(max_tasks: int = 4, max_steps: int = 6, max_budgets: int = 8) -> Any:
    from hypothesis import strategies as st

    big = st.sampled_from([2 ** 32, 2 ** 40 + 1, 2 ** 56, 2 ** 58])  # clock0 + all sleeps + tail budget < 2^64
    dur = st.one_of(st.sampled_from(T_D), st.sampled_from(T_D), st.integers(0, 20), big, st.just(SC.YIELD),
                    st.integers(0, 200), st.sampled_from(HOT_D))
    step = st.tuples(dur, st.booleans())
    # budgets range over the whole u64 domain (every wake-up cycle stays far below 2^64, so "serve [c, c+b)" is exact)
    bud = st.one_of(st.sampled_from((0,) + T_B), st.sampled_from(T_B), st.integers(0, 40), big,
                    st.sampled_from((U64, U64, U64 - 1, 2 ** 63 + 1)))
    clock = st.one_of(st.just(0), st.just(0), st.none(), st.sampled_from([1, 7, 2 ** 32 + 5, 2 ** 62]))
    mk = st.sampled_from((None, None, None, 1, 1, 2, 3, 6, "spawn", "new"))

    @st.composite
    def cases(draw: Any) -> Dict[str, Any]:
        nt = draw(st.integers(1, max_tasks))
        budgets = draw(st.lists(bud, min_size=0, max_size=max_budgets))
        ops = [[list(s) for s in draw(st.lists(step, min_size=0, max_size=max_steps))] for _ in range(nt)]
        se = [draw(st.integers(0, 5)) == 0 for _ in range(nt)]
        at = [0] * nt
        if budgets and draw(st.integers(0, 3)) == 0:
            at = [draw(st.integers(0, len(budgets))) if draw(st.booleans()) else 0 for _ in range(nt)]
        tasks = _assign_events(ops, se, at)
        # one case in three: some sleep futures are constructed away from their await (or constructed and dropped)
        if draw(st.integers(0, 2)) == 0:
            mks = [[draw(mk) for _ in t] for t in ops]
            ghosts = [draw(st.lists(st.tuples(st.integers(-1, max(len(t) - 1, -1)), st.sampled_from(T_D)),
                                    min_size=0, max_size=2)) if draw(st.integers(0, 3)) == 0 else [] for t in ops]
            tasks = _with_mk(tasks, mks, [[list(g) for g in gl] for gl in ghosts])
        # one case in four: event ids from a palette of 1-3 values (equal DriverEvents from different resumptions)
        if draw(st.integers(0, 3)) == 0:
            pal = draw(st.sampled_from(EV_PALETTES))
            tasks = _repaint(tasks, lambda i, j: draw(st.sampled_from(pal)))
        case = _mk_case(tasks, budgets, draw(clock))
        if draw(st.integers(0, 3)) == 0:
            case["tail_budget"] = U64  # the "unlimited" budget of the repository's own host loop
        return case

    return cases()


def _hyp_shard(task: Tuple[int, int, int]) -> Report:
    shard, seed, n_examples = task
    import hypothesis
    from hypothesis import HealthCheck, Phase, given, settings

    rep = Report()

    @hypothesis.seed(mix32(seed, shard, 0xC18))
    @settings(max_examples=n_examples, database=None, deadline=None, report_multiple_bugs=False,
              suppress_health_check=list(HealthCheck), phases=[Phase.generate])
    @given(_case_strategy())
    def explore(case: Dict[str, Any]) -> None:
        vs, labels, nt = eval_sched(case)
        _record(rep, case, vs, labels, nt, 1999, ("hyp",))

    explore()
    return rep


# ------------------------------------------------------------------------------------------------
# scheduler: several schedulers alive on one thread, driven alternately
# ------------------------------------------------------------------------------------------------
# The driver and its tasks talk through thread-locals (CURRENT_CYCLE / NEXT_WAKE_CYCLE / PENDING_EVENT, see the
# C18 anchors), so "a scheduler" is only well-behaved if it re-establishes that channel whenever it polls.  The
# statement quantifies over task sets and budget partitions of *the* scheduler; what else happened on the thread
# between two run_for calls is not an input of any task, so every driver must behave exactly as it does alone.

def _multi_shard(task: Tuple[int, int, int]) -> Report:
    shard, seed, n_examples = task
    import hypothesis
    from hypothesis import HealthCheck, Phase, given, settings, strategies as st

    rep = Report()
    sub = _case_strategy(max_tasks=3, max_steps=4, max_budgets=5)

    # block_on of a future that also emits events: ids disjoint from every task's ids (>= 100), 1 = the id
    # AsyncRuntimeRunner uses internally
    bo_ev = st.one_of(st.none(), st.sampled_from((1, 2, 7, 900, 901)))
    bo_op = st.tuples(st.sampled_from((0, 1, 2, 3, 9, SC.YIELD)), bo_ev)

    @st.composite
    def bo_script(draw: Any) -> Dict[str, Any]:
        e: Dict[str, Any] = {"ops": [list(o) for o in draw(st.lists(bo_op, min_size=0, max_size=3))]}
        se = draw(bo_ev)
        if se is not None:
            e["se"] = se
        return e

    @st.composite
    def multis(draw: Any) -> Dict[str, Any]:
        n = draw(st.sampled_from((2, 2, 2, 3)))
        drivers = [draw(sub) for _ in range(n)]
        entry = st.one_of(st.integers(0, n - 1), st.integers(0, n - 1), st.integers(0, n - 1),
                          st.integers(0, n - 1),
                          st.lists(st.sampled_from((0, 1, 2, 3, 9)), min_size=0, max_size=3), bo_script())
        order = draw(st.lists(entry, min_size=0, max_size=12))
        # one decision per case: 3 of 4 cases have no emission in a completing poll of a block_on future
        if draw(st.integers(0, 3)) != 0:
            order = [SC.strip_final_emit(e) if isinstance(e, dict) else e for e in order]
        return {"kind": "multi", "drivers": drivers, "order": order,
                "create": draw(st.sampled_from(("upfront", "upfront", "lazy")))}

    @hypothesis.seed(mix32(seed, shard, 0xC18A))
    @settings(max_examples=n_examples, database=None, deadline=None, report_multiple_bugs=False,
              suppress_health_check=list(HealthCheck), phases=[Phase.generate])
    @given(multis())
    def explore(case: Dict[str, Any]) -> None:
        vs, labels, nt = eval_multi(case)
        _record(rep, case, vs, labels, nt, 499, ("multi",))

    explore()
    return rep


INTERLEAVED = SC.BO_NONE
INTERLEAVED_ANY = (SC.BO_NONE, SC.BO_NONFINAL, SC.BO_FINAL)


def eval_multi(case: Dict[str, Any]) -> Tuple[List[Violation], List[str], bool]:
    """Drive the drivers of a multi case side by side on one thread, and each of them alone; every driver must
    show the same observation both ways and pass the ordinary verdicts."""
    resp = _call({"cmd": "c18.multi", "cases": [case]})
    if not resp.get("ok"):
        raise HarnessError(f"c18.multi failed: {str(resp)[:300]}")
    mo = resp["results"][0]
    out: List[Violation] = []
    labels = [f"drivers:{len(case['drivers'])}", "create:" + case.get("create", "upfront")]
    # what else ran on the thread: the suffix separates "a foreign future's events reach a driver" (by the poll
    # in which they were emitted) from plain interleaving
    flavour = SC.interlude_flavour(case["order"])
    suffix = SC.interlude_suffix(case["order"])
    if flavour:
        labels.append("block_on-emits:" + flavour)
    if not mo.get("ok"):
        out.append(Violation("crash", "AsyncDriver" + suffix, "panic or error inside the driver", case,
                             str(mo.get("panic") or mo.get("error"))[:300]))
        return out, labels + ["crash"], False
    solo = _rust_sched(case["drivers"])
    for i, dcase in enumerate(case["drivers"]):
        vs_solo, _, _ = SC.check(dcase, solo[i])
        vs_int, _, _ = SC.check(dcase, mo["drivers"][i])
        solo_keys = {v.key() for v in vs_solo}
        out.extend(vs_solo)  # not specific to the interleaving: reported on the stand-alone case
        fresh = [v for v in vs_int if v.key() not in solo_keys]
        # one root cause usually trips several verdicts; the first one (check order: first-poll, wake-exact,
        # time-monotonic, budget-window, ...) is the most fundamental
        for v in fresh[:0 if any(x.where.endswith(INTERLEAVED_ANY) for x in out) else 1]:
            out.append(Violation(v.subcheck, v.where + suffix, v.symptom, case, f"driver {i}: " + v.detail))
        if not fresh and not vs_solo:
            a, b = mo["drivers"][i], solo[i]
            diff = [k for k in ("log", "results", "budgets", "spawn_clock", "done") if a.get(k) != b.get(k)]
            if diff:
                out.append(Violation("isolation", "AsyncDriver" + suffix,
                                     "a driver behaves differently from the same driver run alone: " + ",".join(diff),
                                     case, f"driver {i}: interleaved {str({k: a.get(k) for k in diff})[:300]} alone "
                                           f"{str({k: b.get(k) for k in diff})[:300]}"))
    ex = mo.get("executed", [])
    drv = [e for e in ex if isinstance(e, int)]
    # alternation: some driver is stepped again after a different one ran in between (A .. B .. A)
    alternates = any(drv[j] != drv[j + 1] and drv[j] in drv[j + 2:] for j in range(len(drv) - 1))
    active = sum(1 for o in mo["drivers"] if o and o.get("log"))
    if "block_on" in ex:
        labels.append("block_on-interlude")
    if len({int(d.get("clock0") or 0) for d in case["drivers"]}) > 1:
        labels.append("clock0:drivers-differ")
    if alternates:
        labels.append("alternating")
    return out, labels, bool(alternates and active >= 2)


# ------------------------------------------------------------------------------------------------
# scheduler: long scripts (thousands of steps, long same-cycle chains)
# ------------------------------------------------------------------------------------------------
# The enumerated space and the Hypothesis cases have at most 6 steps per task; nothing in the statement bounds the
# length of a sleep sequence or the number of wake-ups served within one cycle, so chain length is a generated
# dimension too (compact [d, ev, rep] notation), with lengths around powers of two and ten.

Q_REP = (7, 100, 101, 255, 256, 257, 999, 1000, 1001, 1023, 1024, 1025, 2000, 4095, 4096, 4097, 5000)
T_REP = Q_REP + (9999, 10000, 10001, 32767, 32768, 32769, 65535, 65536, 65537, 100000)


def _long_cases(tier: str, seed: int, n_random: int) -> Iterator[Tuple[str, Dict[str, Any]]]:
    reps = Q_REP if tier == "quick" else T_REP
    cap = 12000 if tier == "quick" else 220000
    # systematic: a chain of rep equal steps, then one ordinary sleep with an event; 1 or 2 tasks
    for rep_n in reps:
        for d in (0, 1, SC.YIELD):
            for ntasks in (1, 2):
                for budgets in ([], [2], [1, 3]):
                    ops = [[[d, 0, rep_n], [1 + i, 1, 1]] for i in range(ntasks)]
                    tasks = _assign_events_rep(ops)
                    yield "long:systematic", _mk_case(tasks, list(budgets))
    # chains of equal sleeps around the power-of-two durations (every wake-up lands one "bucket" further)
    for rep_n in (7, 100, 1000):
        for d in (63, 64, 65, 255, 256, 257):
            for ntasks in (1, 2):
                for budgets in ([], [d], [1, 3 * d]):
                    ops = [[[d + i, 0, rep_n], [1 + i, 1, 1]] for i in range(ntasks)]
                    yield "long:systematic", _mk_case(_assign_events_rep(ops), list(budgets))
    # a sleep future constructed in the first poll and awaited only after the whole chain
    for rep_n in reps:
        for d, da in ((0, 3), (1, 0), (1, 2), (SC.YIELD, 1), (1, rep_n), (1, rep_n + 1)):
            for budgets in (([], [2]) if rep_n <= 5000 else ([],)):
                ops = [[[d, 0, rep_n], [da, 1, 1], [2, 1, 1]]]
                tasks = _assign_events_rep(ops)
                tasks[0]["ops"][1] = tasks[0]["ops"][1][:2] + [1, rep_n + 7]
                yield "long:systematic", _mk_case(tasks, list(budgets))
    for k in range(n_random):
        st = Stream(seed, k, 0x10C18)
        ntasks = 1 + st.below(3)
        ops = []
        total = 0
        for _ in range(ntasks):
            t = []
            for _ in range(1 + st.below(4)):
                d = st.choice((0, 0, 0, 0, 1, 1, 2, 3, SC.YIELD))
                r = st.choice(reps) if st.chance(1, 2) else 1 + st.below(3)
                if total + r > cap:
                    r = 1
                total += r
                t.append([d, 1 if st.chance(1, 3) else 0, r])
            ops.append(t)
        nb = st.below(4)
        budgets = [st.choice((1, 2, 3, 5, 100, 1000, 5000)) for _ in range(nb)]
        se = [st.chance(1, 6) for _ in range(ntasks)]
        at = [st.below(nb + 1) if (nb and st.chance(1, 4)) else 0 for _ in range(ntasks)]
        clock0 = st.choice((0, 0, None, 1, 7, 2 ** 32 + 5))
        yield "long:random", _mk_case(_assign_events_rep(ops, se, at), budgets, clock0)


def _assign_events_rep(task_ops: List[List[List[Any]]], se: Optional[List[bool]] = None,
                       at: Optional[List[int]] = None) -> List[Dict[str, Any]]:
    """like _assign_events for ops given as [d, emit?, rep]"""
    tasks = _assign_events([[[d, e] for d, e, _ in ops] for ops in task_ops], se, at)
    for t, ops in zip(tasks, task_ops):
        for o, (_, _, r) in zip(t["ops"], ops):
            if r != 1:
                o.append(r)
    return tasks


def _long_shard(task: Tuple[int, int, str, int, int]) -> Report:
    shard, nshards, tier, seed, n_random = task
    rep = Report()
    for n, (fam, case) in enumerate(_long_cases(tier, seed, n_random)):
        if n % nshards != shard:
            continue
        vs, labels, nt = eval_sched(case)
        _record(rep, case, vs, labels, nt, 97, (fam,))
    return rep


# ------------------------------------------------------------------------------------------------
# scheduler: the duration dimension (every small value, every power-of-two neighbourhood)
# ------------------------------------------------------------------------------------------------
# The enumerated space uses a palette of <= 6 durations and Hypothesis mostly small ones; the statement says
# "arbitrary cycle counts".  The reference scheduler is exact for every duration, so the whole verdict set applies.

def dur_values(tier: str) -> List[int]:
    return sorted(set(range(0, 201)) | set(HOT_D if tier == "quick" else HOT_D_THOROUGH))


def _dur_cases(tier: str, seed: int, n_random: int) -> Iterator[Tuple[str, Dict[str, Any]]]:
    vals = dur_values(tier)
    hot = HOT_D if tier == "quick" else HOT_D_THOROUGH
    for n, d in enumerate(vals):
        # one sleeper, every start-clock alignment class
        for clock0 in (None, 1, 63, 64, 2 ** 32 + 5):
            yield "dur:systematic", _mk_case(_assign_events([[[d, 1]]]), [], clock0)
        # the same duration twice in a row, budgets cut at / next to the wake-up
        for budgets in ([d], [d + 1], [1, d]):
            yield "dur:systematic", _mk_case(_assign_events([[[d, 0], [d, 1]]]), budgets, HOT_CLOCK[n % len(HOT_CLOCK)])
        # two tasks reach the same cycle, one by a long sleep, one by two short ones (both request orders)
        if d >= 1:
            yield "dur:systematic", _mk_case(_assign_events([[[d, 1]], [[d - 1, 0], [1, 1]]]), [])
            yield "dur:systematic", _mk_case(_assign_events([[[1, 0], [d, 1]], [[d + 1, 1]]]), [d])
        # neighbours side by side
        yield "dur:systematic", _mk_case(_assign_events([[[d, 1]], [[d + 1, 1]], [[max(d - 1, 0), 1]]]), [])
    for k in range(n_random):
        st = Stream(seed, k, 0xD0C18)

        def one_d() -> int:
            r = st.below(10)
            if r < 5:
                return st.choice(hot)
            if r < 8:
                return st.below(201)
            if r < 9:
                return max(0, st.choice(hot) + st.below(7) - 3)
            return st.choice((0, 0, 1, 2, 3, SC.YIELD))

        ntasks = 1 + st.below(3)
        ops = [[[one_d(), 1 if st.chance(1, 3) else 0] for _ in range(1 + st.below(5))] for _ in range(ntasks)]
        flat = [o[0] for t in ops for o in t if o[0] >= 0] or [1]
        nb = st.below(4)
        budgets = []
        for _ in range(nb):
            b = st.choice(flat)
            budgets.append(st.choice((1, 2, 3, 64, 100, 2 ** 20, b, b + 1, max(b - 1, 0), 2 * b)))
        se = [st.chance(1, 6) for _ in range(ntasks)]
        at = [st.below(nb + 1) if (nb and st.chance(1, 4)) else 0 for _ in range(ntasks)]
        yield "dur:random", _mk_case(_assign_events(ops, se, at), budgets, st.choice(HOT_CLOCK))


def _dur_shard(task: Tuple[int, int, str, int, int]) -> Report:
    shard, nshards, tier, seed, n_random = task
    rep = Report()
    seen = set()
    for n, (fam, case) in enumerate(_dur_cases(tier, seed, n_random)):
        if n % nshards != shard:
            continue
        vs, labels, nt = eval_sched(case)
        ds = {o[0] for t in case["tasks"] for o in t["ops"]}
        seen |= ds
        extra = [fam]
        if any(d in HOT_D_THOROUGH for d in ds if d > 3):
            extra.append("dur:power-of-two-neighbourhood")
        if any(20 < d <= 200 for d in ds):
            extra.append("dur:21..200")
        _record(rep, case, vs, labels, nt, 397, tuple(extra))
    rep.extra["durations_seen"] = sorted(d for d in seen if d >= 0)
    return rep


# ------------------------------------------------------------------------------------------------
# scheduler: where a sleep future is constructed (arm now, await later; built by the host; built and dropped)
# ------------------------------------------------------------------------------------------------
# Every in-tree user writes `sleep_cycles(d).await`, where construction and first poll fall into one resumption.
# The statement speaks of the cycle a task *asked for*; a sleep asks when it is first polled (anchors: "sleep future
# records its absolute wake cycle on first poll"), so the place of the constructor call is a free dimension of a
# task's source text: `let nap = sleep_cycles(d); work().await; nap.await` (arm a timeout, work, wait for it), a
# future handed to the task by the host, a future that is constructed and never awaited.  The reference scheduler
# and every verdict are unchanged (they count d from the resumption that awaits), plus one oracle-free comparison
# with the same script written with ordinary `sleep_cycles(d).await` everywhere (construction-independence).

def _defer_cases(tier: str, seed: int, n_random: int) -> Iterator[Tuple[str, Dict[str, Any]]]:
    quick = tier == "quick"
    pal_a = (0, 1, 2, 3, 5, 8)
    pal_w = (0, 1, 2, 5, SC.YIELD) if quick else (0, 1, 2, 3, 5, SC.YIELD)
    works: List[Tuple[int, ...]] = []
    for n in ((1, 2) if quick else (1, 2, 3)):
        works += list(itertools.product(pal_w, repeat=n))
    # (A) arm - work - wait inside one task, then one more ordinary sleep; alone / next to a ticker task
    for da in pal_a:
        for work in works:
            for k in range(1, len(work) + 1):
                ops = [[w, 0] for w in work] + [[da, 1], [2, 1]]
                mks: List[Any] = [None] * len(work) + [k, None]
                for n, (budgets, clock0) in enumerate((([], None), ([1], 0), ([2, 3], 7), ([100], 40),
                                                       ([da + 1], 2 ** 32 + 5))):
                    yield "defer:arm-work-wait", _mk_case(_with_mk(_assign_events([ops]), [mks]), list(budgets), clock0)
                    tick = [[1, 0]] * 6
                    if n % 2:
                        tasks = _with_mk(_assign_events([tick, ops]), [[], mks])
                    else:
                        tasks = _with_mk(_assign_events([ops, tick]), [mks, []])
                    yield "defer:arm-work-wait", _mk_case(tasks, list(budgets), clock0)
    # (B) the host constructs the sleep future (right before spawn / right after constructing the driver) and moves
    # it into the task: first or second sleep of the script, every start clock, spawned before call 0, 1, 2
    for da in pal_a:
        for place in ("spawn", "new"):
            for clock0 in (None, 0, 1, 7, 64, 2 ** 32 + 5):
                for at in (0, 1, 2):
                    for first in (True, False):
                        ops = [[da, 1], [2, 1]] if first else [[3, 0], [da, 1]]
                        mks = [place, None] if first else [None, place]
                        tasks = _with_mk(_assign_events([ops, [[4, 0], [4, 0]]], None, [at, 0]), [mks, []])
                        yield "defer:host-built", _mk_case(tasks, [3, 2, 5][:max(at, 1)], clock0)
    # (C) the duration sweep: counted from its construction, the deadline would lie ahead of / exactly at / behind
    # the cycle of the await
    for n, d in enumerate(dur_values(tier)):
        for w in (1, d, d + 1):
            tasks = _with_mk(_assign_events([[[w, 0], [d, 1], [1, 1]]]), [[None, 1, None]])
            yield "defer:dur", _mk_case(tasks, [] if n % 2 else [d], HOT_CLOCK[n % len(HOT_CLOCK)])
        clock0 = (1, 7, 63, 64, 65, 4095, 2 ** 16 - 1, 2 ** 32 + 5)[n % 8]
        tasks = _with_mk(_assign_events([[[d, 1], [1, 1]]]), [["spawn" if n % 2 else "new", None]])
        yield "defer:dur", _mk_case(tasks, [], clock0)
    # (D) random mixes
    hot = HOT_D if quick else HOT_D_THOROUGH
    for k in range(n_random):
        st = Stream(seed, k, 0xDEFC18)

        def one_d() -> int:
            r = st.below(10)
            if r < 6:
                return st.choice((0, 0, 1, 1, 2, 3, 5, 8, SC.YIELD))
            if r < 8:
                return st.below(41)
            return st.choice(hot)

        ntasks = 1 + st.below(3)
        ops = [[[one_d(), 1 if st.chance(1, 3) else 0] for _ in range(1 + st.below(6))] for _ in range(ntasks)]
        mks = [[st.choice((1, 1, 2, 3, 5, "spawn", "new")) if st.chance(1, 2) else None for _ in t] for t in ops]
        ghosts = [[[st.below(len(t) + 1) - 1, st.choice(T_D)] for _ in range(1 + st.below(2))] if st.chance(1, 3) else []
                  for t in ops]
        flat = [o[0] for t in ops for o in t if o[0] >= 0] or [1]
        nb = st.below(4)
        budgets = []
        for _ in range(nb):
            b = st.choice(flat)
            budgets.append(st.choice((1, 2, 3, 5, 100, b, b + 1, 2 * b + 1)))
        se = [st.chance(1, 6) for _ in range(ntasks)]
        at = [st.below(nb + 1) if (nb and st.chance(1, 3)) else 0 for _ in range(ntasks)]
        tasks = _with_mk(_assign_events(ops, se, at), mks, ghosts)
        yield "defer:random", _mk_case(tasks, budgets, st.choice(HOT_CLOCK))


def _defer_shard(task: Tuple[int, int, str, int, int]) -> Report:
    shard, nshards, tier, seed, n_random = task
    rep = Report()
    for n, (fam, case) in enumerate(_defer_cases(tier, seed, n_random)):
        if n % nshards != shard:
            continue
        vs, labels, nt = eval_sched(case)
        _record(rep, case, vs, labels, nt, 797, (fam,))
    return rep


# ------------------------------------------------------------------------------------------------
# scheduler: event payloads (several tasks emit an EQUAL DriverEvent, also within one cycle)
# ------------------------------------------------------------------------------------------------
# _assign_events gives every emission its own id, which makes "exactly once" a set comparison -- and holds the
# payload constant as a dimension: no two emissions of a case ever carry equal values.  The statement says "returns
# every emitted event exactly once and in emission order" about emissions, whatever their value: in-tree tasks emit
# one constant id per task (AsyncDisplayTask: the same User(id) every frame) and nothing stops two tasks from
# sharing one.  Payload cases draw the ids from a palette of 1-3 values; the reference scheduler returns every
# emission (a multiset per cycle, in order), SC.check compares the sequences value by value.

# (disjoint from the ids block_on interludes emit in multi cases: 1, 2, 7, 900, 901)
EV_PALETTES = ((42,), (42,), (42, 42, 43), (0, 2 ** 32 - 1), (70, 70, 70, 80), (5, 6, 9))


def _repaint(tasks: List[Dict[str, Any]], pick: Any) -> List[Dict[str, Any]]:
    """Replace the id of every emission by pick(task index, step index (-1 = first poll))."""
    for i, t in enumerate(tasks):
        if t.get("se") is not None:
            t["se"] = pick(i, -1)
        for j, o in enumerate(t["ops"]):
            if o[1] is not None:
                o[1] = pick(i, j)
    return tasks


def _payload_cases(tier: str, seed: int, n_random: int) -> Iterator[Tuple[str, Dict[str, Any]]]:
    quick = tier == "quick"
    # (A) periodic emitters (the shape of AsyncDisplayTask: sleep period, emit the task's id, repeat) with shared /
    # per-task / partly shared ids, with and without an emission in the first poll
    shapes: List[Tuple[int, ...]] = [(p, q) for p in (1, 2, 3, 4, 6) for q in (1, 2, 3, 4, 6) if p <= q]
    shapes += [(1, 2, 3), (2, 3, 6), (2, 2, 2), (3, 6, 6), (1, 1, 4, 4)]
    for periods in shapes:
        ops = [[[p, 1]] * max(2, min(6, 12 // p)) for p in periods]
        for ids in ("shared", "per-task", "first-two"):
            if ids == "first-two" and len(periods) < 3:
                continue
            for se in (False, True):
                for budgets, clock0 in (([], None), ([1], 0), ([2, 3], 7), ([100], 40), ([6, 6], 2 ** 32 + 5)):
                    tasks = _assign_events(ops, [se] * len(periods))
                    if ids == "shared":
                        _repaint(tasks, lambda i, j: 42)
                    elif ids == "per-task":
                        _repaint(tasks, lambda i, j: 40 + i)
                    else:
                        _repaint(tasks, lambda i, j: 42 if i < 2 else 43)
                    yield "payload:periodic", _mk_case(tasks, list(budgets), clock0)
    # (B) complete: 2 tasks x 1-2 steps, d in {0,1,2}, every event placement, every emission carries the same id
    # (thorough: d in {0,1,2,3} and 3 budget lists more)
    s12 = _scripts((0, 1, 2) if quick else (0, 1, 2, 3), (1, 2))
    blists = [[], [1], [2], [1, 2]] if quick else [[], [1], [2], [3], [1, 2], [2, 1], [1, 1]]
    for a in s12:
        for b in s12:
            if not (any(e for _, e in a) and any(e for _, e in b)):
                continue  # a task that never emits cannot collide
            for bl in blists:
                yield "payload:enum-2tasks-one-id", _mk_case(_repaint(_assign_events([a, b]), lambda i, j: 42), list(bl))
    # (C) random mixes: ids from a palette of 1-3 values
    for k in range(n_random):
        st = Stream(seed, k, 0xE7C18)
        pal = st.choice(EV_PALETTES)
        ntasks = 1 + st.below(4)
        ops = [[[st.choice((0, 0, 1, 1, 1, 2, 2, 3, 4, 6, SC.YIELD)), 1 if st.chance(2, 3) else 0]
                for _ in range(1 + st.below(5))] for _ in range(ntasks)]
        nb = st.below(4)
        budgets = [st.choice((1, 2, 3, 5, 100)) for _ in range(nb)]
        se = [st.chance(1, 3) for _ in range(ntasks)]
        at = [st.below(nb + 1) if (nb and st.chance(1, 4)) else 0 for _ in range(ntasks)]
        tasks = _assign_events(ops, se, at)
        per_task = st.chance(1, 3)  # one constant id per task (in-tree style) / any id at any emission
        fixed = [st.choice(pal) for _ in range(ntasks)]
        _repaint(tasks, (lambda i, j: fixed[i]) if per_task else (lambda i, j: st.choice(pal)))
        yield "payload:random", _mk_case(tasks, budgets, st.choice(HOT_CLOCK))


# ------------------------------------------------------------------------------------------------
# scheduler: budget magnitudes over the whole u64 range
# ------------------------------------------------------------------------------------------------
# Every other family passes small budgets, 2^32..2^58, and 2^63 for the tail, always with clock + budget < 2^64.  The
# unit of run_for is *relative* cycles and its domain is u64: the "unlimited" budget run_for(u64::MAX) is the idiom of
# the repository's own host loop (bin/pce500.rs), and a host issues it again after every returned event, i.e. with a
# clock > 0.  Budget cases draw budgets (and the tail budget) from {u64::MAX, u64::MAX-1, 2^63, 2^63+1, 2^64-2^32,
# (u64::MAX - clock) + {-2..2}, uniform 64-bit} next to small ones, for start clocks 0 .. 2^64-2^32; clock + budget is
# mathematically >= 2^64 in most calls.  Sleeps stay small, so every wake-up cycle is far below 2^64-1 and "serve the
# wake-ups in [c, c+b)" (unbounded sum == saturating sum) is exact: an unlimited budget runs to the next event or to
# completion.

U64 = 2 ** 64 - 1
BIG_CLOCK = (None, 0, 1, 7, 12, 64, 2 ** 32 + 5, 2 ** 62, 2 ** 63 + 1, 2 ** 64 - 2 ** 32)


def _big_budget(st: Stream, clk: int) -> int:
    r = st.below(10)
    if r < 3:
        return U64
    if r < 4:
        return st.choice((U64 - 1, 2 ** 63, 2 ** 63 + 1, 2 ** 64 - 2 ** 32))
    if r < 7:
        return max(0, min(U64, U64 - clk + st.below(5) - 2))
    if r < 8:
        return (st.u32() << 32) | st.u32()
    return st.choice((1, 2, 3, 5, 100))


def _clock_after(case: Dict[str, Any], budgets: List[int]) -> int:
    """driver clock after the given run_for calls (reference scheduler)"""
    if not budgets:
        return int(case.get("clock0") or 0)
    return SC.model(SC.expanded(case), budgets)["results"][-1][2]


def _budget_cases(tier: str, seed: int, n_random: int) -> Iterator[Tuple[str, Dict[str, Any]]]:
    # systematic: a host loop around an unlimited budget -- small task sets x start clock x tail budget x explicit
    # budget lists whose big entries are derived from the clock the driver has when the call is issued
    task_sets = [
        [[[4, 1], [2, 1], [3, 1], [1, 0]]],
        [[[4, 1], [2, 0], [3, 1]], [[3, 0], [3, 1], [0, 1]]],
        [[[1, 0], [1, 0], [1, 1]], [[2, 1], [SC.YIELD, 0]], [[5, 0]]],
        [[[0, 1], [7, 0], [1, 1]]],
    ]
    for n, ops in enumerate(task_sets):
        for clock0 in BIG_CLOCK:
            c0 = int(clock0 or 0)
            for tail in (U64, U64 - 1, 2 ** 63, max(1, U64 - c0 - 3)):
                for bl in ([], [U64], [U64, U64], [3, U64], [5, 2 ** 63 + 1, U64], ["near-1"], ["near"], ["near+1"],
                           [4, "near+1", 2, "near"], [0, U64]):
                    case = _mk_case(_assign_events(ops, [n % 2 == 1] * len(ops)), [], clock0)
                    case["tail_budget"] = tail
                    budgets: List[int] = []
                    for b in bl:
                        if isinstance(b, str):
                            clk = _clock_after(case, budgets)
                            b = max(0, min(U64, U64 - clk + {"near-1": -1, "near": 0, "near+1": 1}[b]))
                        budgets.append(b)
                    case["budgets"] = budgets
                    case["tail_max"] += len(budgets)
                    yield "budget:systematic", case
    for k in range(n_random):
        st = Stream(seed, k, 0xB6C18)
        ntasks = 1 + st.below(3)
        ops = [[[st.choice((0, 1, 1, 2, 3, 4, 7, 64, 1000, SC.YIELD)), 1 if st.chance(1, 2) else 0]
                for _ in range(1 + st.below(5))] for _ in range(ntasks)]
        nb = st.below(5)
        se = [st.chance(1, 5) for _ in range(ntasks)]
        at = [st.below(nb + 1) if (nb and st.chance(1, 4)) else 0 for _ in range(ntasks)]
        case = _mk_case(_assign_events(ops, se, at), [], st.choice(BIG_CLOCK))
        case["tail_budget"] = st.choice((U64, U64, U64 - 1, 2 ** 63, 2 ** 64 - 2 ** 32, TAIL_BUDGET))
        budgets = []
        for _ in range(nb):
            budgets.append(_big_budget(st, _clock_after(case, budgets)))
        case["budgets"] = budgets
        case["tail_max"] += nb
        yield "budget:random", case


def _extra_shard(task: Tuple[int, int, str, int, int, int]) -> Report:
    shard, nshards, tier, seed, n_payload, n_budget = task
    rep = Report()
    gen = itertools.chain(_payload_cases(tier, seed, n_payload), _budget_cases(tier, seed, n_budget))
    for n, (fam, case) in enumerate(gen):
        if n % nshards != shard:
            continue
        vs, labels, nt = eval_sched(case)
        _record(rep, case, vs, labels, nt, 397, (fam, fam.split(":")[0] + ":any"))
    return rep


def eval_sched(case: Dict[str, Any]) -> Tuple[List[Violation], List[str], bool]:
    """Run one scheduler case (plus its single-budget reference and a repeat) and return the verdicts."""
    late = any(t.get("at", 0) > 0 for t in case["tasks"])
    batch = [case, case]
    i_ref = i_plain = None
    if not late and case["budgets"]:
        refc = dict(case)
        refc["budgets"] = []
        i_ref = len(batch)
        batch.append(refc)
    if SC.has_construction(case):
        i_plain = len(batch)
        batch.append(SC.strip_construction(case))
    obs = _rust_sched(batch)
    return SC.check(case, obs[0], ref=None if i_ref is None else obs[i_ref], again=obs[1],
                    plain=None if i_plain is None else obs[i_plain])


# ------------------------------------------------------------------------------------------------
# CPU equivalence
# ------------------------------------------------------------------------------------------------

def _cpu_shard(task: Tuple[int, int, int, int]) -> Report:
    shard, seed, n_programs, n_variants = task
    rep = Report()
    pool, filtered = PG.make_pool(mix32(seed, shard, 0xC0DE), 400)
    rep.filtered += filtered
    batch: List[Tuple[Dict[str, Any], List[str]]] = []

    def flush() -> None:
        nonlocal batch
        if not batch:
            return
        obs = _rust_cpu([c for c, _ in batch])
        for (case, labels), o in zip(batch, obs):
            vs, lab2, nt = PG.check_cpu(case, o)
            _record(rep, case, vs, labels + lab2, nt, 397, ("cpu",))
        batch = []

    for p in range(n_programs):
        st = Stream(seed, shard, p, 0xC18)
        prog, plabels = PG.gen_program(st, pool)
        for case, vlabels in PG.variants(st, prog, n_variants):
            batch.append((case, plabels + vlabels))
        if len(batch) >= 24:
            flush()
    flush()
    return rep


def _dispatch(task: Tuple[Any, ...]) -> Report:
    kind = task[0]
    try:
        if kind == "enum":
            return _enum_shard(task[1:])
        if kind == "hyp":
            return _hyp_shard(task[1:])
        if kind == "multi":
            return _multi_shard(task[1:])
        if kind == "long":
            return _long_shard(task[1:])
        if kind == "dur":
            return _dur_shard(task[1:])
        if kind == "defer":
            return _defer_shard(task[1:])
        if kind == "extra":
            return _extra_shard(task[1:])
        return _cpu_shard(task[1:])
    except _Hang as exc:
        # The shard's partial results are dropped; run() turns this into exit 2 unless another shard produced a
        # genuine (unlisted) violation, in which case that violation is the more useful report.
        rep = Report()
        rep.extra["hangs"] = 1
        rep.inconclusive.append(f"{kind} shard {task[1]}: {exc}")
        return rep


def run(ctx: Ctx) -> Report:
    rsclient.build()
    PG.self_test()
    n_enum = 16 if ctx.quick else 48
    n_hyp = ctx.pick(2500, 20000)
    n_prog, n_var = ctx.pick((30, 4), (190, 6))
    tasks: List[Tuple[Any, ...]] = []
    # core.mix32(seed, shard, ...) begins with seed ^ shard, so small seeds would only permute the shard streams;
    # avalanche the seed first so that different VERIF_SEEDs explore different cases.
    base = mix32(ctx.seed, 0xC18C18)
    for i in range(16):
        tasks.append(("cpu", i, base, n_prog, n_var))
    for i in range(16):
        tasks.append(("hyp", i, base, n_hyp))
    for i in range(16):
        tasks.append(("long", i, 16, ctx.tier, base, ctx.pick(480, 1600)))
    for i in range(16):
        tasks.append(("multi", i, base, ctx.pick(600, 4000)))
    for i in range(16):
        tasks.append(("dur", i, 16, ctx.tier, base, ctx.pick(2400, 16000)))
    for i in range(16):
        tasks.append(("defer", i, 16, ctx.tier, base, ctx.pick(3000, 24000)))
    for i in range(16):
        tasks.append(("extra", i, 16, ctx.tier, base, ctx.pick(3000, 24000), ctx.pick(3000, 24000)))
    for i in range(n_enum):
        tasks.append(("enum", i, n_enum, ctx.tier))
    reports = ctx.pmap(_dispatch, tasks)
    seen = set()
    for r in reports:
        seen.update(r.extra.pop("durations_seen", []))
    rep = ctx.merge_reports(reports)
    rep.extra.pop("durations_seen", None)
    missing = [d for d in dur_values(ctx.tier) if d not in seen]
    if missing and not rep.extra.get("hangs"):
        raise HarnessError(f"c18: duration family did not cover {missing[:10]}")
    rep.extra["durations_covered"] = (f"every sleep duration 0..200 and 2^k-1, 2^k, 2^k+1 for k <= "
                                      f"{16 if ctx.quick else 40}: {len(dur_values(ctx.tier))} values, each in >= 9 systematic cases")
    if rep.extra.get("hangs"):
        from .. import findings as F
        entries = F.load_findings(PROPERTY)
        if not any(F.match_open(entries, v) is None for v in rep.violations):
            raise HarnessError("; ".join(rep.inconclusive[:2]))
    rep.rule = RULE
    rep.exhaustive = True  # the enumerated scheduler sub-space (see rule) was completed; Hypothesis/CPU parts are samples
    rep.extra["exhaustive_scope"] = "enumerated scheduler families only (labels enum:*); hyp and cpu cases are generated samples"
    rep.assumptions = list(ASSUMPTIONS)
    return rep


# ------------------------------------------------------------------------------------------------
# replay / shrink
# ------------------------------------------------------------------------------------------------

def replay(ctx: Ctx, case: Dict[str, Any]) -> List[Violation]:
    rsclient.build()
    if case.get("kind") == "cpu":
        obs = _rust_cpu([case])
        vs, _, _ = PG.check_cpu(case, obs[0])
        return vs
    if case.get("kind") == "multi":
        vs, _, _ = eval_multi(case)
        return vs
    vs, _, _ = eval_sched(case)
    return vs


def _sched_candidates(case: Dict[str, Any]) -> Iterator[Dict[str, Any]]:
    tasks = case["tasks"]
    if len(tasks) > 1:
        for i in range(len(tasks)):
            c = copy.deepcopy(case)
            del c["tasks"][i]
            yield c
    for i in range(len(case["budgets"])):
        c = copy.deepcopy(case)
        del c["budgets"][i]
        for t in c["tasks"]:
            if t.get("at", 0) > i:
                t["at"] -= 1
        yield c
    for i, t in enumerate(tasks):
        for j in range(len(t["ops"]) - 1, -1, -1):
            c = copy.deepcopy(case)
            del c["tasks"][i]["ops"][j]
            yield c
        if t.get("se") is not None:
            c = copy.deepcopy(case)
            c["tasks"][i].pop("se")
            yield c
        for g in range(len(t.get("gh") or [])):
            c = copy.deepcopy(case)
            del c["tasks"][i]["gh"][g]
            yield c
        for j, o in enumerate(t["ops"]):
            if SC.op_mk(o) is not None:
                c = copy.deepcopy(case)
                c["tasks"][i]["ops"][j] = list(o[:2])
                yield c
                if o[3] not in (1, "spawn"):
                    c = copy.deepcopy(case)
                    c["tasks"][i]["ops"][j][3] = 1 if isinstance(o[3], int) else "spawn"
                    yield c
        if t.get("at", 0):
            c = copy.deepcopy(case)
            c["tasks"][i]["at"] = 0
            yield c
    if case.get("clock0"):
        c = copy.deepcopy(case)
        c["clock0"] = 0
        yield c
    for i, t in enumerate(tasks):
        for j, o in enumerate(t["ops"]):
            r = o[2] if len(o) > 2 else 1
            for nr in (1, r // 2, r - 1):
                if 1 <= nr < r:
                    c = copy.deepcopy(case)
                    c["tasks"][i]["ops"][j][2] = nr
                    yield c
    for i, t in enumerate(tasks):
        for j, o in enumerate(t["ops"]):
            d, ev = o[0], o[1]
            for nd in (0, 1, 2, d // 2):
                if 0 <= nd < d:
                    c = copy.deepcopy(case)
                    c["tasks"][i]["ops"][j][0] = nd
                    yield c
            if ev is not None:
                c = copy.deepcopy(case)
                c["tasks"][i]["ops"][j][1] = None
                yield c
    for i, b in enumerate(case["budgets"]):
        for nb in (1, 2, 3, b // 2):
            if 0 < nb < b:
                c = copy.deepcopy(case)
                c["budgets"][i] = nb
                yield c


def _multi_candidates(case: Dict[str, Any]) -> Iterator[Dict[str, Any]]:
    n = len(case["drivers"])
    if n > 2:
        for i in range(n):
            c = copy.deepcopy(case)
            del c["drivers"][i]
            c["order"] = [(e - 1 if e > i else e) if isinstance(e, int) else e
                          for e in c["order"] if not (isinstance(e, int) and e == i)]
            yield c
    if case["order"]:
        c = copy.deepcopy(case)
        c["order"] = []
        yield c
    for j in range(len(case["order"])):
        c = copy.deepcopy(case)
        del c["order"][j]
        yield c
    if case.get("create") != "upfront":
        c = copy.deepcopy(case)
        c["create"] = "upfront"
        yield c
    for j, e in enumerate(case["order"]):
        if isinstance(e, dict):
            for sub in _interlude_candidates(e):
                c = copy.deepcopy(case)
                c["order"][j] = sub
                yield c
    for i in range(n):
        for sub in _sched_candidates(case["drivers"][i]):
            c = copy.deepcopy(case)
            c["drivers"][i] = sub
            yield c


def _interlude_candidates(e: Dict[str, Any]) -> Iterator[Dict[str, Any]]:
    ops = e.get("ops") or []
    for j in range(len(ops)):
        c = copy.deepcopy(e)
        del c["ops"][j]
        yield c
    if e.get("se") is not None:
        c = copy.deepcopy(e)
        c.pop("se")
        yield c
    for j, o in enumerate(ops):
        if o[1] is not None:
            c = copy.deepcopy(e)
            c["ops"][j][1] = None
            yield c
        if o[0] not in (0, 1):
            c = copy.deepcopy(e)
            c["ops"][j][0] = 1
            yield c


def _cpu_candidates(case: Dict[str, Any]) -> Iterator[Dict[str, Any]]:
    inter = case.get("interludes")
    if len(case["calls"]) > 1:
        for i in range(len(case["calls"])):
            c = copy.deepcopy(case)
            del c["calls"][i]
            if inter:
                del c["interludes"][i]
            yield c
    if inter:
        c = copy.deepcopy(case)
        c.pop("interludes")
        yield c
        for i, e in enumerate(inter):
            if e is None:
                continue
            c = copy.deepcopy(case)
            c["interludes"][i] = None
            yield c
            for sub in _interlude_candidates(e):
                c = copy.deepcopy(case)
                c["interludes"][i] = sub
                yield c
    for i, n in enumerate(case["calls"]):
        for nn in (0, 1, 2, n // 2, n - 1):
            if 0 <= nn < n:
                c = copy.deepcopy(case)
                c["calls"][i] = nn
                yield c
    if case.get("warm"):
        c = copy.deepcopy(case)
        c["warm"] = 0
        yield c
    if case.get("keys"):
        c = copy.deepcopy(case)
        c["keys"] = []
        yield c
    if case["timer"].get("enabled"):
        c = copy.deepcopy(case)
        c["timer"] = {"enabled": False, "mti": 0, "sti": 0}
        yield c
    if len(case["image"]) > 3:
        c = copy.deepcopy(case)
        c["image"] = c["image"][:3]
        yield c
    body = bytes.fromhex(case["image"][0][1])
    if len(body) > 1:
        for cut in (len(body) // 2, len(body) - 1):
            c = copy.deepcopy(case)
            c["image"][0][1] = body[:cut].hex()
            yield c
    if len(case["imem"]) > 2:
        c = copy.deepcopy(case)
        c["imem"] = c["imem"][:2]
        yield c


def shrink(ctx: Ctx, v: Violation) -> Violation:
    """Greedy structural shrinking that keeps the fingerprint (bounded to ~45 s)."""
    rsclient.build()
    t_end = time.time() + 45
    best = v
    key = v.key()
    cands = {"cpu": _cpu_candidates, "multi": _multi_candidates}.get(best.case.get("kind"), _sched_candidates)
    progress = True
    while progress and time.time() < t_end:
        progress = False
        for c in cands(best.case):
            if time.time() > t_end:
                break
            try:
                vs = replay(ctx, c)
            except HarnessError:
                continue
            hit = next((x for x in vs if x.key() == key), None)
            if hit is not None:
                best = hit
                progress = True
                break
    return best
