"""C08 -- register aliasing, widths and flag packing hold after any sequence of writes.

Generated domain: histories (finite sequences) of by-name register/flag writes of arbitrary 32-bit values,
interleaved with reads and snapshot/apply round trips:

  * a Hypothesis list-of-ops strategy (<= 50 ops; boundary-biased values; optional dense read-back), and
  * a deterministic sweep: every ordered pair of writes (18 write targets incl. the C/Z flag API and two TEMPs)
    x boundary values x start states (fresh / two complementary fill patterns), each followed by a full
    read-back and a snapshot round trip; plus single-bit value probes for every register.

Every history runs on three register files -- the Python `Registers` (`py`), the Rust `LlamaState` (`rs`)
and the Rust by-name facade `CoreRuntime::set_reg/get_reg/set_flag/get_flag` (`rs-runtime`) -- and on the
reference model `c08_model.Model` (written from the statement + README register table).

Oracle: every read == model (hence Python == Rust); a snapshot round trip (Python
`CPURegistersSnapshot.from_registers -> apply_to(fresh)` optionally through the pce500 `registers.bin`
packer; Rust `collect_registers [-> pack_registers -> unpack_registers] -> apply_registers(fresh)`)
reproduces every value the same register file returned just before it.

Snapshot *generations*: the op "rtf" takes the snapshot through the real file path --
`CoreRuntime::save_snapshot(path)` -> `CoreRuntime::new().load_snapshot(path)` on the runtime facade and
`PCE500Emulator.save_snapshot(path)` -> `PCE500Emulator().load_snapshot(path)` on the Python side -- and the
freshly loaded runtime/machine *replaces* the current one, so that later writes and snapshots in the same
history are made by a register file that was itself restored from a snapshot (where state cached at load
time -- e.g. `CoreRuntime.metadata` -- can shadow the live registers).  Same oracle: the values read just
before the snapshot must be read back from the fresh register file.

Round 3:
  * EVERY name a register file accepts is in the write/read alphabet: the Rust file also has the IMR mirror
    register (`RegName::IMR`, by-name on the facade too) and accepts out-of-range scratch / unknown operand names
    (`RegName::Temp(14..)`, `RegName::Unknown`).  None of them overlaps a statement register, so writes to them
    must leave every other name alone and vice versa (the model keeps IMR as its own cell).
  * snapshots are VALUES: "snap k" takes a snapshot into a slot, the source register file keeps being written /
    executed on, "apply k" applies the slot to a fresh register file (which replaces the current one or is only
    looked at); several snapshots are live at once and are applied in generated order.  Oracle: the fresh file
    reads what the source returned when the snapshot was TAKEN.
  * executed instructions: "exec" runs one instruction on the register file (Python `CPU.execute_instruction`,
    Rust `LlamaExecutor::execute`, both over the same hash-filled memory).  The executor is just another writer
    of the register file; instruction semantics belong to C04/C06, so the model takes the values observed after
    the instruction over -- except for NOP, which writes nothing but PC (and re-syncs the IMR mirror from
    memory): there every other readable value must be unchanged.

Round 4:
  * REJECTED OPERATIONS LEAVE NO TRACE.  "badload KIND": the running machine (`PCE500Emulator` / `CoreRuntime`) is
    asked to `load_snapshot` a file its loader refuses -- KIND is generated: no such file, a directory, empty,
    random bytes, a cut archive, snapshot.json missing / not JSON / wrong magic / wrong version, registers.bin
    missing / wrong length, external_ram.bin of the wrong size; every bad archive is derived from a valid snapshot
    the same implementation saved.  If (and only if) the call is observed to fail, every name must read what it
    read just before it; the history goes on (more writes, valid round trips).  "rtf KIND": the brand-new machine
    of a file round trip refuses a load first and must still reproduce every value.  "badname": by-name
    set/get/set_flag/get_flag with a name that is no register must not change any register.
  * SNAPSHOTS ARE VALUES ALSO UNDER OBSERVATION.  "observe k WHAT": a live snapshot is looked at -- diff / reverse
    diff / == against another live snapshot or a snapshot of the current file, to_dict (and the caller empties the
    returned dict), repr, the registers.bin packer, one instruction stepped FROM it (`CPUStepper.step` /
    `CPU.step_snapshot`) -- and must restore the same values into a fresh register file before and after; the same
    snapshot object is applied several times.

Round 5:
  * LIFECYCLE.  "reset": the register file's own reset verb on the object in use (`LlamaState::reset()`; Python
    re-creates its register file) -- the history goes on writing and reading the SAME object.  The model returns to
    the fresh state; every name is read right after the reset and after the following writes / round trips.
  * NAMES ACROSS THE SNAPSHOT BOUNDARY.  "load {NAME: v}": a snapshot built from explicit named values
    (`CPURegistersSnapshot(pc=.., temps={n: v})` / a `{"TEMPn": v}` map for `apply_registers`) is applied to a fresh
    register file, which must read v under NAME.  "collect": the snapshot's dictionary form (`to_dict()` /
    `collect_registers`) must list under every name what the same register file reads under that name.  Generators put
    pairwise distinct non-zero values into (subsets of) all 14 TEMPs.
  * WRITE ORDER inside an overlap group: whole register, an alias alone, the whole register again with an equal /
    equal-after-truncation / different value (complete sweep over BA, I, F).
"""

from __future__ import annotations

import os
from typing import Any, Dict, Iterator, List, Optional, Sequence, Tuple

from ..core import ROOT, Ctx, HarnessError, Report, Violation, jhash, mix32
from .. import rsclient
from ..gen_state import Stream
from ..c08_model import (CORE_NAMES, FLAG_NAME, GROUP, INDEX, MEMBERS, NAMES, RUST_ONLY, TEMP_NAMES, WIDTH, WNAMES,
                         XNAMES, Model, mask)

PROPERTY = "C08"
RULE = ("histories of by-name writes (A,B,BA,IL,IH,I,X,Y,U,S,PC,F,FC,FZ,TEMP0..13 and the C/Z flag API) of 32-bit "
        "values (boundary set + random), interleaved with reads and snapshot round trips, each executed on the "
        "Python Registers, the Rust LlamaState and the Rust CoreRuntime by-name facade, every read compared "
        "with the reference model. Snapshot ops: direct, registers.bin blob, and the snapshot *file* path "
        "(CoreRuntime::save_snapshot/load_snapshot, PCE500Emulator.save_snapshot/load_snapshot) whose freshly "
        "loaded runtime replaces the current one, giving chains of snapshot generations. "
        "Sources: Hypothesis lists (<= 50 ops), seeded pseudo-random histories (<= 50 "
        "ops, half of them focused on one overlap group), seeded generation chains (2..5 snapshots with writes "
        "between them), a deterministic sweep of all ordered write pairs x "
        "boundary values x start states (+ single-bit value probes) and a deterministic sweep of two-generation "
        "chains (every name changed between the generations x snapshot-path pairs x start states). "
        "Round 3: the write/read alphabet also has the names only the Rust register file accepts (IMR mirror; "
        "out-of-range TEMP14/15/255 and an unknown operand name, write-only); deferred snapshots (snap into one of "
        "4 slots, more writes / executed instructions on the source, apply to a fresh file in generated order, "
        "replacing the current file or not), on the Python side through CPURegistersSnapshot or the CPU facade "
        "(snapshot_registers/apply_snapshot); executed instructions (NOP and a small palette with random operand "
        "bytes, memory hash-filled from a generated seed); deterministic sweeps: Rust-only name x every name x "
        "order (independence), every name changed between taking and applying a snapshot x kind x mode, two live "
        "snapshots applied in both orders, NOP between a write and a read-back/snapshot. "
        "Round 4: rejected operations (a snapshot load the running machine refuses -- 17 generated kinds of missing / "
        "corrupt / mismatching files derived from a valid snapshot of the same implementation --, a file round trip "
        "whose brand-new machine refuses such a load first, by-name access with a name that is no register) inside "
        "histories that go on afterwards; read-only uses of live snapshots (diff, reverse diff, ==, to_dict, repr, "
        "registers.bin packer, one instruction stepped from the snapshot; operand = another live snapshot or the "
        "current file) between taking and (repeatedly) applying them; complete sweeps kind x register x start state, "
        "access x unknown name, observer x operand x register changed, plus seeded histories mixing all of it. "
        "Round 5: the register file's lifecycle verb as an op (LlamaState::reset() on the SAME object, which is then "
        "written and read on; Python: a re-created Registers/CPU/machine) with the model returning to the fresh state; "
        "snapshots BUILT from named values (CPURegistersSnapshot(temps={n: v}, ..) / a name->value map for "
        "apply_registers) applied to a fresh file; the snapshot's dictionary form (to_dict / collect_registers) held "
        "against the reads of the same file name by name, with pairwise distinct non-zero values in the TEMPs; "
        "complete sweeps: flag/alias/TEMP write x reset x every write target, whole-register / alias / whole-register "
        "write order inside BA, I, F with an equal, equal-after-truncation or different second value, TEMP subsets x "
        "rotations for the named forms; seeded histories mixing them with round trips. "
        "Non-trivial = the history writes a sub-register after "
        "a full-register write of the same register (or vice versa), or interleaves F/FC/FZ(/flag API) writes, "
        "and reads that register afterwards; or resets a register file that held non-zero values and reads it "
        "back; or carries a non-zero TEMP2..13 by name across the snapshot boundary; or applies a snapshot whose source register file changed after the "
        "snapshot was taken, or that was observed since; or reads registers back after an executed instruction / a "
        "write to a Rust-only name / a rejected operation; "
        "distinct = hash of the op list.")

Op = List[Any]

BOUNDARY = [0, 1, 2, 3, 0x7F, 0x80, 0xFE, 0xFF, 0x100, 0x1FF, 0xFF00, 0xFFFF, 0x10000, 0x1FFFF, 0xFFFFF, 0x100000,
            0x1FFFFF, 0xFFFFFF, 0x1000000, 0x7FFFFFFF, 0x80000000, 0xFFFFFFFF, 0xA5A5A5A5, 0x5A5A5A5A, 0x12345678]

IMPLS = ("py", "rs", "rs-runtime")
_RS_KEY = {"rs": "st", "rs-runtime": "rt"}


# --------------------------------------------------------------------------------------------------------
# Python side
# --------------------------------------------------------------------------------------------------------

_PY: Dict[str, Any] = {}


def _py_api() -> Dict[str, Any]:
    if not _PY:
        from binja_test_mocks import binja_api  # noqa: F401  (installs the Binary Ninja mock)
        from sc62015.pysc62015.emulator import RegisterName, Registers
        from sc62015.pysc62015.stepper import CPURegistersSnapshot, CPUStepper

        from sc62015.pysc62015.cpu import CPU

        _PY.update(RegisterName=RegisterName, Registers=Registers, Snapshot=CPURegistersSnapshot, CPU=CPU,
                   Stepper=CPUStepper, enum=[RegisterName[n] for n in NAMES])
        try:
            from pce500.emulator import _pack_register_bytes, _unpack_register_bytes

            _PY.update(pack=_pack_register_bytes, unpack=_unpack_register_bytes)
        except Exception:  # the pce500 packer is a bonus path, not part of the anchors
            _PY.update(pack=None, unpack=None)
        try:
            from pce500.emulator import PCE500Emulator

            _PY.update(Emulator=PCE500Emulator)
        except Exception:  # same: the machine-level snapshot file path is a bonus path
            _PY.update(Emulator=None)
    return _PY


# ---- scratch files for the snapshot *file* path ("rtf") -------------------------------------------------

def _scratch_dir() -> str:
    d = os.path.join(ROOT, "scratch", f"c08-{os.getpid()}")
    os.makedirs(d, exist_ok=True)
    return d


def _remove_scratch_dir() -> None:
    d = os.path.join(ROOT, "scratch", f"c08-{os.getpid()}")
    _BAD_WRITTEN.clear()
    try:
        if os.path.isdir(d):
            for f in os.listdir(d):
                if f.startswith("c08-") and f.endswith(".pcsnap"):
                    os.remove(os.path.join(d, f))
            os.rmdir(d)
    except OSError:
        pass


def _uses_file(ops: Sequence[Op]) -> bool:
    return any(op[0] in ("rtf", "badload") for op in ops)


def _uses_bad(ops: Sequence[Op]) -> bool:
    return any(op[0] == "badload" or (op[0] == "rtf" and len(op) > 1) for op in ops)


# ---- snapshot files the loaders must REJECT ("badload", "rtf KIND") ----------------------------------------
#
# Every bad file is derived from a VALID snapshot (the "template") saved by the implementation that is going to
# be asked to load it: `PCE500Emulator.save_snapshot` for the Python machine, `CoreRuntime::save_snapshot` for the
# Rust runtime, both from a brand-new machine whose registers were set to TEMPLATE_REGS (distinctive non-zero
# values, so a loader that applies registers before it rejects the file shows as well as one that clears them).
# The kinds are the reasons both loaders reject by their own validation code (pce500/emulator.py:load_snapshot,
# sc62015/core/src/snapshot.rs:load_snapshot): no such file / a directory / not a zip archive (empty, random bytes,
# random bytes behind a zip signature, a valid archive cut in the middle or just before its end record) /
# snapshot.json missing, not JSON, wrong magic, wrong version / registers.bin missing, empty, one byte short or one byte
# too long / external_ram.bin one byte or 4 KB short.  Whether a load WAS rejected is observed, never assumed.

TEMPLATE_REGS: Tuple[Tuple[str, int], ...] = (
    ("BA", 0x1E2D), ("I", 0x3C4B), ("X", 0x5A697), ("Y", 0x78869), ("U", 0x96A5B), ("S", 0xB4C3D), ("PC", 0xD2E1F),
    ("F", 0x5B)) + tuple((f"TEMP{i}", (0x0F0F01 * (i + 1)) & 0xFFFFFF) for i in range(14))

BAD_PATH_KINDS: Tuple[str, ...] = ("missing", "dir")
BAD_BYTES_KINDS: Tuple[str, ...] = ("empty", "garbage", "garbage-pk", "cut-half", "cut-tail", "no-meta",
                                    "meta-notjson", "magic", "version", "no-regs", "regs-empty", "regs-short",
                                    "regs-long", "ram-short", "ram-page-short")
BAD_KINDS: Tuple[str, ...] = BAD_PATH_KINDS + BAD_BYTES_KINDS

_BAD: Dict[str, Dict[str, bytes]] = {}     # "py" / "rs" -> kind -> file contents (built once, inherited by forks)
_BAD_WRITTEN: Dict[str, bool] = {}         # which of them exist in this process' scratch directory


def _rezip(src: bytes, edit: Any) -> bytes:
    import io
    import zipfile

    with zipfile.ZipFile(io.BytesIO(src), "r") as zf:
        entries = [(n, zf.read(n)) for n in zf.namelist()]
    buf = io.BytesIO()
    with zipfile.ZipFile(buf, "w", zipfile.ZIP_DEFLATED) as out:
        for n, data in entries:
            data = edit(n, data)
            if data is not None:
                out.writestr(zipfile.ZipInfo(n, date_time=(1980, 1, 1, 0, 0, 0)), data,
                             compress_type=zipfile.ZIP_DEFLATED)
    return buf.getvalue()


def _derive_bad(template: bytes) -> Dict[str, bytes]:
    import json

    def only(name: str, f: Any) -> Any:
        return lambda n, d: f(d) if n == name else d

    def meta(**kw: Any) -> Any:
        def f(d: bytes) -> bytes:
            m = json.loads(d)
            m.update(kw)
            return json.dumps(m).encode()
        return only("snapshot.json", f)

    noise = bytes(mix32(0xBAD, i) & 0xFF for i in range(4096))
    out = {
        "empty": b"",
        "garbage": noise,
        "garbage-pk": b"PK\x03\x04" + noise,
        "cut-half": template[:len(template) // 2],
        "cut-tail": template[:-9],
        "no-meta": _rezip(template, only("snapshot.json", lambda d: None)),
        "meta-notjson": _rezip(template, only("snapshot.json", lambda d: b"{not json")),
        "magic": _rezip(template, meta(magic="pc-e500.snapsh0t")),
        "version": _rezip(template, meta(version=1)),
        "no-regs": _rezip(template, only("registers.bin", lambda d: None)),
        "regs-empty": _rezip(template, only("registers.bin", lambda d: b"")),
        "regs-short": _rezip(template, only("registers.bin", lambda d: d[:-1])),
        "regs-long": _rezip(template, only("registers.bin", lambda d: d + b"\x5a")),
        "ram-short": _rezip(template, only("external_ram.bin", lambda d: d[:-1])),
        "ram-page-short": _rezip(template, only("external_ram.bin", lambda d: d[:-4096])),
    }
    if set(out) != set(BAD_BYTES_KINDS):
        raise HarnessError("bad snapshot kinds out of sync")
    return out


def _ensure_bad(client: Any = None) -> None:
    """Build the bad-file contents once per process tree (run() does it in the parent, before the fork)."""
    if _BAD:
        return
    api = _py_api()
    d = _scratch_dir()
    built: Dict[str, Dict[str, bytes]] = {}
    path = os.path.join(d, "c08-template.pcsnap")
    try:
        resp = (client or rsclient.shared()).call({"cmd": "c08.template", "path": path,
                                                   "regs": [list(p) for p in TEMPLATE_REGS]})
        if not resp.get("ok"):
            raise HarnessError(f"c08.template failed: {resp}")
        with open(path, "rb") as fh:
            built["rs"] = _derive_bad(fh.read())
        os.remove(path)
        if api.get("Emulator") is not None:
            emu = _py_machine(api)
            for n, v in TEMPLATE_REGS:
                emu.cpu.regs.set_by_name(n, v)
            emu.save_snapshot(path)
            with open(path, "rb") as fh:
                built["py"] = _derive_bad(fh.read())
    finally:
        try:
            os.remove(path)
        except OSError:
            pass
    _BAD.update(built)


def _bad_paths(which: str) -> Dict[str, str]:
    """kind -> path of the bad file for one implementation; the files are (re)written into this process' scratch
    directory on first use after it was emptied."""
    _ensure_bad()
    if which not in _BAD:
        return {}
    d = _scratch_dir()
    paths = {k: os.path.join(d, f"c08-bad-{which}-{k}.pcsnap") for k in BAD_BYTES_KINDS}
    if not _BAD_WRITTEN.get(which):
        for k, p in paths.items():
            with open(p, "wb") as fh:
                fh.write(_BAD[which][k])
        _BAD_WRITTEN[which] = True
    paths["missing"] = os.path.join(d, f"c08-bad-{which}-no-such-file.pcsnap")
    paths["dir"] = d
    return paths


def _py_machine(api: Dict[str, Any]) -> Any:
    """A fresh PC-E500 machine; its `cpu.regs` is a plain `Registers` (python backend)."""
    return api["Emulator"](trace_enabled=False, perfetto_trace=False, save_lcd_on_exit=False)


def _py_read_all(regs: Any, api: Dict[str, Any]) -> List[int]:
    return [regs.get(r) for r in api["enum"]]


def _py_try_load(emu: Any, path: str) -> Tuple[bool, Optional[str]]:
    """(rejected?, exception type) of `emu.load_snapshot(path)`."""
    try:
        emu.load_snapshot(path)
    except Exception as exc:  # noqa: BLE001 -- the rejection IS the observation
        return True, type(exc).__name__
    return False, None


def _py_file_roundtrip(emu: Any, api: Dict[str, Any], bad_first: Optional[str] = None) -> Tuple[Any, Any]:
    """PCE500Emulator.save_snapshot(path) -> a brand-new machine's load_snapshot(path); returns that machine and,
    when the new machine was first asked to load the bad file `bad_first`, (rejected?, its read-all afterwards)."""
    path = os.path.join(_scratch_dir(), "c08-py.pcsnap")
    pre = None
    try:
        emu.save_snapshot(path)
        fresh = _py_machine(api)
        if bad_first is not None:
            rejected, _ = _py_try_load(fresh, bad_first)
            pre = (rejected, _py_read_all(fresh.cpu.regs, api))
        fresh.load_snapshot(path)
    finally:
        try:
            os.remove(path)
        except OSError:
            pass
    return fresh, pre


NOP = "00"
SLOTS = 4


def _uses_exec(ops: Sequence[Op]) -> bool:
    return any(op[0] == "exec" for op in ops)


def py_host_kind(ops: Sequence[Op]) -> str:
    """Which Python object owns the register file of a history (a pure function of the op list).

    machine: the `Registers` of a PC-E500 machine (histories with a snapshot *file* op);
    cpu:     the `Registers` of a `sc62015.pysc62015.cpu.CPU` (python backend) over the hash-filled memory --
             histories that execute instructions or ask for it with ["host", "cpu"]; snapshots are taken and
             applied through the facade (`CPU.snapshot_registers` / `CPU.apply_snapshot`);
    plain:   a bare `Registers()` with `CPURegistersSnapshot.from_registers` / `apply_to`."""
    if _uses_exec(ops) or any(op[0] == "host" and op[1] == "cpu" for op in ops):
        return "cpu"
    if _uses_file(ops) and _py_api().get("Emulator") is not None:
        return "machine"
    return "plain"


class _PyHost:
    """The current Python register file and the object that owns it."""

    def __init__(self, api: Dict[str, Any], kind: str, mem: Any = None) -> None:
        self.api, self.kind, self.mem = api, kind, mem
        self.emu: Any = None
        self.cpu: Any = None
        if kind == "machine":
            self.emu = _py_machine(api)
            self.regs = self.emu.cpu.regs
            if type(self.regs) is not api["Registers"] or any(_py_read_all(self.regs, api)):
                # not a fresh plain register file (e.g. a reset vector in PC): keep to the documented `Registers()`
                self.kind, self.emu = "plain", None
                self.regs = api["Registers"]()
            elif hasattr(self.emu.cpu, "snapshot_registers") and hasattr(self.emu.cpu, "apply_snapshot"):
                self.cpu = self.emu.cpu
        elif kind == "cpu":
            self.cpu = api["CPU"](mem, reset_on_init=False, backend="python")
            self.regs = self.cpu.regs
        else:
            self.regs = api["Registers"]()

    def fresh(self) -> "_PyHost":
        """A brand-new register file of the same kind (a `cpu` host shares the history's memory)."""
        return _PyHost(self.api, self.kind, self.mem)

    # immediate round trips keep to the API they always used (from_registers/apply_to) except on the CPU facade
    def snapshot(self, facade: bool) -> Any:
        if self.cpu is not None and (facade or self.kind == "cpu"):
            return self.cpu.snapshot_registers()
        return self.api["Snapshot"].from_registers(self.regs)

    def apply(self, snap: Any, facade: bool) -> None:
        if self.cpu is not None and (facade or self.kind == "cpu"):
            self.cpu.apply_snapshot(snap)
        else:
            snap.apply_to(self.regs)


def _py_through_blob(snap: Any, api: Dict[str, Any]) -> Tuple[Any, str]:
    """registers.bin + temps beside it, exactly as PCE500Emulator.save_snapshot/load_snapshot carry them
    (both are serialised when the snapshot is saved)."""
    Snapshot = api["Snapshot"]
    payload = api["pack"](snap)
    temps = {int(k): int(v) for k, v in snap.temps.items()}
    level = int(snap.call_sub_level)
    vals = api["unpack"](payload)
    return Snapshot(pc=vals["pc"], ba=vals["ba"], i=vals["i"], x=vals["x"], y=vals["y"], u=vals["u"],
                    s=vals["s"], f=vals["f"], temps=temps, call_sub_level=level), bytes(payload).hex()


def _py_roundtrip(host: _PyHost, blob: bool) -> Tuple[_PyHost, str]:
    snap = host.snapshot(False)
    n = ""
    if blob and host.api["pack"] is not None:
        snap, n = _py_through_blob(snap, host.api)
    fresh = host.fresh()
    fresh.apply(snap, False)
    return fresh, n


LOAD_NAMES: Tuple[str, ...] = ("PC", "BA", "I", "X", "Y", "U", "S", "F") + TEMP_NAMES


def _py_load(host: _PyHost, values: Dict[str, int]) -> _PyHost:
    """A snapshot BUILT from explicit named values (the public dataclass constructor, as the .pcsnap loader, the
    parity tools and Rust-produced snapshots build it: `temps={n: v}` is TEMPn) applied to a fresh register file."""
    core = {n.lower(): int(v) for n, v in values.items() if not n.startswith("TEMP")}
    temps = {int(n[4:]): int(v) for n, v in values.items() if n.startswith("TEMP")}
    core.setdefault("pc", 0)
    snap = host.api["Snapshot"](temps=temps, **core)
    fresh = host.fresh()
    fresh.apply(snap, True)
    return fresh


def _py_exec(host: _PyHost, hexbytes: str, seed: int) -> Optional[str]:
    """One instruction at PC through the CPU facade; the bytes are placed at PC in the hash-filled memory."""
    from ..pycore import canon

    api = host.api
    mem = host.mem
    mem.seed = int(seed) & 0xFFFFFFFF
    pc = int(host.regs.get(api["RegisterName"].PC))
    for i, b in enumerate(bytes.fromhex(hexbytes)):
        mem.over[canon(pc + i)] = b
    try:
        host.cpu.execute_instruction(pc)
    except BaseException as exc:  # noqa: BLE001 -- instruction semantics are not this property's business
        if isinstance(exc, (KeyboardInterrupt, SystemExit, MemoryError)):
            raise
        return type(exc).__name__
    return None


OBSERVERS: Tuple[str, ...] = ("diff", "rdiff", "eq", "to_dict", "repr", "pack", "step")


def _py_probe(snap: Any, api: Dict[str, Any]) -> List[int]:
    """What a snapshot restores: `apply_to` a brand-new `Registers()`, read everything."""
    regs = api["Registers"]()
    snap.apply_to(regs)
    return _py_read_all(regs, api)


def _py_observe(host: "_PyHost", slots: List[Any], snap: Any, op: Op) -> Dict[str, Any]:
    """A read-only use of a live snapshot object; reports what the snapshot (and the other snapshot handed to the
    observer, when that is a live slot too) restores before and after."""
    api = host.api
    what, arg = str(op[2]), (op[3] if len(op) > 3 else None)
    other = slots[arg] if isinstance(arg, int) and 0 <= arg < SLOTS else None
    o: Dict[str, Any] = {"pre": _py_probe(snap, api)}
    if other is not None:
        o["opre"] = _py_probe(other, api)
    operand = other if other is not None else host.snapshot(True)   # else: a snapshot of the current register file
    err = None
    try:
        if what == "diff":
            n = len(snap.diff(operand))
        elif what == "rdiff":
            n = len(operand.diff(snap))
        elif what == "eq":
            n = int(snap == operand) + int(snap != operand)
        elif what == "to_dict":
            d = snap.to_dict()
            n = len(d)
            d.clear()          # the returned dictionary is the caller's
        elif what == "repr":
            n = len(repr(snap))
        elif what == "pack":
            n = len(api["pack"](snap)) if api["pack"] is not None else 0
        elif what == "step":
            # one instruction FROM the snapshot: CPU.step_snapshot on a facade host, CPUStepper.step otherwise
            image = {(int(snap.pc) + i) & 0xFFFFFF: b for i, b in enumerate(bytes.fromhex(str(arg or NOP)))}
            if host.cpu is not None and getattr(host.cpu, "backend", None) == "python":
                res = host.cpu.step_snapshot(snap, image)
            else:
                res = api["Stepper"](backend="python").step(snap, image)
            n = len(res.changed_registers)
        else:
            raise HarnessError(f"unknown observer {op}")
    except HarnessError:
        raise
    except BaseException as exc:  # noqa: BLE001 -- what the observer returns / raises is not this property's business
        if isinstance(exc, (KeyboardInterrupt, SystemExit, MemoryError)):
            raise
        n, err = 0, type(exc).__name__
    o["n"], o["err"] = n, err
    o["post"] = _py_probe(snap, api)
    if other is not None:
        o["opost"] = _py_probe(other, api)
    return o


def py_run(ops: Sequence[Op]) -> List[Any]:
    """Observations aligned with ops; an exception ends the list with {"error": ...}."""
    api = _py_api()
    # Histories with a file round trip run on the register file of a PC-E500 machine (still a plain `Registers`,
    # the one `save_snapshot/load_snapshot` capture/restore); every "fresh register file" of such a history is
    # the register file of a brand-new machine.
    kind = py_host_kind(ops)
    mem = None
    if kind == "cpu":
        from ..pycore import HashMemory

        mem = HashMemory(0)
    host = _PyHost(api, kind, mem)
    slots: List[Any] = [None] * SLOTS
    out: List[Any] = []
    for op in ops:
        verb = op[0]
        regs = host.regs
        try:
            if verb in ("set", "get") and op[1] in RUST_ONLY:
                out.append(None)  # a name only the Rust register file has
            elif verb == "set":
                regs.set_by_name(op[1], int(op[2]))
                out.append(None)
            elif verb == "setflag":
                regs.set_flag(op[1], int(op[2]))
                out.append(None)
            elif verb == "get":
                out.append(int(regs.get_by_name(op[1])))
            elif verb == "getflag":
                out.append(int(regs.get_flag(op[1])))
            elif verb == "all":
                out.append(_py_read_all(regs, api))
            elif verb == "reset":
                # Python has no in-place reset of a register file: the idiom (Emulator.__init__, CPU.__init__) is a
                # brand-new `Registers()`; the host object of the same kind is re-created
                host = host.fresh()
                out.append(_py_read_all(host.regs, api))
            elif verb == "load":
                host = _py_load(host, op[1])
                out.append(_py_read_all(host.regs, api))
            elif verb in ("rt", "rtb") or (verb == "rtf" and host.emu is None):
                before = _py_read_all(regs, api)
                host, n = _py_roundtrip(host, verb != "rt")
                out.append({"before": before, "after": _py_read_all(host.regs, api),
                            "blob": n if verb != "rtf" else ""})
            elif verb == "rtf":
                before = _py_read_all(regs, api)
                fresh = _PyHost.__new__(_PyHost)
                fresh.api, fresh.kind, fresh.mem = api, "machine", None
                bad_first = _bad_paths("py").get(str(op[1])) if len(op) > 1 else None
                fresh.emu, pre = _py_file_roundtrip(host.emu, api, bad_first)
                fresh.regs = fresh.emu.cpu.regs
                fresh.cpu = fresh.emu.cpu if host.cpu is not None else None
                host = fresh
                o = {"before": before, "after": _py_read_all(host.regs, api), "blob": ""}
                if pre is not None:
                    o["pre_rej"], o["mid"] = pre
                out.append(o)
            elif verb == "badload":
                before = _py_read_all(regs, api)
                rejected, exc_name = True, None
                path = _bad_paths("py").get(str(op[1])) if host.emu is not None else None
                if path is not None:  # only a machine has a snapshot loader
                    rejected, exc_name = _py_try_load(host.emu, path)
                    host.regs = host.emu.cpu.regs
                out.append({"before": before, "after": _py_read_all(host.regs, api), "rej": rejected,
                            "exc": exc_name})
            elif verb == "badname":
                if op[2] in NAMES or op[2] in RUST_ONLY or op[2] in FLAG_NAME:
                    raise HarnessError(f"badname: {op[2]} is a register / flag name")
                before = _py_read_all(regs, api)
                try:
                    if op[1] == "set":
                        regs.set_by_name(op[2], int(op[3]))
                    elif op[1] == "get":
                        regs.get_by_name(op[2])
                    elif op[1] == "setflag":
                        regs.set_flag(op[2], int(op[3]))
                    elif op[1] == "getflag":
                        regs.get_flag(op[2])
                    else:
                        raise HarnessError(f"unknown op {op}")
                    rejected = False
                except HarnessError:
                    raise
                except Exception:  # noqa: BLE001 -- an unknown name is expected to be refused
                    rejected = True
                out.append({"before": before, "after": _py_read_all(regs, api), "rej": rejected})
            elif verb == "observe":
                snap = slots[int(op[1])]
                if snap is None:
                    out.append(None)
                else:
                    out.append(_py_observe(host, slots, snap, op))
            elif verb == "snap":
                taken = _py_read_all(regs, api)
                snap = host.snapshot(True)
                if op[2] == "b" and api["pack"] is not None:
                    snap, _ = _py_through_blob(snap, api)
                slots[int(op[1])] = snap
                out.append(taken)
            elif verb == "apply":
                snap = slots[int(op[1])]
                if snap is None:
                    out.append(None)
                else:
                    cur = _py_read_all(regs, api)
                    fresh = host.fresh()
                    fresh.apply(snap, True)
                    out.append({"cur": cur, "after": _py_read_all(fresh.regs, api)})
                    if op[2] == "replace":
                        host = fresh
            elif verb == "exec":
                before = _py_read_all(regs, api)
                e = _py_exec(host, str(op[1]), int(op[2]))
                out.append({"before": before, "after": _py_read_all(host.regs, api), "err": e})
            elif verb == "host":
                out.append(None)
            elif verb == "collect":
                out.append({"dict": dict(host.snapshot(True).to_dict()), "reads": _py_read_all(regs, api)})
            else:
                raise HarnessError(f"unknown op {op}")
        except HarnessError:
            raise
        except Exception as exc:  # a register access that raises is an observation, not a harness crash
            out.append({"error": f"{type(exc).__name__}", "message": str(exc)[:200]})
            break
    return out


# --------------------------------------------------------------------------------------------------------
# Rust side
# --------------------------------------------------------------------------------------------------------

def rs_run(seqs: Sequence[Sequence[Op]]) -> List[Dict[str, Any]]:
    """One result per sequence: {"obs": [...]} | {"error": str} | {"panic": str}."""
    req: Dict[str, Any] = {"cmd": "c08.run", "seqs": [list(s) for s in seqs]}
    if any(_uses_file(s) for s in seqs):
        req["dir"] = _scratch_dir()
    if any(_uses_bad(s) for s in seqs):
        req["bad"] = _bad_paths("rs")
    try:
        resp = rsclient.shared().call(req)
    except HarnessError:
        # the harness process died (seen once on a heavily loaded machine); every history starts from a fresh
        # register file, so one retry on a new process is safe.  A second failure is a harness error (exit 2).
        resp = rsclient.shared().call(req)
    if resp.get("ok"):
        return resp["results"]
    if "panic" in resp:
        if len(seqs) == 1:
            return [{"panic": str(resp["panic"])[:200]}]
        out: List[Dict[str, Any]] = []
        for s in seqs:  # isolate the panicking history
            out += rs_run([s])
        return out
    raise HarnessError(f"c08.run failed: {resp}")


_ALL_KEYS = ("before", "after", "cur", "mid", "pre", "post", "opre", "opost")


def _rs_obs(obs: List[Any], key: str) -> Tuple[List[Any], List[Any]]:
    """Project the Rust observation list onto one register file ('st' or 'rt'): (observations in py_run's
    shape, the values of the Rust-only registers XNAMES read at the same moments)."""
    idx = 0 if key == "st" else 1
    out: List[Any] = []
    xout: List[Any] = []
    for o in obs:
        if o is None:
            out.append(None)
            xout.append(None)
        elif isinstance(o, list):                       # get / getflag: [st, rt]
            out.append(o[idx])
            xout.append(None)
        elif "collect" in o:                            # the snapshot map + the reads at that moment
            out.append({"dict": o["collect"][key], "reads": o["reads"][key]})
            xout.append(None)
        elif "st" in o:                                 # read-all (also "snap", "reset", "load")
            out.append(o[key])
            xout.append(o["x"][key] if "x" in o else None)
        else:                                           # round trips, apply, exec: several read-alls
            d: Dict[str, Any] = {}
            x: Dict[str, Any] = {}
            for k in _ALL_KEYS:
                if k in o:
                    d[k] = o[k][key]
                    x[k] = o[k]["x"][key]
            if "blob" in o:
                d["blob"] = o["blob"]
            if "err" in o:
                d["err"] = o["err"][key]
            for k in ("rej", "pre_rej", "n"):
                if k in o:
                    d[k] = o[k][key]
            if "why" in o:
                d["why"] = o["why"]
            out.append(d)
            xout.append(x)
    return out, xout


# --------------------------------------------------------------------------------------------------------
# Model walk and verdicts
# --------------------------------------------------------------------------------------------------------

def _fp_name(name: str) -> str:
    return "TEMP" if name.startswith("TEMP") else name


class Expect:
    """What the model says a read of `name` returns, plus the context used to classify a mismatch."""

    __slots__ = ("name", "value", "writer", "prev", "raw")

    def __init__(self, name: str, value: int, writer: str, prev: int, raw: Optional[int]) -> None:
        self.name, self.value, self.writer, self.prev, self.raw = name, value, writer, prev, raw


class XExpect:
    """Acceptable values of the Rust-only registers (None = anything) and who wrote them last."""

    __slots__ = ("ok", "writer")

    def __init__(self, ok: List[Any], writer: Dict[str, str]) -> None:
        self.ok, self.writer = ok, dict(writer)


def _once(text: str, suffix: str) -> str:
    """Fingerprint strings stay a finite set: a qualifier is appended at most once."""
    return text if text.endswith(suffix) else text + suffix


def _is_nop(op: Op, o: Any) -> bool:
    return op[1] == NOP and isinstance(o, dict) and not o.get("err")


_PC = INDEX["PC"]


def walk_model(ops: Sequence[Op], detailed: bool = True,
               sync: Optional[List[Any]] = None) -> Tuple[List[Any], List[Any], List[str], bool]:
    """Expected observations per op (None for non-reads), expectations for the Rust-only registers per op,
    class labels, non-trivial flag.

    detailed=False yields plain expected values (fast path); detailed=True yields Expect objects carrying the
    context needed to classify a mismatch.  Both come from the same Model walk.

    `sync` = the observations of the register file the walk is for; it is consulted at "exec" ops only, where the
    model takes the values observed after the instruction over (all of them, or just PC for a NOP).  The walk
    ends early where such an observation is missing."""
    m = Model()
    writer: Dict[str, str] = {g: "nothing (fresh)" for g in MEMBERS}
    xwriter: Dict[str, str] = {n: "nothing (fresh)" for n in XNAMES}
    prev: Dict[str, List[int]] = {g: m.read_all() for g in MEMBERS}
    last_kind: Dict[str, Tuple[str, str]] = {}  # group -> (kind, name) of the last write
    pending_nt: Dict[str, str] = {}             # group -> nt label waiting for a read of that group
    labels: List[str] = []
    nt = False
    snaps = 0                        # snapshot generations so far
    since: Optional[str] = None      # what was written since the last snapshot op (None / "core" / "TEMP")
    slots: List[Any] = [None] * SLOTS   # live snapshots: model state at the time they were taken
    file_no = 0                      # which register file is current (changes when a fresh one replaces it)
    n_exec = 0
    resets = 0
    pending_x: Optional[str] = None  # label waiting for the next full read-back

    def exp_of(name: str) -> Any:
        if not detailed:
            return m.get(name)
        g = GROUP[name]
        return Expect(name, m.get(name), writer[g], prev[g][INDEX[name]], m.temp_raw.get(name))

    def exp_all() -> Any:
        return [exp_of(n) for n in NAMES] if detailed else m.read_all()

    def xexp() -> XExpect:
        return XExpect(m.read_x(), xwriter)

    def note_read(names: Sequence[str]) -> None:
        nonlocal nt, pending_x
        for n in names:
            lb = pending_nt.pop(GROUP[n], None)
            if lb:
                nt = True
                labels.append(lb)
        if pending_x and len(names) == len(NAMES):
            nt = True
            labels.append(pending_x)
            pending_x = None

    def all_written(by: str) -> None:
        for g in MEMBERS:
            prev[g] = m.read_all()
            writer[g] = by

    out: List[Any] = []
    xout: List[Any] = []
    for i, op in enumerate(ops):
        verb = op[0]
        if verb == "set" and op[1] in RUST_ONLY:
            m.set(op[1], int(op[2]))
            if op[1] in xwriter:
                xwriter[op[1]] = f"set {op[1]}"
            labels.append("write:rust-only:" + _fp_name(op[1]))
            pending_x = "nt:read-back-after-rust-only-write"
            out.append(None)
            xout.append(None)
        elif verb in ("set", "setflag"):
            name = op[1] if verb == "set" else FLAG_NAME[op[1]]
            g = GROUP[name]
            prev[g] = m.read_all()
            writer[g] = f"{verb} {op[1]}"
            m.set(name, int(op[2]))
            kind = "full" if name == g else "sub"
            if g in ("BA", "I", "F") and g in last_kind:
                k0, n0 = last_kind[g]
                if k0 != kind:
                    pending_nt[g] = f"nt:{g}:{kind}-after-{k0}"
                elif g == "F" and (n0 != name or verb == "setflag"):
                    pending_nt.setdefault(g, "nt:F:flag-interleave")
            last_kind[g] = (kind, name)
            labels.append("write:" + ("TEMP" if name.startswith("TEMP") else verb + ":" + op[1]))
            v = int(op[2])
            labels.append("value:" + ("fits" if v == (v & mask(name)) else "truncated"))
            if snaps:
                since = "TEMP" if name.startswith("TEMP") or since == "TEMP" else "core"
            out.append(None)
            xout.append(None)
        elif verb == "get" and op[1] in XNAMES:
            labels.append("read:rust-only:" + op[1])
            out.append(None)
            xout.append(xexp())
        elif verb == "get":
            note_read([op[1]])
            out.append(exp_of(op[1]))
            xout.append(None)
        elif verb == "getflag":
            note_read([FLAG_NAME[op[1]]])
            out.append(exp_of(FLAG_NAME[op[1]]))
            xout.append(None)
        elif verb == "reset":
            # lifecycle verb: the SAME register file object is returned to the fresh state and used on
            before = m.read_all()
            all_written("reset")
            m.store = {g: 0 for g in MEMBERS}
            m.temp_raw = {t: 0 for t in TEMP_NAMES}
            m.x = {n: (0,) for n in XNAMES}
            for n in XNAMES:
                xwriter[n] = "reset"
            last_kind.clear()
            pending_nt.clear()
            labels.append("lifecycle:reset")
            fbits = before[INDEX["F"]] & 3
            labels.append("lifecycle:reset:" + ("flags-were-set" if fbits else "flags-were-clear"))
            if any(before):
                labels.append("lifecycle:reset:registers-nonzero")
                pending_x = "nt:written-to-and-read-back-after-reset"
            if snaps:
                labels.append("lifecycle:reset-of-a-restored-file")
                since = since or "core"
            resets += 1
            out.append(exp_all())
            xout.append({"all": xexp()})
        elif verb == "load":
            vals = dict(op[1])
            all_written("loading a snapshot built from named values")
            m.store = {g: 0 for g in MEMBERS}
            m.temp_raw = {t: 0 for t in TEMP_NAMES}
            m.x = {n: (0,) for n in XNAMES}
            for n in LOAD_NAMES:          # the order the fields are applied in does not matter: no two overlap
                if n in vals:
                    m.set(n, int(vals[n]))
            for n in XNAMES:
                xwriter[n] = "applying a snapshot to a fresh file"
            last_kind.clear()
            pending_nt.clear()
            nz = [n for n in TEMP_NAMES if m.get(n)]
            labels.append("names:load")
            labels.append("names:load:nonzero-TEMPs:%s" % (len(nz) if len(nz) < 3 else "3+"))
            if any(int(n[4:]) >= 2 for n in nz):
                nt = True
                labels.append("nt:named-TEMP2+-across-the-snapshot-boundary")
            if resets:
                labels.append("lifecycle:load-after-reset")
            file_no += 1
            snaps += 1
            since = None
            out.append(exp_all())
            xout.append({"all": xexp()})
        elif verb in ("all", "rt", "rtb", "rtf"):
            note_read(NAMES)
            out.append(exp_all())
            if verb == "all":
                xout.append({"all": xexp()})
            else:
                pre = xexp()
                m.x_fresh_after_snapshot(m.read_x())
                for n in XNAMES:
                    xwriter[n] = _once(xwriter[n], ", then a snapshot round trip")
                xout.append({"before": pre, "after": xexp()})
                labels.append("roundtrip:" + verb)
                if verb == "rtf" and len(op) > 1:
                    labels.append("roundtrip:rtf-after-rejected-load")
                    labels.append("rejected-load-kind:" + str(op[1]))
                if snaps and since:
                    # a register file that was itself restored from a snapshot, then written, is snapshotted
                    labels.append(f"chain:{verb}-of-restored-file:{since}-changed")
                if n_exec:
                    labels.append("roundtrip-after-exec")
                snaps += 1
                since = None
                file_no += 1
                labels.append("generations:%s" % (snaps if snaps < 4 else "4+"))
        elif verb == "snap":
            note_read(NAMES)
            out.append(exp_all())
            xout.append({"all": xexp()})
            k = int(op[1])
            slots[k] = {"i": i, "store": dict(m.store), "raw": dict(m.temp_raw), "x": m.read_x(),
                        "values": m.read_all(), "file": file_no, "n_exec": n_exec,
                        "writer": dict(writer), "prev": {g: list(v) for g, v in prev.items()}}
            labels.append("snap:" + str(op[2]))
            labels.append("live:%d" % sum(1 for sl in slots if sl is not None))
        elif verb == "apply":
            sl = slots[int(op[1])]
            if sl is None:
                out.append(None)
                xout.append(None)
                continue
            note_read(NAMES)
            cur = m.read_all()
            out.append({"j": sl["i"], "cur": exp_all()})
            pre = xexp()
            changed = [n for n, a0, a1 in zip(NAMES, sl["values"], cur) if a0 != a1]
            what = ("TEMP" if any(n.startswith("TEMP") for n in changed) else "core") if changed else "unchanged"
            labels.append(f"deferred:{op[2]}:source-{what}" + ("-changed" if changed else ""))
            if sl["n_exec"] != n_exec:
                labels.append("deferred:source-executed-instructions")
            if sl["file"] != file_no:
                labels.append("deferred:of-an-earlier-register-file")
            labels.append("live-at-apply:%d" % sum(1 for x in slots if x is not None))
            if sl.get("observed"):
                nt = True
                labels.append("nt:apply-after-observed")
            sl["applied"] = sl.get("applied", 0) + 1
            if sl["applied"] == 2:
                labels.append("applied-more-than-once")
            if changed or sl["n_exec"] != n_exec:
                nt = True
                labels.append("nt:deferred-apply-after-source-changed")
            if op[2] == "replace":
                m.store = dict(sl["store"])
                m.temp_raw = dict(sl["raw"])
                m.x_fresh_after_snapshot(sl["x"])
                for g in MEMBERS:
                    writer[g] = _once(sl["writer"][g], ", snapshotted, applied later")
                    prev[g] = list(sl["prev"][g])
                for n in XNAMES:
                    xwriter[n] = "applying a snapshot to a fresh file"
                xout.append({"cur": pre, "after": xexp()})
                file_no += 1
                snaps += 1
                since = None
            else:
                keep = dict(m.x)
                m.x_fresh_after_snapshot(sl["x"])
                post = XExpect(m.read_x(), {n: "applying a snapshot to a fresh file" for n in XNAMES})
                m.x = keep
                xout.append({"cur": pre, "after": post})
        elif verb == "exec":
            note_read(NAMES)
            out.append(exp_all())
            xout.append({"before": xexp()})
            o = sync[i] if sync is not None and i < len(sync) else None
            if not (isinstance(o, dict) and isinstance(o.get("after"), list) and len(o["after"]) == len(NAMES)):
                break  # nothing to continue from
            n_exec += 1
            if _is_nop(op, o):
                prev["PC"] = m.read_all()
                writer["PC"] = "exec"
                m.set("PC", int(o["after"][_PC]))
                labels.append("exec:nop")
            else:
                all_written("exec")
                m.load([int(v) for v in o["after"]])
                last_kind.clear()
                pending_nt.clear()
                labels.append("exec:other" if not o.get("err") else "exec:failed")
            m.x_unknown()
            for n in XNAMES:
                xwriter[n] = "exec"
            if snaps:
                since = since or "core"
            pending_x = "nt:read-back-after-exec"
        elif verb in ("badload", "badname"):
            # an operation the register file refuses: the model does not move
            note_read(NAMES)
            out.append(exp_all())
            xout.append({"before": xexp()})
            pending_x = "nt:read-back-after-rejected-operation"
            if verb == "badload":
                labels.append("rejected-load-kind:" + str(op[1]))
                labels.append("rejected-load:" + ("registers-nonzero" if any(m.read_all()) else "registers-zero"))
                if snaps:
                    labels.append("rejected-load:on-a-restored-register-file")
            else:
                labels.append("unknown-name:" + str(op[1]))
        elif verb == "observe":
            sl = slots[int(op[1])]
            if sl is None:
                out.append(None)
                xout.append(None)
                continue
            arg = op[3] if len(op) > 3 else None
            osl = slots[arg] if isinstance(arg, int) and not isinstance(arg, bool) and 0 <= arg < SLOTS else None
            out.append({"j": sl["i"], "oj": osl["i"] if osl is not None else None})
            xout.append(None)
            labels.append("observe:" + str(op[2]))
            labels.append("observe:operand-" + ("live-snapshot" if osl is not None else "current-file"))
            if any(v for n, v in zip(NAMES, sl["values"]) if n.startswith("TEMP")):
                labels.append("observe:snapshot-with-live-TEMPs")
            sl["observed"] = True
            if osl is not None:
                osl["observed"] = True
        elif verb == "host":
            labels.append("py-host:" + str(op[1]))
            out.append(None)
            xout.append(None)
        elif verb == "collect":
            out.append(("collect", m.read_all()))
            xout.append(None)
            nz = [n for n in TEMP_NAMES if m.get(n)]
            labels.append("names:collect")
            labels.append("names:collect:nonzero-TEMPs:%s" % (len(nz) if len(nz) < 3 else "3+"))
            if any(int(n[4:]) >= 2 for n in nz):
                nt = True
                labels.append("nt:named-TEMP2+-across-the-snapshot-boundary")
        else:
            raise HarnessError(f"unknown op {op}")
    return out, xout, labels, nt


def _x_ok(xe: Any, got: Any) -> bool:
    """Rust-only registers: every observed value is one of the acceptable ones."""
    if got is None or xe is None:
        return True
    return all(ok is None or g in ok for ok, g in zip(xe.ok, got))


def _nop_frame_ok(before: List[int], after: List[int]) -> bool:
    return all(a == b for k, (a, b) in enumerate(zip(after, before)) if k != _PC)


def _impl_ok(ops: Sequence[Op], exp: List[Any], xexp: List[Any], obs: List[Any], xobs: Optional[List[Any]]) -> bool:
    """True iff every observation of one register file equals the (plain) model walk -- the common case."""
    if len(obs) != len(ops) or len(exp) != len(ops):
        return False
    try:
        for i, op in enumerate(ops):
            verb, e, o = op[0], exp[i], obs[i]
            x = xobs[i] if xobs is not None else None
            if verb == "get" and op[1] in XNAMES:
                if xobs is not None and not _x_ok(xexp[i], [o]):
                    return False
            elif verb in ("get", "getflag"):
                if o != e:
                    return False
            elif verb in ("all", "snap", "reset", "load"):
                if o != e or (x is not None and not _x_ok(xexp[i]["all"], x)):
                    return False
            elif verb == "collect":
                if "error" in o or _dict_mismatches(o["dict"], o["reads"]):
                    return False
            elif verb in ("rt", "rtb", "rtf"):
                if o["before"] != e or o["after"] != e:
                    return False
                if x is not None and not (_x_ok(xexp[i]["before"], x["before"]) and _x_ok(xexp[i]["after"], x["after"])):
                    return False
                if "pre_rej" in o and (not o["pre_rej"] or any(o["mid"]) or (x is not None and any(x["mid"]))):
                    return False
            elif verb in ("badload", "badname"):
                if o["before"] != e or o["after"] != e or (verb == "badload" and not o["rej"]):
                    return False
                if x is not None and not (_x_ok(xexp[i]["before"], x["before"]) and x["after"] == x["before"]):
                    return False
            elif verb == "observe":
                if e is None:
                    if o is not None:
                        return False
                    continue
                if o["pre"] != obs[e["j"]] or o["post"] != o["pre"] or o.get("opost") != o.get("opre"):
                    return False
            elif verb == "apply":
                if e is None:
                    if o is not None:
                        return False
                    continue
                if o["cur"] != e["cur"] or o["after"] != obs[e["j"]]:
                    return False
                if x is not None and not (_x_ok(xexp[i]["cur"], x["cur"]) and _x_ok(xexp[i]["after"], x["after"])):
                    return False
            elif verb == "exec":
                if o["before"] != e:
                    return False
                if x is not None and not _x_ok(xexp[i]["before"], x["before"]):
                    return False
                if _is_nop(op, o) and not _nop_frame_ok(o["before"], o["after"]):
                    return False
            elif isinstance(o, dict) and "error" in o and verb != "collect":
                return False
    except (KeyError, TypeError, IndexError, AttributeError):
        return False
    return True


def _classify(e: Expect, got: int) -> str:
    if got != e.value and (got & mask(e.name)) == e.value:
        return "extra high bits (not truncated to %d bits)" % WIDTH[e.name]
    if got == e.prev:
        return "stale (write not reflected)"
    return "wrong value"


def _temp_width_explains(e: Expect, got: int) -> bool:
    """TEMP width is an assumption: accept any 'written value truncated to w bits' (8 <= w <= 32)."""
    if e.raw is None:
        return False
    return any(got == (e.raw & ((1 << w) - 1)) for w in range(8, 33))


def _check_read(impl: str, e: Expect, got: Any, case: Dict[str, Any], i: int, op: Op,
                notes: List[str]) -> Optional[Violation]:
    if not isinstance(got, int) or isinstance(got, bool):
        return Violation("model", f"{impl} read {_fp_name(e.name)}", "non-integer read", case,
                         f"op#{i} {op}: read {e.name} returned {got!r}")
    if got == e.value:
        return None
    if e.name.startswith("TEMP") and _temp_width_explains(e, got):
        notes.append("temp-width-differs-from-assumed-24")
        return None
    return Violation("model", f"{impl} read {_fp_name(e.name)}", f"after {_fp_writer(e.writer)}: {_classify(e, got)}",
                     case, f"op#{i} {op}: {impl} read {e.name}: expected {e.value:#x} got {got:#x} "
                           f"(last write to its group: {e.writer}; value before that write {e.prev:#x})")


def _check_x(impl: str, xe: Any, got: Any, case: Dict[str, Any], i: int, op: Op) -> List[Violation]:
    """Reads of the Rust-only registers against their sets of acceptable values."""
    out: List[Violation] = []
    if xe is None or got is None:
        return out
    for n, ok, g in zip(XNAMES, xe.ok, got):
        if ok is None or g in ok:
            continue
        out.append(Violation("model", f"{impl} read {n}", f"after {_fp_writer(xe.writer[n])}: wrong value", case,
                             f"op#{i} {op}: {impl} read {n} = {g:#x}; acceptable: "
                             f"{', '.join(hex(v) for v in ok[:4])}{' ...' if len(ok) > 4 else ''} "
                             f"({n} overlaps no other register; last written by: {xe.writer[n]})"))
    return out


def _fp_writer(w: str) -> str:
    parts = w.split(" ")
    if len(parts) >= 2 and parts[1].rstrip(",").startswith("TEMP"):
        return " ".join([parts[0], "TEMP" + ("," if parts[1].endswith(",") else "")] + parts[2:])
    return w


def _check_all(impl: str, e: List[Expect], got: List[Any], case: Dict[str, Any], i: int, op: Op,
               notes: List[str]) -> List[Violation]:
    out: List[Violation] = []
    for ee, g in zip(e, got):
        v = _check_read(impl, ee, g, case, i, op, notes)
        if v:
            out.append(v)
    return out


def _not_reproduced(impl: str, kind: str, names: Sequence[str], ref: List[int], after: List[int],
                    cur: Optional[List[int]], case: Dict[str, Any], i: int, op: Op) -> List[Violation]:
    """A fresh register file a snapshot was applied to does not read what the source read (`ref`).

    One verdict per backing store; aliases only when the full register itself came back right.  `cur` (deferred
    snapshots) = what the source register file reads *now*: tells a snapshot that follows its source apart."""
    out: List[Violation] = []
    bad = {n: (b, a) for n, b, a in zip(names, ref, after) if a != b}
    # "follows its source": every value that came back wrong is the one the source register file holds now
    all_follow = cur is not None and all(a == cur[INDEX[n]] for n, (_, a) in bad.items())
    for g, members in MEMBERS.items():
        mb = [n for n in members if n in bad]
        for n in ([g] if g in mb else mb):
            b, a = bad[n]
            if cur is None:
                out.append(Violation("roundtrip", f"{impl} {kind} snapshot: {_fp_name(n)}", "value not reproduced",
                                     case, f"op#{i} {op}: {impl} {n} read {b:#x} before the snapshot round trip "
                                           f"and {a:#x} after applying it to a fresh register file"))
                continue
            c = cur[INDEX[n]]
            follows = all_follow and c != b
            out.append(Violation(
                "roundtrip", f"{impl} {kind} snapshot: {_fp_name(n)}",
                "value at snapshot time not reproduced: the snapshot follows later changes of its source"
                if follows else "value not reproduced", case,
                f"op#{i} {op}: {impl} {n} read {b:#x} when the snapshot in slot {op[1]} was taken, the "
                f"source register file reads {c:#x} now, and the fresh register file the snapshot was applied to "
                f"reads {a:#x}"))
    return out


def _frame(names: Sequence[str], before: Sequence[int], after: Sequence[int]) -> List[Tuple[str, int, int]]:
    """(name, before, after) of every changed value, one per backing store (aliases only if the full register is
    unchanged) -- the same bucketing as the round-trip verdicts."""
    bad = {n: (b, a) for n, b, a in zip(names, before, after) if a != b}
    out: List[Tuple[str, int, int]] = []
    for g, members in MEMBERS.items():
        mb = [n for n in members if n in bad]
        for n in ([g] if g in mb else mb):
            out.append((n, bad[n][0], bad[n][1]))
    return out


NAMED_SYMPTOM = "the fresh register file does not read the value the snapshot holds under that name"
DICT_SYMPTOM = "the snapshot lists a different value under that name than the register file reads"


def _dict_mismatches(d: Any, reads: Sequence[int]) -> List[Tuple[str, int, int]]:
    """(name, value listed in the snapshot's dictionary form, value the register file reads) for every snapshot
    register (8 full registers + TEMPn) whose entry differs; Python keys the core registers in lower case and omits
    zero TEMPs, the Rust map is keyed "PC".."TEMP13"."""
    out: List[Tuple[str, int, int]] = []
    if not isinstance(d, dict):
        return [("PC", -1, -1)]
    for n in LOAD_NAMES:
        v = d.get(n, d.get(n.lower(), 0))
        if v != reads[INDEX[n]]:
            out.append((n, v, reads[INDEX[n]]))
    return out


REJECT_SYMPTOM = "an operation that was rejected changed the register file"
NO_NAME_SYMPTOM = "an access that names no register changed the register file"


def _no_trace(impl: str, what: str, before: Sequence[int], after: Sequence[int], xbefore: Any, xafter: Any,
              case: Dict[str, Any], i: int, op: Op, how: str, symptom: str = REJECT_SYMPTOM) -> List[Violation]:
    """A refused operation leaves no trace: every name reads after it what it read just before it."""
    out = [Violation("reject", f"{impl} {what}: {_fp_name(n)}", symptom, case,
                     f"op#{i} {op}: {impl} {n} read {b:#x} before and {a:#x} after {how}")
           for n, b, a in _frame(NAMES, before, after)]
    if xbefore is not None and xafter is not None:
        out += [Violation("reject", f"{impl} {what}: {n}", symptom, case,
                          f"op#{i} {op}: {impl} {n} read {b:#x} before and {a:#x} after {how}")
                for n, b, a in zip(XNAMES, xbefore, xafter) if a != b]
    return out


def check_impl(impl: str, ops: Sequence[Op], exp: List[Any], xexp: List[Any], obs: List[Any],
               xobs: Optional[List[Any]], case: Dict[str, Any], notes: List[str]) -> List[Violation]:
    """Compare one register file's observations with the model; stop at the first failing op."""
    out: List[Violation] = []
    kinds: Dict[int, str] = {}   # slot -> "direct" | "blob"
    good: Dict[int, bool] = {}   # slot -> an earlier use of the live snapshot reproduced every value
    zeros = [0] * len(NAMES)
    for i, op in enumerate(ops):
        if i >= len(obs) or i >= len(exp):
            break
        o, e = obs[i], exp[i]
        x = xobs[i] if xobs is not None else None
        xe = xexp[i]
        verb = op[0]
        if isinstance(o, dict) and "error" in o and "before" not in o and verb != "collect":
            out.append(Violation("exception", f"{impl} {verb}", f"raises {o['error']}", case,
                                 f"op#{i} {op}: {o}"))
            return out
        if verb == "get" and op[1] in XNAMES:
            if xobs is not None:
                out += _check_x(impl, xe, [o], case, i, op)
        elif verb in ("get", "getflag"):
            v = _check_read(impl, e, o, case, i, op, notes)
            if v:
                out.append(v)
        elif verb in ("all", "snap"):
            out += _check_all(impl, e, o, case, i, op, notes)
            if x is not None:
                out += _check_x(impl, xe["all"], x, case, i, op)
            if verb == "snap":
                kinds[int(op[1])] = "blob" if op[2] == "b" else "direct"
                good.pop(int(op[1]), None)
        elif verb == "reset":
            out += _check_all(impl, e, o, case, i, op, notes)
            if x is not None:
                out += _check_x(impl, xe["all"], x, case, i, op)
        elif verb == "load":
            for n, want, got in _frame(NAMES, [ee.value for ee in e], o):
                out.append(Violation("names", f"{impl} snapshot built from named values: {_fp_name(n)}", NAMED_SYMPTOM,
                                     case, f"op#{i} {op}: the snapshot holds {n} = {want:#x}; applied to a fresh "
                                           f"register file, {impl} reads {n} = {got:#x}"))
            if x is not None and not out:
                out += _check_x(impl, xe["all"], x, case, i, op)
        elif verb == "collect":
            if isinstance(o, dict) and "dict" in o:
                for n, listed, read in _dict_mismatches(o["dict"], o["reads"]):
                    out.append(Violation("names", f"{impl} snapshot dictionary: {_fp_name(n)}", DICT_SYMPTOM, case,
                                         f"op#{i} {op}: {impl} reads {n} = {read:#x}, the snapshot taken at that "
                                         f"moment lists {n} = {listed:#x}"))
        elif verb in ("badload", "badname"):
            out += _check_all(impl, e, o["before"], case, i, op, notes)
            if x is not None:
                out += _check_x(impl, xe["before"], x["before"], case, i, op)
            if not out:
                if verb == "badload" and not o["rej"]:
                    # the loader took the file: what the registers hold now is the file's business, and the model
                    # cannot follow -- nothing after this op is judged for this register file
                    notes.append(f"rejected-load:ACCEPTED:{impl}:{op[1]}")
                    return out
                if verb == "badload":
                    out += _no_trace(impl, "rejected snapshot load", o["before"], o["after"],
                                     x["before"] if x is not None else None, x["after"] if x is not None else None,
                                     case, i, op, f"the refused load_snapshot ({op[1]}: {o.get('why') or o.get('exc')})")
                else:
                    out += _no_trace(impl, "access by a name that is no register", o["before"], o["after"],
                                     x["before"] if x is not None else None, x["after"] if x is not None else None,
                                     case, i, op, f"{op[1]} by the name {op[2]!r}", NO_NAME_SYMPTOM)
        elif verb == "observe":
            if e is None:
                continue
            k = int(op[1])
            kind = kinds.get(k, "direct")
            if good.get(k) is None:
                # first use of this snapshot: the deferred-snapshot oracle (values read when it was taken)
                out += _not_reproduced(impl, kind, NAMES, obs[e["j"]], o["pre"], None, case, i, op)
            for who, pre, post in (("observed by", o["pre"], o["post"]),
                                   ("handed to", o.get("opre"), o.get("opost"))):
                if out or pre is None or post is None:
                    continue
                out += [Violation("observe", f"{impl} {kind} snapshot {who} {op[2]}: {_fp_name(n)}",
                                  "a live snapshot restores a different value after a read-only use", case,
                                  f"op#{i} {op}: applied to a fresh register file the snapshot restored {n} = {b:#x} "
                                  f"before and {a:#x} after the observer ran")
                        for n, b, a in _frame(NAMES, pre, post)]
            if not out:
                good[k] = True
        elif verb in ("rt", "rtb", "rtf"):
            out += _check_all(impl, e, o["before"], case, i, op, notes)
            if x is not None:
                out += _check_x(impl, xe["before"], x["before"], case, i, op)
            if not out and "pre_rej" in o:
                if not o["pre_rej"]:
                    notes.append(f"rejected-load:ACCEPTED:{impl}:{op[1]}")
                    return out      # the new runtime is no fresh register file any more: not judged further
                out += _no_trace(impl, "rejected snapshot load", zeros, o["mid"],
                                 [0] * len(XNAMES) if x is not None else None, x["mid"] if x is not None else None,
                                 case, i, op, f"a brand-new machine refused load_snapshot ({op[1]})")
            if not out:
                kind = "direct" if verb == "rt" else "blob" if verb == "rtb" else _file_kind(impl, ops)
                out += _not_reproduced(impl, kind, NAMES, o["before"], o["after"], None, case, i, op)
                if x is not None and not out:
                    out += _check_x(impl, xe["after"], x["after"], case, i, op)
        elif verb == "apply":
            if e is None:
                continue
            out += _check_all(impl, e["cur"], o["cur"], case, i, op, notes)
            if x is not None:
                out += _check_x(impl, xe["cur"], x["cur"], case, i, op)
            if not out:
                nr = _not_reproduced(impl, kinds.get(int(op[1]), "direct"), NAMES, obs[e["j"]], o["after"],
                                     o["cur"], case, i, op)
                if nr and good.get(int(op[1])):
                    # an earlier use of the very same snapshot object reproduced every value
                    nr = [Violation(v.subcheck, v.where, "value reproduced by an earlier application of the same "
                                    "snapshot is not reproduced any more", v.case, v.detail) for v in nr]
                out += nr
                if not out:
                    good[int(op[1])] = True
                if x is not None and not out:
                    out += _check_x(impl, xe["after"], x["after"], case, i, op)
        elif verb == "exec":
            out += _check_all(impl, e, o["before"], case, i, op, notes)
            if x is not None:
                out += _check_x(impl, xe["before"], x["before"], case, i, op)
            if not out and _is_nop(op, o):
                for n, b, a in zip(NAMES, o["before"], o["after"]):
                    if a != b and n != "PC":
                        out.append(Violation("frame", f"{impl} exec NOP: {_fp_name(n)}",
                                             "a register that NOP does not write changed", case,
                                             f"op#{i} {op}: {impl} {n} read {b:#x} before and {a:#x} after "
                                             f"executing NOP (only PC is written by NOP)"))
        if out:
            return out
    return out


def _file_kind(impl: str, ops: Sequence[Op]) -> str:
    """What an "rtf" op exercises on each register file (fingerprint component)."""
    if impl == "rs-runtime":
        return "file"          # CoreRuntime::save_snapshot -> CoreRuntime::new().load_snapshot
    if impl == "py" and py_host_kind(ops) == "machine":
        return "file"          # PCE500Emulator.save_snapshot -> PCE500Emulator().load_snapshot
    return "blob"              # bare LlamaState / CPU facade: no file path of its own, same as "rtb"


def check_temp_diff(ops: Sequence[Op], all_obs: Dict[str, List[Any]], case: Dict[str, Any]) -> List[Violation]:
    """TEMP values are modelled only up to width, so Python<->Rust agreement is asserted separately."""
    def temp_reads(o: Any, op: Op) -> Optional[List[Tuple[str, Any]]]:
        verb = op[0]
        if verb == "get" and op[1].startswith("TEMP"):
            return [(op[1], o)]
        if verb in ("all", "snap", "reset", "load") and isinstance(o, list):
            return [(n, o[INDEX[n]]) for n in TEMP_NAMES]
        if verb in ("rt", "rtb", "rtf", "apply") and isinstance(o, dict) and "after" in o:
            return [(n, o["after"][INDEX[n]]) for n in TEMP_NAMES]
        return None

    n_ops = min(len(all_obs[k]) for k in all_obs)
    for i in range(n_ops):
        if ops[i][0] in ("badload", "rtf") and any(
                isinstance(all_obs[k][i], dict) and (all_obs[k][i].get("rej") is False
                                                     or all_obs[k][i].get("pre_rej") is False) for k in all_obs):
            return []   # a loader accepted the file: the register files legitimately went different ways
        if ops[i][0] == "exec" and not (ops[i][1] == NOP and all(
                isinstance(all_obs[k][i], dict) and not all_obs[k][i].get("err") for k in all_obs)):
            # Python lifts through LLIL temporaries, the Rust executor does not use TEMPn: after an executed
            # instruction other than NOP the scratch registers legitimately differ
            return []
        reads = {k: temp_reads(all_obs[k][i], ops[i]) for k in all_obs}
        if any(r is None for r in reads.values()):
            continue
        base = reads["py"]
        for k in ("rs", "rs-runtime"):
            for (n, a), (_, b) in zip(base, reads[k]):  # type: ignore[arg-type]
                if a != b:
                    return [Violation("diff", f"py vs {k} read TEMP", "values differ", case,
                                      f"op#{i} {ops[i]}: {n} py={a:#x} {k}={b:#x}")]
    return []


def _to_dict_labels(ops: Sequence[Op], exp: List[Any], py: List[Any]) -> List[str]:
    """Informational only: does the snapshot's dictionary form show the values the reads return?"""
    out: List[str] = []
    for i, op in enumerate(ops):
        if op[0] == "collect" and i < len(py) and i < len(exp) and isinstance(py[i], dict) and "error" not in py[i]:
            vals = exp[i][1]
            same = all(py[i].get("dict", {}).get(k.lower()) == vals[INDEX[k]]
                       for k in ("PC", "BA", "I", "X", "Y", "U", "S", "F"))
            out.append("py-to_dict:" + ("matches-reads" if same else "differs-from-reads"))
    return out


def _blob_labels(ops: Sequence[Op], py: List[Any], rs: Any) -> List[str]:
    """Informational only (C16/C17 own the snapshot file format): do both packers emit the same bytes?"""
    out: List[str] = []
    if not isinstance(rs, list):
        return out
    for op, p, r in zip(ops, py, rs):
        if op[0] == "rtb" and isinstance(p, dict) and isinstance(r, dict) and p.get("blob") and r.get("blob"):
            out.append("registers.bin:" + ("py==rs" if p["blob"] == r["blob"] else "py!=rs"))
    return out


def evaluate(ops: Sequence[Op], rs_res: Dict[str, Any]) -> Tuple[List[Violation], List[str], bool]:
    py_obs = py_run(ops)
    all_obs: Dict[str, Tuple[List[Any], Optional[List[Any]]]] = {"py": (py_obs, None)}
    if "obs" in rs_res:
        for impl in ("rs", "rs-runtime"):
            all_obs[impl] = _rs_obs(rs_res["obs"], _RS_KEY[impl])
    # an executed instruction makes the expected values depend on what the register file held afterwards:
    # one model walk per register file; otherwise one walk serves all three
    per_impl = _uses_exec(ops)
    walks: Dict[str, Any] = {}

    def walk_for(impl: str, detailed: bool) -> Any:
        key = (impl if per_impl else "*", detailed)
        if key not in walks:
            walks[key] = walk_model(ops, detailed, all_obs[impl][0] if per_impl else None)
        return walks[key]

    plain, _, labels, nt = walk_for("py", False)
    labels = list(labels)
    labels += _to_dict_labels(ops, plain, py_obs)
    labels += _blob_labels(ops, py_obs, rs_res.get("obs"))
    if len(all_obs) == 3:
        ok = True
        for impl, (obs, xobs) in all_obs.items():
            exp, xexp, _, _ = walk_for(impl, False)
            if not _impl_ok(ops, exp, xexp, obs, xobs):
                ok = False
                break
        if ok:
            return [], labels, nt
    # slow path: same model walk, with the context needed to describe the mismatch
    case = {"ops": [list(o) for o in ops]}
    notes: List[str] = []
    viols: List[Violation] = []
    if "obs" not in rs_res:
        if "panic" in rs_res:
            viols.append(Violation("exception", "rs sequence", "rust panic", case, f"panic: {rs_res['panic']}"))
        else:
            viols.append(Violation("exception", "rs sequence",
                                   "rust error: " + str(rs_res.get("error", "?")).split(":")[0],
                                   case, f"error: {rs_res.get('error')}"))
    per: Dict[str, List[Violation]] = {}
    for impl, (obs, xobs) in all_obs.items():
        exp, xexp, _, _ = walk_for(impl, True)
        per[impl] = check_impl(impl, ops, exp, xexp, obs, xobs, case, notes)
    # the runtime facade shares LlamaState with `rs`: report it only where it adds something
    if "rs" in per and "rs-runtime" in per:
        seen = {(v.subcheck, v.where.replace("rs ", "", 1), v.symptom) for v in per["rs"]}
        per["rs-runtime"] = [v for v in per["rs-runtime"]
                             if (v.subcheck, v.where.replace("rs-runtime ", "", 1), v.symptom) not in seen]
    for impl in all_obs:
        viols += per[impl]
    if len(all_obs) == 3 and not viols:
        viols += check_temp_diff(ops, {k: v[0] for k, v in all_obs.items()}, case)
    labels += sorted(set(notes))
    uniq: Dict[str, Violation] = {}
    for v in viols:  # one verdict per fingerprint and history (TEMP0..13 share the bucket "TEMP")
        uniq.setdefault(v.key(), v)
    return list(uniq.values()), labels, nt


# --------------------------------------------------------------------------------------------------------
# Static table check (sc62015/arch.py register table)
# --------------------------------------------------------------------------------------------------------

def check_arch_table(rep: Report) -> None:
    from binja_test_mocks import binja_api  # noqa: F401
    from sc62015.arch import SC62015

    case = {"table": "arch"}
    regs = SC62015.regs
    want = {"A": ("BA", 1, 0), "B": ("BA", 1, 1), "IL": ("I", 1, 0), "IH": ("I", 1, 1), "BA": ("BA", 2, 0),
            "I": ("I", 2, 0)}
    for n, (full, size, off) in want.items():
        r = regs.get(n)
        got = None if r is None else (r.name, r.size, r.offset or 0)
        if got != (full, size, off):
            rep.violate(Violation("table", f"arch.regs[{n}]", "sub-register layout differs from B:A / IH:IL", case,
                                  f"arch.regs[{n}] = {got}, expected (full, size, offset) = {(full, size, off)}"))
    for n in ("X", "Y", "U", "S", "PC"):
        r = regs.get(n)
        if r is None or r.name != n or r.size * 8 < 20 or (r.offset or 0) != 0:
            rep.violate(Violation("table", f"arch.regs[{n}]", "cannot hold a 20-bit value", case,
                                  f"arch.regs[{n}] = {None if r is None else (r.name, r.size, r.offset)}"))
    rep.case(None, ["table:arch"], None)


# --------------------------------------------------------------------------------------------------------
# Generators
# --------------------------------------------------------------------------------------------------------

def _prefill(variant: int) -> List[Op]:
    if variant == 0:
        return []
    base = {"BA": 0xC3A5, "I": 0x965A, "X": 0xA1B2C, "Y": 0x5D4E3, "U": 0x7F6E5, "S": 0x81927, "PC": 0x3C4B5,
            "F": 0xA6}
    ops: List[Op] = []
    for n, v in base.items():
        if variant == 2:
            v ^= mask(n)
        ops.append(["set", n, v])
    for i, t in enumerate(TEMP_NAMES):
        v = (0x100001 * (i + 1)) & 0xFFFFFF
        if variant == 2:
            v ^= 0xFFFFFF
        ops.append(["set", t, v])
    return ops


SWEEP_TARGETS: Tuple[str, ...] = CORE_NAMES + ("flag:C", "flag:Z", "TEMP0", "TEMP13")
SWEEP_VALUES_QUICK = [0, 1, 2, 0x100, 0xFFFFFFFF, 0xA5A5A5A5]
SWEEP_VALUES_THOROUGH = [0, 1, 2, 0xFF, 0x100, 0xFFFF, 0x10000, 0xFFFFF, 0x100000, 0xFFFFFF, 0xFFFFFFFF,
                         0xA5A5A5A5, 0x5A5A5A5A]


def _write_op(target: str, v: int) -> Op:
    if target.startswith("flag:"):
        return ["setflag", target[5:], v]
    return ["set", target, v]


def sweep_cases(tier: str) -> Iterator[Tuple[str, List[Op]]]:
    """Finite, fully enumerated family (family label, ops)."""
    vals = SWEEP_VALUES_QUICK if tier == "quick" else SWEEP_VALUES_THOROUGH
    variants = (0, 1) if tier == "quick" else (0, 1, 2)
    k = 0
    for variant in variants:
        pre = _prefill(variant)
        for t1 in SWEEP_TARGETS:
            for v1 in vals:
                for t2 in SWEEP_TARGETS:
                    for v2 in vals:
                        k += 1
                        yield "sweep:pairs", pre + [_write_op(t1, v1), ["all"], _write_op(t2, v2), ["all"],
                                                    ["rt" if k % 2 else "rtb"], ["all"]]
    # single-bit probes: every register x every bit of the written value, from every start state
    for variant in variants:
        pre = _prefill(variant)
        for t in CORE_NAMES + ("flag:C", "flag:Z") + TEMP_NAMES:
            for bit in range(32):
                for v in ((1 << bit), 0xFFFFFFFF ^ (1 << bit)):
                    yield "sweep:bits", pre + [_write_op(t, v), ["all"], ["rtb" if bit % 2 else "rt"], ["all"]]


GEN_KIND_PAIRS = (("rtf", "rtf"), ("rt", "rtf"), ("rtf", "rt"), ("rtb", "rtf"), ("rtf", "rtb"))
GEN_VALUE_PAIRS = ((0xA5A5A5A5, 0x5A5A5A5A), (1, 0))


def sweep_generation_cases(tier: str) -> Iterator[Tuple[str, List[Op]]]:
    """Snapshot *generations* (complete enumeration): a register file restored from a snapshot is written to and
    snapshotted again.  Every name (all 28 + the flag API) is the register changed between the two generations;
    every pair of snapshot paths that involves the file path; every start state."""
    variants = (0, 1) if tier == "quick" else (0, 1, 2)
    for variant in variants:
        pre = _prefill(variant)
        for t in CORE_NAMES + ("flag:C", "flag:Z") + TEMP_NAMES:
            for k1, k2 in GEN_KIND_PAIRS:
                for v1, v2 in GEN_VALUE_PAIRS:
                    yield "sweep:generations", pre + [_write_op(t, v1), ["all"], [k1], ["all"], _write_op(t, v2),
                                                      ["all"], [k2], ["all"]]


def generation_sequences(seed: int, shard: int, n: int) -> List[List[Op]]:
    """Seeded chains of 2..5 snapshot generations: each generation writes 1..4 registers (half of the writes go
    to TEMPs, which travel outside registers.bin), reads everything back, and is snapshotted -- mostly through
    the file path -- into a fresh register file that becomes the next generation."""
    out: List[List[Op]] = []
    for j in range(n):
        st = Stream(seed, 0xC08, 0x6E6, shard, j)
        ops: List[Op] = list(_prefill(st.below(3))) if st.chance(1, 3) else []
        for _ in range(2 + st.below(4)):
            for _ in range(1 + st.below(4)):
                k = st.below(4)
                v = st.choice(BOUNDARY) if k < 2 else st.u32() if k == 2 else st.u32() & 0xFFFF
                r = st.below(10)
                if r < 5:
                    ops.append(["set", st.choice(TEMP_NAMES), v])
                elif r < 9:
                    ops.append(["set", st.choice(CORE_NAMES), v])
                else:
                    ops.append(["setflag", st.choice(("C", "Z")), v])
            if st.chance(1, 2):
                ops.append(["all"])
            r = st.below(10)
            ops.append(["rtf"] if r < 6 else ["rt"] if r < 8 else ["rtb"])
            ops.append(["all"])
        out.append(ops)
    return out


# executed instructions: (opcode byte(s), number of generated operand bytes).  NOP is the one instruction whose
# register effect this property asserts (nothing but PC); the others are just further writers of the register
# file (MV A,n / ADD A,n / ADD (m),A / SUB (m),A / SBC A,n / PUSHU r / POPU r / POPS F / EX (m),(n) / EX r,r / SC /
# INC r / RETI: the Python lifter routes most of them through LLIL temporaries, i.e. they write TEMPn).  The
# block instructions (MVL, ADCL, DADL, ...) are left out: they loop I times (seconds on the Python core).
EXEC_TEMPLATES: Tuple[Tuple[str, int], ...] = (("08", 1), ("40", 1), ("45", 1), ("4d", 1), ("58", 1), ("2e", 0),
                                               ("28", 0), ("2b", 0), ("38", 0), ("3e", 0), ("5f", 0), ("c0", 2),
                                               ("ed", 1), ("97", 0), ("6c", 1), ("01", 0))


def _exec_op(st: Stream, nop_chance: Tuple[int, int] = (1, 2)) -> Op:
    if st.chance(*nop_chance):
        return ["exec", NOP, st.u32()]
    head, n = st.choice(EXEC_TEMPLATES)
    return ["exec", head + "".join("%02x" % st.below(256) for _ in range(n)), st.u32()]


ALL_TARGETS: Tuple[str, ...] = CORE_NAMES + ("flag:C", "flag:Z") + TEMP_NAMES
R3_VALUE_PAIRS = ((0xA5A5A5A5, 0x5A5A5A5A), (0xFF, 0), (0x12345678, 0xFFFFFFFF))


def sweep_round3_cases(tier: str) -> Iterator[Tuple[str, List[Op]]]:
    """Complete enumerations added in round 3 (family label, ops)."""
    variants = (0, 1) if tier == "quick" else (0, 1, 2)
    pairs = R3_VALUE_PAIRS[:2] if tier == "quick" else R3_VALUE_PAIRS
    k = 0
    # (a) independence: a name only the Rust register file has x every other name x both orders
    for variant in variants:
        pre = _prefill(variant)
        for x in XNAMES + WNAMES:
            for t in ALL_TARGETS + tuple(n for n in XNAMES + WNAMES if n != x):
                for vx, vt in pairs:
                    for first in (0, 1):
                        k += 1
                        w = [["set", x, vx], _write_op(t, vt)]
                        yield "sweep:independence", pre + [w[first], ["all"], w[1 - first], ["all"],
                                                           ["rt" if k % 2 else "rtb"], ["all"]]
    # (b) a snapshot is a value: every name changed between taking a snapshot and applying it
    for variant in variants:
        pre = _prefill(variant)
        for t in ALL_TARGETS + XNAMES:
            for kind in ("d", "b"):
                for mode in ("replace", "peek"):
                    for host in ("plain", "cpu"):
                        for v1, v2 in pairs[:1] if tier == "quick" else pairs[:2]:
                            head: List[Op] = [["host", "cpu"]] if host == "cpu" else []
                            yield "sweep:deferred", head + pre + [_write_op(t, v1), ["snap", 0, kind],
                                                                  _write_op(t, v2), ["all"], ["apply", 0, mode],
                                                                  ["all"]]
    # (c) two live snapshots of different moments, applied in both orders
    for variant in variants:
        pre = _prefill(variant)
        for t in ALL_TARGETS:
            for a, b in ((0, 1), (1, 0)):
                yield "sweep:deferred-order", pre + [_write_op(t, 0xA5A5A5A5), ["snap", 0, "d"],
                                                     _write_op(t, 0x5A5A5A5A), ["snap", 1, "d"],
                                                     _write_op(t, 0x00C3C3C3), ["apply", a, "peek"], ["all"],
                                                     ["apply", b, "replace"], ["all"]]
    # (d) an executed NOP between a write and the read-back / snapshot; a snapshot applied after the source ran on
    for variant in variants:
        pre = _prefill(variant)
        for seed in (1, 0x5EED):
            for t in TEMP_NAMES + XNAMES + ("A", "IH", "F", "FC", "X", "S"):
                yield "sweep:exec", pre + [_write_op(t, 0x00A55A3C), ["all"], ["exec", NOP, seed], ["all"],
                                           ["rt" if seed == 1 else "rtb"], ["all"]]
                yield "sweep:exec", pre + [_write_op(t, 0x00A55A3C), ["snap", 2, "d"], ["exec", NOP, seed],
                                           ["exec", "2e", seed], ["exec", "c01020", seed], ["all"],
                                           ["apply", 2, "replace"], ["all"]]


def deferred_sequences(seed: int, shard: int, n: int) -> List[List[Op]]:
    """Seeded histories around deferred snapshots: rounds of writes (half of them to TEMPs, some to the Rust-only
    names), optionally executed instructions, snapshots into one of 4 slots and applications of live slots in
    generated order (replacing the current register file or not); all live slots are applied at the end."""
    out: List[List[Op]] = []
    for j in range(n):
        st = Stream(seed, 0xC08, 0xDEF, shard, j)
        flavour = st.below(10)         # 0-3 plain Registers, 4-5 CPU facade, 6-8 CPU facade + exec, 9 machine (file)
        ops: List[Op] = [["host", "cpu"]] if 4 <= flavour <= 5 else []
        if st.chance(1, 3):
            ops += _prefill(st.below(3))
        live: List[int] = []
        for _ in range(2 + st.below(5)):
            for _ in range(1 + st.below(4)):
                k = st.below(4)
                v = st.choice(BOUNDARY) if k < 2 else st.u32() if k == 2 else st.u32() & 0xFFFF
                r = st.below(20)
                if r < 9:
                    ops.append(["set", st.choice(TEMP_NAMES), v])
                elif r < 16:
                    ops.append(["set", st.choice(CORE_NAMES), v])
                elif r < 17:
                    ops.append(["setflag", st.choice(("C", "Z")), v])
                elif r < 19:
                    ops.append(["set", st.choice(XNAMES), v])
                else:
                    ops.append(["set", st.choice(WNAMES), v])
            if 6 <= flavour <= 8 and st.chance(1, 2):
                for _ in range(1 + st.below(2)):
                    ops.append(_exec_op(st, (1, 3)))
            r = st.below(10)
            if r < 5 or not live:
                k = st.below(SLOTS)
                ops.append(["snap", k, "b" if st.chance(1, 4) else "d"])
                if k not in live:
                    live.append(k)
            elif r < 8:
                ops.append(["apply", st.choice(live), "peek" if st.chance(1, 2) else "replace"])
                ops.append(["all"])
            elif r < 9:
                ops.append(["rtf"] if flavour == 9 else ["rt"])
                ops.append(["all"])
            else:
                ops.append(["all"])
        while live:
            k = live.pop(st.below(len(live)))
            ops.append(["apply", k, "replace" if not live or st.chance(1, 3) else "peek"])
            ops.append(["all"])
        out.append(ops)
    return out


# names that are no register of either register file (upper case: the Rust facade folds case); "TEMP14X" & co. probe
# the prefix parsers.  None of them may be read as an alias of a real register by a reasonable implementation.
BAD_NAMES: Tuple[str, ...] = ("", "NOPE", "Q", "AB", "BAX", "XY", "TEMP", "TEMP-1", "TEMP14X", "FCZ", "PCC", "R0",
                              "IMRX")
BAD_ACCESS: Tuple[str, ...] = ("set", "get", "setflag", "getflag")
R4_LOAD_TARGETS_QUICK: Tuple[str, ...] = ("A", "F", "X", "TEMP0")
R4_LOAD_TARGETS_THOROUGH: Tuple[str, ...] = ("A", "IH", "F", "flag:Z", "X", "S", "PC", "TEMP0", "TEMP13")


def _observe_op(st: Stream, k: int, live: Sequence[int]) -> Op:
    what = st.choice(OBSERVERS)
    if what in ("diff", "rdiff", "eq"):
        return ["observe", k, what, st.choice(list(live)) if live and st.chance(1, 2) else "cur"]
    if what == "step":
        if st.chance(1, 2):
            return ["observe", k, what, NOP]
        head, n = st.choice(EXEC_TEMPLATES)
        return ["observe", k, what, head + "".join("%02x" % st.below(256) for _ in range(n))]
    return ["observe", k, what, None]


def sweep_round4_cases(tier: str) -> Iterator[Tuple[str, List[Op]]]:
    """Complete enumerations added in round 4 (family label, ops)."""
    variants = (0, 1) if tier == "quick" else (0, 1, 2)
    targets = R4_LOAD_TARGETS_QUICK if tier == "quick" else R4_LOAD_TARGETS_THOROUGH
    # (a) a snapshot load the running machine refuses, for every reason the loaders know; then a valid round trip
    #     and the same refusal on the machine that was itself restored from a file
    for variant in variants:
        pre = _prefill(variant)
        for kind in BAD_KINDS:
            for t in targets:
                yield "sweep:rejected-load", pre + [_write_op(t, 0x00A55A3C), ["all"], ["badload", kind], ["all"],
                                                    ["rtf"], ["all"], _write_op(t, 0x005AA5C3), ["badload", kind],
                                                    ["all"]]
                # (b) the brand-new machine of a round trip refuses a load first
                yield "sweep:rejected-load", pre + [_write_op(t, 0x00A55A3C), ["all"], ["rtf", kind], ["all"],
                                                    _write_op(t, 0x005AA5C3), ["rtf"], ["all"]]
    # (c) by-name access with a name that is no register
    k = 0
    for variant in variants:
        pre = _prefill(variant)
        for how in BAD_ACCESS:
            for name in BAD_NAMES:
                k += 1
                yield "sweep:unknown-name", pre + [["set", "A", 0x5A], ["badname", how, name, 0xFFFFFFFF], ["all"],
                                                   ["rt" if k % 2 else "rtb"], ["badname", how, name, 1], ["all"]]
    # (d) a live snapshot is looked at (every observer x operand kind) between being taken and being applied -- twice
    k = 0
    for variant in variants:
        pre = _prefill(variant)
        for t in ALL_TARGETS:
            for what, arg in (("diff", "cur"), ("diff", 1), ("rdiff", "cur"), ("rdiff", 1), ("eq", 1),
                              ("to_dict", None), ("repr", None), ("pack", None), ("step", NOP), ("step", "0855")):
                k += 1
                head: List[Op] = [["host", "cpu"]] if k % 3 == 0 else []
                yield "sweep:observed", head + pre + [_write_op(t, 0x00A55A3C), ["snap", 0, "b" if k % 4 == 1 else "d"],
                                                      _write_op(t, 0x005AA5C3 if k % 2 else 0x00A55A3C),
                                                      ["snap", 1, "d"], ["observe", 0, what, arg],
                                                      ["apply", 0, "peek"], ["observe", 0, what, arg],
                                                      ["apply", 1, "peek"], ["apply", 0, "replace"], ["all"]]


def round4_sequences(seed: int, shard: int, n: int) -> List[List[Op]]:
    """Seeded histories around *rejected operations* and *observed snapshots*: rounds of writes, then one of: take a
    snapshot / look at a live snapshot (diff, ==, to_dict, repr, pack, one instruction stepped from it; the other
    operand is another live snapshot or the current file) / apply a live snapshot / access by an unknown name / a
    snapshot load that is refused (machine histories) / a file round trip whose new machine refuses a load first;
    every live snapshot is applied at the end, half of them after one more observation."""
    out: List[List[Op]] = []
    for j in range(n):
        st = Stream(seed, 0xC08, 0x0B5, shard, j)
        flavour = st.below(10)      # 0-3 plain Registers, 4-5 CPU facade, 6-7 CPU facade + exec, 8-9 machine (files)
        machine = flavour >= 8
        ops: List[Op] = [["host", "cpu"]] if 4 <= flavour <= 5 else []
        if st.chance(1, 2):
            ops += _prefill(1 + st.below(2))
        live: List[int] = []
        for _ in range(2 + st.below(5)):
            for _ in range(1 + st.below(3)):
                k = st.below(4)
                v = st.choice(BOUNDARY) if k < 2 else st.u32() if k == 2 else st.u32() & 0xFFFF
                r = st.below(20)
                if r < 10:
                    ops.append(["set", st.choice(TEMP_NAMES), v])
                elif r < 17:
                    ops.append(["set", st.choice(CORE_NAMES), v])
                elif r < 18:
                    ops.append(["setflag", st.choice(("C", "Z")), v])
                else:
                    ops.append(["set", st.choice(XNAMES + WNAMES), v])
            if 6 <= flavour <= 7 and st.chance(1, 3):
                ops.append(_exec_op(st, (1, 3)))
            r = st.below(12)
            if r < 3 or not live:
                k = st.below(SLOTS)
                ops.append(["snap", k, "b" if st.chance(1, 4) else "d"])
                if k not in live:
                    live.append(k)
            elif r < 6:
                k = st.choice(live)
                ops.append(_observe_op(st, k, live))
                if st.chance(1, 2):
                    ops.append(["apply", k, "peek"])
            elif r < 8:
                ops.append(["apply", st.choice(live), "peek" if st.chance(1, 2) else "replace"])
                ops.append(["all"])
            elif r < 9:
                ops.append(["badname", st.choice(BAD_ACCESS), st.choice(BAD_NAMES), v])
                ops.append(["all"])
            elif r < 11:
                ops.append(["badload", st.choice(BAD_KINDS)] if machine else ["rt"])
                ops.append(["all"])
            else:
                if machine:
                    ops.append(["rtf", st.choice(BAD_KINDS)] if st.chance(1, 2) else ["rtf"])
                else:
                    ops.append(["rtb"])
                ops.append(["all"])
        while live:
            k = live.pop(st.below(len(live)))
            if st.chance(1, 2):
                ops.append(_observe_op(st, k, live))
            ops.append(["apply", k, "replace" if not live or st.chance(1, 3) else "peek"])
            ops.append(["all"])
        out.append(ops)
    return out


# --------------------------------------------------------------------------------------------------------
# Round 5: lifecycle verbs, names across the snapshot boundary, write order inside an overlap group
# --------------------------------------------------------------------------------------------------------

LIFE_FIRST: Tuple[str, ...] = ("F", "FC", "FZ", "flag:C", "flag:Z", "A", "IH", "X", "TEMP0", "TEMP13")
ORDER_GROUPS: Tuple[Tuple[str, Tuple[str, ...]], ...] = (("BA", ("A", "B")), ("I", ("IL", "IH")),
                                                         ("F", ("FC", "FZ", "flag:C", "flag:Z")))


def _temp_value(k: int, salt: int) -> int:
    """A non-zero 24-bit value that is different for every TEMP number (and for every salt 0..15)."""
    return ((0x010203 * (k + 1)) ^ ((salt & 0xF) << 20) ^ 0x0C0000) & 0xFFFFFF or 0x00FFFF


def _load_values(st: Stream) -> Dict[str, int]:
    """Named values of a snapshot that is built, not collected: a generated subset of the 8 full registers and the
    14 TEMPs, every value inside the register's width, TEMP values pairwise distinct and non-zero."""
    vals: Dict[str, int] = {}
    salt = st.below(16)
    dense = st.chance(1, 2)
    for n in LOAD_NAMES:
        if n.startswith("TEMP"):
            if dense or st.chance(1, 3):
                vals[n] = _temp_value(int(n[4:]), salt)
        elif st.chance(1, 2):
            v = st.choice(BOUNDARY) if st.chance(1, 2) else st.u32()
            vals[n] = v & mask(n)
    return vals


def sweep_round5_cases(tier: str) -> Iterator[Tuple[str, List[Op]]]:
    """Complete enumerations added in round 5 (family label, ops)."""
    variants = (0, 1) if tier == "quick" else (0, 1, 2)
    k = 0
    # (a) lifecycle: the SAME register file is reset and used on; every write target after the reset
    firsts = (1, 0xFFFFFFFF) if tier == "quick" else (1, 2, 0xFFFFFFFF, 0xA5A5A5A5)
    for variant in variants:
        pre = _prefill(variant)
        for t1 in LIFE_FIRST:
            for v1 in firsts:
                for t2 in SWEEP_TARGETS:
                    for v2 in (0, 0xFFFFFFFF):
                        k += 1
                        yield "sweep:lifecycle", pre + [_write_op(t1, v1), ["all"], ["reset"], _write_op(t2, v2),
                                                        ["all"], ["rt" if k % 2 else "rtb"], ["all"], ["reset"],
                                                        _write_op(t2, v2 ^ 0xFFFFFFFF), ["all"]]
    # (b) write order inside an overlap group: whole register, then an alias alone, then the whole register again
    #     with the same / an equal-after-truncation / a different value
    wholes = (0, 1, 3, 0xA5A5A5A5) if tier == "quick" else (0, 1, 2, 3, 0xFF, 0xA5A5A5A5, 0x5A5A5A5A, 0xFFFFFFFF)
    for variant in variants:
        pre = _prefill(variant)
        for g, subs in ORDER_GROUPS:
            for v in wholes:
                for sub in subs:
                    for sv in (0, 1, 0xFF):
                        for v2 in (v, v ^ 0x80000000, v ^ 1, v ^ 2):
                            k += 1
                            yield "sweep:write-order", pre + [["set", g, v], ["all"], _write_op(sub, sv), ["all"],
                                                              ["set", g, v2], ["all"], ["rt" if k % 2 else "rtb"],
                                                              ["all"]]
    # (c) names across the snapshot boundary: distinct non-zero values in (subsets of) the TEMPs, the snapshot's
    #     dictionary form held against the reads, and a snapshot built from named values applied to a fresh file
    for variant in variants:
        pre = _prefill(variant)
        for r in range(len(TEMP_NAMES)):
            for mode in range(4):
                k += 1
                order = TEMP_NAMES[r:] + TEMP_NAMES[:r]
                chosen = (order, order[::2], order[:1], order[1:])[mode]
                writes: List[Op] = [["set", t, _temp_value(int(t[4:]), r)] for t in chosen]
                vals = {t: _temp_value(int(t[4:]), r + 5) for t in (order[1:], order[:1], order[::2], order)[mode]}
                vals.update({"PC": 0x12345, "BA": 0xBEEF, "F": 0x83} if mode % 2 else {"X": 0xABCDE, "I": 0x1234})
                head: List[Op] = [["host", "cpu"]] if k % 3 == 0 else []
                yield "sweep:names", head + pre + writes + [["collect"], ["all"], ["load", vals], ["collect"], ["all"],
                                                            ["rt" if k % 2 else "rtb"], ["collect"], ["all"]]


def round5_sequences(seed: int, shard: int, n: int) -> List[List[Op]]:
    """Seeded histories around the register file's *lifecycle* (reset of the same object, then more writes) and
    *names across the snapshot boundary* (snapshot dictionary vs reads, snapshots built from named values), mixed
    with ordinary round trips, one deferred snapshot and -- on the CPU facade -- executed NOPs."""
    out: List[List[Op]] = []
    for j in range(n):
        st = Stream(seed, 0xC08, 0x5E5, shard, j)
        flavour = st.below(10)      # 0-5 plain Registers, 6-7 CPU facade, 8 CPU facade + exec, 9 machine (files)
        ops: List[Op] = [["host", "cpu"]] if 6 <= flavour <= 7 else []
        if st.chance(1, 3):
            ops += _prefill(1 + st.below(2))
        if st.chance(1, 2):
            salt = st.below(16)
            start = st.below(len(TEMP_NAMES))
            for t in (TEMP_NAMES[start:] + TEMP_NAMES[:start])[:1 + st.below(len(TEMP_NAMES))]:
                ops.append(["set", t, _temp_value(int(t[4:]), salt)])
        snapped = False
        for _ in range(2 + st.below(5)):
            for _ in range(1 + st.below(4)):
                k = st.below(4)
                v = st.choice(BOUNDARY) if k < 2 else st.u32() if k == 2 else st.u32() & 0xFFFF
                r = st.below(20)
                if r < 5:
                    ops.append(["set", st.choice(MEMBERS["F"]), v])
                elif r < 7:
                    ops.append(["setflag", st.choice(("C", "Z")), v])
                elif r < 11:
                    ops.append(["set", st.choice(TEMP_NAMES), v])
                elif r < 18:
                    ops.append(["set", st.choice(CORE_NAMES), v])
                else:
                    ops.append(["set", st.choice(XNAMES + WNAMES), v])
            r = st.below(12)
            if r < 4:
                ops.append(["reset"])
            elif r < 6:
                ops.append(["load", _load_values(st)])
            elif r < 8:
                ops.append(["collect"])
                ops.append(["all"])
            elif r < 9:
                ops.append(["rt"])
            elif r < 10:
                ops.append(["rtf"] if flavour == 9 else ["rtb"])
            elif r < 11:
                if snapped:
                    ops.append(["apply", 0, "peek" if st.chance(1, 2) else "replace"])
                else:
                    ops.append(["snap", 0, "d"])
                    snapped = True
            else:
                ops.append(["exec", NOP, st.u32()] if flavour == 8 else ["all"])
        ops.append(["collect"])
        ops.append(["all"])
        out.append(ops)
    return out


def _hyp_sequences(seed: int, n: int, min_ops: int = 1) -> List[List[Op]]:
    import hypothesis
    from hypothesis import HealthCheck, given, settings, strategies as st

    core, temp = st.sampled_from(CORE_NAMES), st.sampled_from(TEMP_NAMES)
    # every name a register file accepts: 1/8 of the names are the ones only the Rust file has
    name = st.one_of(core, core, core, core, core, temp, temp, st.sampled_from(XNAMES))
    value = st.one_of(st.sampled_from(BOUNDARY), st.integers(0, 0xFFFFFFFF), st.integers(0, 0xFFFF))
    flag = st.sampled_from(["C", "Z"])
    set_op = st.tuples(st.just("set"), name, value)
    write = st.one_of(set_op, set_op, set_op, set_op, set_op, set_op, st.tuples(st.just("setflag"), flag, value),
                      st.tuples(st.just("setflag"), flag, value),
                      st.tuples(st.just("set"), st.sampled_from(WNAMES), value))
    # snapshot ops: the file path costs ~20 ms per op on the Python side, so it gets 1/5 of the snapshot ops
    snap = st.sampled_from([("rt",), ("rt",), ("rtb",), ("rtb",), ("rtf",)])
    slot = st.integers(0, SLOTS - 1)
    take = st.tuples(st.just("snap"), slot, st.sampled_from(["d", "d", "b"]))
    apply_ = st.tuples(st.just("apply"), slot, st.sampled_from(["replace", "peek"]))
    operand = st.integers(0, 255).map(lambda b: "%02x" % b)
    exec_ = st.one_of(
        st.tuples(st.just("exec"), st.just(NOP), st.integers(0, 0xFFFFFFFF)),
        st.tuples(st.just("exec"),
                  st.sampled_from(EXEC_TEMPLATES).flatmap(
                      lambda t: st.tuples(*([st.just(t[0])] + [operand] * t[1])).map("".join)),
                  st.integers(0, 0xFFFFFFFF)))
    bad_kind = st.sampled_from(BAD_KINDS)
    observe_ = st.one_of(
        st.tuples(st.just("observe"), slot, st.sampled_from(["diff", "rdiff", "eq"]), st.one_of(slot, st.just("cur"))),
        st.tuples(st.just("observe"), slot, st.sampled_from(["to_dict", "repr", "pack"]), st.none()),
        st.tuples(st.just("observe"), slot, st.just("step"), st.just(NOP)))
    refused = st.one_of(
        st.tuples(st.just("badname"), st.sampled_from(BAD_ACCESS), st.sampled_from(BAD_NAMES), value),
        st.tuples(st.just("badload"), bad_kind),
        st.tuples(st.just("rtf"), bad_kind))
    load_ = st.tuples(st.just("load"),
                      st.dictionaries(st.sampled_from(LOAD_NAMES), value, max_size=10).map(
                          lambda d: {k: v & mask(k) for k, v in d.items()}))
    other = st.one_of(st.tuples(st.just("get"), name), st.tuples(st.just("getflag"), flag), st.just(("all",)),
                      snap, snap, st.just(("collect",)), take, apply_, apply_, exec_, observe_, refused,
                      st.just(("reset",)), load_)
    op = st.one_of(write, write, other)
    seqs: List[List[Op]] = []

    @hypothesis.seed(seed)
    @settings(max_examples=n, deadline=None, database=None, report_multiple_bugs=False,
              suppress_health_check=list(HealthCheck), phases=[hypothesis.Phase.generate])
    @given(st.lists(op, min_size=min_ops, max_size=50), st.booleans())
    def collect(ops: List[Tuple[Any, ...]], dense: bool) -> None:
        out: List[Op] = []
        has_exec = any(o[0] == "exec" for o in ops)
        for o in ops:
            if has_exec and o[0] == "rtf":
                o = ("rtb",)  # the machine-level file path and executed instructions are not combined
            if has_exec and o[0] == "badload":
                o = ("all",)
            out.append(list(o))
            if dense and o[0] in ("set", "setflag"):
                out.append(["all"])
        out.append(["all"])
        seqs.append(out)

    collect()
    return seqs


def stream_sequences(seed: int, shard: int, n: int) -> List[List[Op]]:
    """Cheap deterministic pseudo-random histories (gen_state.Stream): volume next to Hypothesis' variety.
    Half of them concentrate their writes on one overlap group (BA / I / F) to force alias interleavings."""
    out: List[List[Op]] = []
    focus_groups = ("BA", "I", "F")
    for j in range(n):
        st = Stream(seed, 0xC08, shard, j)
        length = 3 + st.below(48)
        focus = MEMBERS[st.choice(focus_groups)] if st.chance(1, 2) else None
        dense = st.chance(1, 2)
        executes = st.chance(1, 3)   # histories that also execute instructions (never combined with "rtf")

        def name() -> str:
            if focus is not None and st.chance(7, 10):
                return st.choice(focus)
            if st.chance(1, 12):
                return st.choice(XNAMES)
            if st.chance(1, 5):
                return st.choice(TEMP_NAMES)
            return st.choice(CORE_NAMES)

        def value() -> int:
            k = st.below(4)
            if k < 2:
                return st.choice(BOUNDARY)
            return st.u32() if k == 2 else st.u32() & 0xFFFF

        ops: List[Op] = []
        for _ in range(length):
            r = st.below(100)
            if r < 54:
                ops.append(["set", st.choice(WNAMES) if st.chance(1, 25) else name(), value()])
            elif r < 63:
                fl = st.choice(("C", "Z"))
                if focus is not None and "F" not in focus and st.chance(1, 2):
                    ops.append(["set", name(), value()])
                else:
                    ops.append(["setflag", fl, value()])
            elif r < 71:
                ops.append(["get", name()])
            elif r < 73:
                ops.append(["observe", st.below(SLOTS), st.choice(OBSERVERS[:6]),
                            st.choice((0, 1, 2, 3, "cur", "cur"))] if st.chance(2, 3)
                           else ["observe", st.below(SLOTS), "step", NOP])
            elif r < 74:
                if st.chance(1, 2):
                    ops.append(["badname", st.choice(BAD_ACCESS), st.choice(BAD_NAMES), value()])
                elif executes:
                    ops.append(["all"])
                else:
                    ops.append(["badload", st.choice(BAD_KINDS)] if st.chance(1, 2)
                               else ["rtf", st.choice(BAD_KINDS)])
            elif r < 78:
                ops.append(["getflag", st.choice(("C", "Z"))])
            elif r < 82:
                ops.append(["all"])
            elif r < 83:
                ops.append(["reset"])
            elif r < 84:
                ops.append(["load", _load_values(st)] if st.chance(1, 2) else ["collect"])
            elif r < 87:
                ops.append(["rt"])
            elif r < 89:
                ops.append(["rtb"])
            elif r < 90:
                ops.append(["rtb"] if executes else ["rtf"])
            elif r < 93:
                ops.append(["snap", st.below(SLOTS), "b" if st.chance(1, 3) else "d"])
            elif r < 96:
                ops.append(["apply", st.below(SLOTS), "replace" if st.chance(1, 2) else "peek"])
            elif r < 99:
                ops.append(_exec_op(st) if executes else ["all"])
            else:
                ops.append(["collect"])
            if dense and ops[-1][0] in ("set", "setflag"):
                ops.append(["all"])
        ops.append(["all"])
        out.append(ops)
    return out


# --------------------------------------------------------------------------------------------------------
# Shards
# --------------------------------------------------------------------------------------------------------

BATCH = 200


def eval_batch(items: List[Tuple[str, List[Op]]], rep: Report) -> None:
    for i in range(0, len(items), BATCH):
        chunk = items[i:i + BATCH]
        results = rs_run([ops for _, ops in chunk])
        if len(results) != len(chunk):
            raise HarnessError("c08.run returned a different number of results")
        for (family, ops), res in zip(chunk, results):
            viols, labels, nt = evaluate(ops, res)
            for v in viols:
                rep.violate(v)
            sample = None
            if rep.evaluations % 1009 == 5:
                sample = {"family": family, "ops": ops if len(ops) <= 24 else ops[:24] + [["..."]],
                          "n_ops": len(ops), "violations": len(viols)}
            lab = sorted(set(labels)) + [family, "len:%s" % ("1-8" if len(ops) <= 8 else "9-24" if len(ops) <= 24 else "25+")]
            if nt:
                lab.append("nontrivial-in:" + family)
            rep.case(jhash(ops) if nt else None, lab, sample)


def _preload() -> None:
    """Import everything a shard will ever import *before* any Hypothesis generation.

    Hypothesis (>= 6.13x) seeds its integer/text generation with constants harvested from the source of the
    local modules present in sys.modules, so what it generates depends on which modules are already loaded.
    Pool workers run several tasks in a timing-dependent order; without this, a worker that had already
    evaluated a sweep shard (sc62015 / pce500 imported) generated different histories from one that had not,
    and `distinct_nontrivial` varied between runs of the same seed."""
    _py_api()
    import hypothesis  # noqa: F401
    import hypothesis.strategies  # noqa: F401


def _shard(task: Tuple[str, int, int, int, str, int]) -> Report:
    try:
        return _shard_inner(task)
    finally:
        _remove_scratch_dir()


def _shard_inner(task: Tuple[str, int, int, int, str, int]) -> Report:
    kind, shard, nshards, seed, tier, n = task
    rep = Report()
    _preload()
    if kind == "hyp":
        # odd shards generate long histories only (Hypothesis otherwise favours short lists)
        items = [("hypothesis", ops) for ops in _hyp_sequences(seed, n, 1 if shard % 2 == 0 else 16)]
        eval_batch(items, rep)
    elif kind == "stream":
        eval_batch([("stream", ops) for ops in stream_sequences(seed, shard, n)], rep)
    elif kind == "gen":
        eval_batch([("generations", ops) for ops in generation_sequences(seed, shard, n)], rep)
    elif kind == "sweepgen":
        items = [(fam, ops) for k, (fam, ops) in enumerate(sweep_generation_cases(tier)) if k % nshards == shard]
        eval_batch(items, rep)
        rep.extra["sweep_generation_cases"] = len(items)
    elif kind == "deferred":
        eval_batch([("deferred", ops) for ops in deferred_sequences(seed, shard, n)], rep)
    elif kind == "round4":
        eval_batch([("round4", ops) for ops in round4_sequences(seed, shard, n)], rep)
    elif kind == "sweep4":
        items = [(fam, ops) for k, (fam, ops) in enumerate(sweep_round4_cases(tier)) if k % nshards == shard]
        eval_batch(items, rep)
        rep.extra["sweep_round4_cases"] = len(items)
    elif kind == "round5":
        eval_batch([("round5", ops) for ops in round5_sequences(seed, shard, n)], rep)
    elif kind == "sweep5":
        items = [(fam, ops) for k, (fam, ops) in enumerate(sweep_round5_cases(tier)) if k % nshards == shard]
        eval_batch(items, rep)
        rep.extra["sweep_round5_cases"] = len(items)
    elif kind == "sweep3":
        items = [(fam, ops) for k, (fam, ops) in enumerate(sweep_round3_cases(tier)) if k % nshards == shard]
        eval_batch(items, rep)
        rep.extra["sweep_round3_cases"] = len(items)
    else:
        items = [(fam, ops) for k, (fam, ops) in enumerate(sweep_cases(tier)) if k % nshards == shard]
        eval_batch(items, rep)
        rep.extra["sweep_cases"] = len(items)
    return rep


def run(ctx: Ctx) -> Report:
    rsclient.build()
    _preload()  # in the parent, so every forked worker starts from the same sys.modules
    rust = rsclient.Rust()
    try:
        resp = rust.call({"cmd": "c08.names"})
    except BaseException:
        rust.close()
        raise
    names = resp.get("names")
    if list(names or []) != list(NAMES):
        raise HarnessError(f"register name order mismatch between harness sides: {names}")
    if list(resp.get("xnames") or []) != list(XNAMES) or list(resp.get("wnames") or []) != list(WNAMES):
        raise HarnessError(f"Rust-only register names differ between harness sides: {resp}")
    n_hyp_shards = ctx.pick(16, 64)
    n_hyp = ctx.pick(200, 500)
    n_stream = ctx.pick(500, 1200)
    n_sweep = ctx.pick(16, 32)
    n_gen = ctx.pick(40, 150)
    n_gen_shards = 16
    n_def = ctx.pick(120, 600)
    n_r4 = ctx.pick(60, 300)
    n_r5 = ctx.pick(50, 250)
    tasks: List[Tuple[str, int, int, int, str, int]] = []
    for i in range(n_sweep):
        tasks.append(("sweep", i, n_sweep, ctx.seed, ctx.tier, 0))
    for i in range(n_gen_shards):
        tasks.append(("sweepgen", i, n_gen_shards, ctx.seed, ctx.tier, 0))
        tasks.append(("gen", i, n_gen_shards, mix32(0xC08, ctx.seed, 0x6E6E), ctx.tier, n_gen))
        tasks.append(("sweep3", i, n_gen_shards, ctx.seed, ctx.tier, 0))
        tasks.append(("deferred", i, n_gen_shards, mix32(0xC08, ctx.seed, 0xDEFE), ctx.tier, n_def))
        tasks.append(("sweep4", i, n_gen_shards, ctx.seed, ctx.tier, 0))
        tasks.append(("round4", i, n_gen_shards, mix32(0xC08, ctx.seed, 0x0B5E), ctx.tier, n_r4))
        tasks.append(("sweep5", i, n_gen_shards, ctx.seed, ctx.tier, 0))
        tasks.append(("round5", i, n_gen_shards, mix32(0xC08, ctx.seed, 0x5E5E), ctx.tier, n_r5))
    for i in range(n_hyp_shards):
        # not ctx.shard_seed(i): mix32(seed, i, ..) xors seed and i before mixing, so small seeds would only
        # permute one set of shard seeds (seed 1 shard 1 == seed 2 shard 2); mix the run seed in first.
        tasks.append(("hyp", i, n_hyp_shards, mix32(0xC08, ctx.seed, i, 0x5EED), ctx.tier, n_hyp))
        tasks.append(("stream", i, n_hyp_shards, mix32(0xC08, ctx.seed, 0x57EA), ctx.tier, n_stream))
    try:
        _ensure_bad(rust)   # contents of the snapshot files the loaders must refuse: built once, inherited by the fork
    finally:
        rust.close()
        _remove_scratch_dir()
    reports = ctx.pmap(_shard, tasks)
    rep = ctx.merge_reports(reports)
    check_arch_table(rep)
    rep.rule = RULE
    rep.exhaustive = False  # the sweep family is complete (extra.sweep_complete) but histories are unbounded
    rep.extra["sweep_complete"] = True
    rep.extra["hypothesis_sequences"] = n_hyp_shards * n_hyp
    rep.extra["stream_sequences"] = n_hyp_shards * n_stream
    rep.extra["generation_sequences"] = n_gen_shards * n_gen
    rep.extra["deferred_sequences"] = n_gen_shards * n_def
    rep.extra["round4_sequences"] = n_gen_shards * n_r4
    rep.extra["round5_sequences"] = n_gen_shards * n_r5
    rep.extra["rejected_load_kinds"] = list(BAD_KINDS)
    rep.assumptions = [
        "pointer registers X, Y, U, S are 20 bits as the property statement says (the README table says 24)",
        "FC/FZ (and the C/Z flag API) are 1-bit registers: a written value is truncated to bit 0 (README: size 1)",
        "a fresh register file reads 0 everywhere (maintainers' test_registers)",
        "TEMP0..13 are not documented: their width (24 bits in both code tables) is an assumption -- a TEMP read "
        "equal to the written value truncated to some other width is not reported unless Python and Rust differ",
        "values are unsigned 32-bit integers (the statement's domain); negative Python ints are not generated",
        "Rust TEMPn are written/read through LlamaState even on the CoreRuntime facade, whose by-name API does "
        "not know TEMP names (it ignores such writes); that gap is not asserted on",
        "CoreRuntime::set_flag takes a u8: the harness passes value & 0xFF (bit 0 is all a 1-bit flag keeps)",
        "the contents of a snapshot (to_dict / collect_registers map / registers.bin bytes) are not asserted, "
        "only that applying it to a fresh register file reproduces every read; TEMPn travel beside the blob "
        "(metadata.temps) exactly as save_snapshot/load_snapshot carry them",
        "the file path ('rtf') is CoreRuntime::save_snapshot -> CoreRuntime::new().load_snapshot on the runtime "
        "facade and PCE500Emulator.save_snapshot -> PCE500Emulator().load_snapshot on the Python side (histories "
        "with an 'rtf' op run on the `Registers` of a PC-E500 machine, which reads 0 everywhere when new); the bare "
        "LlamaState has no file path and does the blob round trip there; only register reads are compared, not "
        "memory, counters or other snapshot contents (C16/C17)",
        "call_sub_level is not part of the statement and not compared",
        "names only the Rust register file accepts: the IMR mirror register (RegName::IMR) overlaps no statement "
        "register, so it must keep the last value written to it (truncated to some width 8..32) and must not "
        "change, or be changed by, any other name; it is a mirror of IMEM 0xFB and not part of a register "
        "snapshot, so in a fresh file a snapshot was applied to it may read 0 or the snapshotted file's value, and "
        "after an executed instruction anything until it is written again.  Out-of-range scratch names "
        "(Temp(14), Temp(15), Temp(255)) and an unknown operand name are only written: they must not change any "
        "other name; their own values are not asserted",
        "executed instructions are further writers of the register file, not something this property specifies: "
        "after an instruction the model takes over the values the register file reads (per implementation; Python "
        "and Rust TEMPn legitimately differ there: the Python lifter uses LLIL temporaries), except for NOP, which "
        "by definition writes nothing but PC -- every other readable value must survive it (PC and the IMR "
        "mirror are taken from the observation).  A failing instruction is not reported here (C04/C06)",
        "a deferred snapshot is compared with what the same register file read when the snapshot was taken; blob "
        "snapshots are serialised when taken (registers.bin bytes + TEMPs), as save_snapshot does",
        "histories that execute instructions never use the machine-level snapshot file path (their 'rtf' is 'rtb')",
        "rejected operations: a load_snapshot call that is OBSERVED to fail (exception / Err) must leave every "
        "readable register as it was -- the statement's 'a read returns the last value written' with no write in "
        "between; the 17 kinds of bad files are the reasons the two loaders reject by their own validation code and "
        "are derived from a valid snapshot saved by the same implementation; a load that is unexpectedly accepted is "
        "not a verdict (label rejected-load:ACCEPTED, the rest of that history is not judged for that register "
        "file); memory, counters and devices after a rejected load are not looked at (C16/C17); the bare Rust "
        "LlamaState and the bare Python Registers/CPU facade have no loader, the op is a no-op there",
        "by-name access with a name that is no register (13 upper-case non-names; Python raises, the Rust facade "
        "ignores it) must not change any register -- asserted whether or not the call raises",
        "observers of a live snapshot (diff, ==, to_dict, repr, registers.bin packer, CPUStepper.step / "
        "CPU.step_snapshot taking it as input) are read-only uses: what the snapshot restores into a brand-new "
        "Registers() (`apply_to`) / LlamaState (`apply_registers`) must be the same before and after; what the "
        "observers return (diff contents, step results) is not asserted; an observer that raises is not a verdict",
        "lifecycle: LlamaState::reset() returns the register file to the fresh state -- after it every name reads 0 "
        "and later writes behave as on LlamaState::new() (reset() is `regs.clear()` plus call-stack / power-state "
        "clearing; the statement's 'last value written' law continues from there on the same object).  Python has "
        "no in-place reset of `Registers`; its idiom is a new object, which is what the op does there.  "
        "CPU.power_on_reset / CoreRuntime::power_on_reset (documented to KEEP registers and flags) are not generated",
        "named forms of a snapshot: CPURegistersSnapshot's fields pc, ba, .., f and temps[n] / the keys PC, BA, .., "
        "F, TEMPn of the collect_registers map / the keys of to_dict() name the registers PC, BA, .., F, TEMPn; values "
        "of a built snapshot are generated inside each register's width (24 bits for TEMPn, both code tables); the "
        "dictionary form is compared with reads of the SAME register file at the same moment (absent TEMP = 0); "
        "call_sub_level and any other key are ignored",
        "Python == model and Rust == model imply Python == Rust; a separate differential verdict exists only "
        "for TEMP values",
    ]
    return rep


def replay(ctx: Ctx, case: Dict[str, Any]) -> List[Violation]:
    rep = Report()
    if case.get("table") == "arch":
        check_arch_table(rep)
        return rep.violations
    rsclient.build()
    ops = [list(o) for o in case["ops"]]
    try:
        res = rs_run([ops])[0]
        viols, _, _ = evaluate(ops, res)
    finally:
        _remove_scratch_dir()
    return viols


def _has_fp(ops: List[Op], key: str) -> Optional[Violation]:
    if not ops:
        return None
    try:
        viols, _, _ = evaluate(ops, rs_run([ops])[0])
    except Exception:
        return None
    for v in viols:
        if v.key() == key:
            return v
    return None


def shrink(ctx: Ctx, v: Violation) -> Violation:
    try:
        return _shrink(ctx, v)
    finally:
        _remove_scratch_dir()


def _shrink(ctx: Ctx, v: Violation) -> Violation:
    """Greedy op deletion, then value simplification, keeping the same fingerprint."""
    import time

    if not isinstance(v.case, dict) or "ops" not in v.case:
        return v
    key = v.key()
    t_end = time.time() + 20  # budget only bounds the search effort; it never affects a verdict
    ops = [list(o) for o in v.case["ops"]]
    best = v
    changed = True
    while changed and time.time() < t_end:
        changed = False
        size = max(1, len(ops) // 2)
        while size >= 1 and time.time() < t_end:
            i = 0
            while i < len(ops) and time.time() < t_end:
                cand = ops[:i] + ops[i + size:]
                w = _has_fp(cand, key)
                if w is not None:
                    ops, best, changed = cand, w, True
                else:
                    i += size
            size //= 2
    for i, op in enumerate(ops):
        if op[0] in ("set", "setflag") and time.time() < t_end:
            for simple in (0, 1, 0xFF, 0x100, 0xFFFF, 0x10000, op[2] & 0xFFFFFF, op[2] & 0xFFFF, op[2] & 0xFF):
                if simple < op[2]:
                    cand = [list(o) for o in ops]
                    cand[i][2] = simple
                    w = _has_fp(cand, key)
                    if w is not None:
                        ops, best = cand, w
                        break
    return best
