"""C08 -- register aliasing, widths and flag packing hold after any sequence of writes.

Generated domain: histories (finite sequences) of by-name register/flag writes of arbitrary 32-bit values,
interleaved with reads and snapshot/apply round trips:

  * a Hypothesis list-of-ops strategy (<= 50 ops; boundary-biased values; optional dense read-back), and
  * a deterministic sweep: every ordered pair of writes (18 write targets incl. the C/Z flag API and two TEMPs)
    x boundary values x start states (fresh / two complementary fill patterns), each followed by a full
    read-back and a snapshot round trip; plus single-bit value probes for every register.

Every history runs on three register files -- the Python `Registers` (`py`), the Rust `LlamaState` (`rs`)
and the Rust by-name facade `CoreRuntime::set_reg/get_reg/set_flag/get_flag` (`rs-runtime`) -- and on the
reference model `c08_model.Model` (written from the statement + README register table).

Oracle: every read == model (hence Python == Rust); a snapshot round trip (Python
`CPURegistersSnapshot.from_registers -> apply_to(fresh)` optionally through the pce500 `registers.bin`
packer; Rust `collect_registers [-> pack_registers -> unpack_registers] -> apply_registers(fresh)`)
reproduces every value the same register file returned just before it.

Snapshot *generations*: the op "rtf" takes the snapshot through the real file path --
`CoreRuntime::save_snapshot(path)` -> `CoreRuntime::new().load_snapshot(path)` on the runtime facade and
`PCE500Emulator.save_snapshot(path)` -> `PCE500Emulator().load_snapshot(path)` on the Python side -- and the
freshly loaded runtime/machine *replaces* the current one, so that later writes and snapshots in the same
history are made by a register file that was itself restored from a snapshot (where state cached at load
time -- e.g. `CoreRuntime.metadata` -- can shadow the live registers).  Same oracle: the values read just
before the snapshot must be read back from the fresh register file.
"""

from __future__ import annotations

import os
from typing import Any, Dict, Iterator, List, Optional, Sequence, Tuple

from ..core import ROOT, Ctx, HarnessError, Report, Violation, jhash, mix32
from .. import rsclient
from ..gen_state import Stream
from ..c08_model import (CORE_NAMES, FLAG_NAME, GROUP, INDEX, MEMBERS, NAMES, TEMP_NAMES, WIDTH, Model, mask)

PROPERTY = "C08"
RULE = ("histories of by-name writes (A,B,BA,IL,IH,I,X,Y,U,S,PC,F,FC,FZ,TEMP0..13 and the C/Z flag API) of 32-bit "
        "values (boundary set + random), interleaved with reads and snapshot round trips, each executed on the "
        "Python Registers, the Rust LlamaState and the Rust CoreRuntime by-name facade, every read compared "
        "with the reference model. Snapshot ops: direct, registers.bin blob, and the snapshot *file* path "
        "(CoreRuntime::save_snapshot/load_snapshot, PCE500Emulator.save_snapshot/load_snapshot) whose freshly "
        "loaded runtime replaces the current one, giving chains of snapshot generations. "
        "Sources: Hypothesis lists (<= 50 ops), seeded pseudo-random histories (<= 50 "
        "ops, half of them focused on one overlap group), seeded generation chains (2..5 snapshots with writes "
        "between them), a deterministic sweep of all ordered write pairs x "
        "boundary values x start states (+ single-bit value probes) and a deterministic sweep of two-generation "
        "chains (every name changed between the generations x snapshot-path pairs x start states). Non-trivial = the history writes a sub-register after "
        "a full-register write of the same register (or vice versa), or interleaves F/FC/FZ(/flag API) writes, "
        "and reads that register afterwards; distinct = hash of the op list.")

Op = List[Any]

BOUNDARY = [0, 1, 2, 3, 0x7F, 0x80, 0xFE, 0xFF, 0x100, 0x1FF, 0xFF00, 0xFFFF, 0x10000, 0x1FFFF, 0xFFFFF, 0x100000,
            0x1FFFFF, 0xFFFFFF, 0x1000000, 0x7FFFFFFF, 0x80000000, 0xFFFFFFFF, 0xA5A5A5A5, 0x5A5A5A5A, 0x12345678]

IMPLS = ("py", "rs", "rs-runtime")
_RS_KEY = {"rs": "st", "rs-runtime": "rt"}


# --------------------------------------------------------------------------------------------------------
# Python side
# --------------------------------------------------------------------------------------------------------

_PY: Dict[str, Any] = {}


def _py_api() -> Dict[str, Any]:
    if not _PY:
        from binja_test_mocks import binja_api  # noqa: F401  (installs the Binary Ninja mock)
        from sc62015.pysc62015.emulator import RegisterName, Registers
        from sc62015.pysc62015.stepper import CPURegistersSnapshot

        _PY.update(RegisterName=RegisterName, Registers=Registers, Snapshot=CPURegistersSnapshot,
                   enum=[RegisterName[n] for n in NAMES])
        try:
            from pce500.emulator import _pack_register_bytes, _unpack_register_bytes

            _PY.update(pack=_pack_register_bytes, unpack=_unpack_register_bytes)
        except Exception:  # the pce500 packer is a bonus path, not part of the anchors
            _PY.update(pack=None, unpack=None)
        try:
            from pce500.emulator import PCE500Emulator

            _PY.update(Emulator=PCE500Emulator)
        except Exception:  # same: the machine-level snapshot file path is a bonus path
            _PY.update(Emulator=None)
    return _PY


# ---- scratch files for the snapshot *file* path ("rtf") -------------------------------------------------

def _scratch_dir() -> str:
    d = os.path.join(ROOT, "scratch", f"c08-{os.getpid()}")
    os.makedirs(d, exist_ok=True)
    return d


def _remove_scratch_dir() -> None:
    d = os.path.join(ROOT, "scratch", f"c08-{os.getpid()}")
    try:
        if os.path.isdir(d):
            for f in os.listdir(d):
                if f.startswith("c08-") and f.endswith(".pcsnap"):
                    os.remove(os.path.join(d, f))
            os.rmdir(d)
    except OSError:
        pass


def _uses_file(ops: Sequence[Op]) -> bool:
    return any(op[0] == "rtf" for op in ops)


def _py_machine(api: Dict[str, Any]) -> Any:
    """A fresh PC-E500 machine; its `cpu.regs` is a plain `Registers` (python backend)."""
    return api["Emulator"](trace_enabled=False, perfetto_trace=False, save_lcd_on_exit=False)


def _py_read_all(regs: Any, api: Dict[str, Any]) -> List[int]:
    return [regs.get(r) for r in api["enum"]]


def _py_file_roundtrip(emu: Any, api: Dict[str, Any]) -> Any:
    """PCE500Emulator.save_snapshot(path) -> a brand-new machine's load_snapshot(path); returns that machine."""
    path = os.path.join(_scratch_dir(), "c08-py.pcsnap")
    try:
        emu.save_snapshot(path)
        fresh = _py_machine(api)
        fresh.load_snapshot(path)
    finally:
        try:
            os.remove(path)
        except OSError:
            pass
    return fresh


def _py_roundtrip(regs: Any, api: Dict[str, Any], blob: bool, fresh: Any = None) -> Tuple[Any, str]:
    Snapshot = api["Snapshot"]
    snap = Snapshot.from_registers(regs)
    n = ""
    if blob and api["pack"] is not None:
        # exactly what PCE500Emulator.save_snapshot/load_snapshot do with registers.bin + metadata
        payload = api["pack"](snap)
        n = bytes(payload).hex()
        vals = api["unpack"](payload)
        snap = Snapshot(pc=vals["pc"], ba=vals["ba"], i=vals["i"], x=vals["x"], y=vals["y"], u=vals["u"],
                        s=vals["s"], f=vals["f"], temps={int(k): int(v) for k, v in snap.temps.items()},
                        call_sub_level=int(snap.call_sub_level))
    if fresh is None:
        fresh = api["Registers"]()
    snap.apply_to(fresh)
    return fresh, n


def py_run(ops: Sequence[Op]) -> List[Any]:
    """Observations aligned with ops; an exception ends the list with {"error": ...}."""
    api = _py_api()
    # Histories with a file round trip run on the register file of a PC-E500 machine (still a plain `Registers`,
    # the one `save_snapshot/load_snapshot` capture/restore); every "fresh register file" of such a history is
    # the register file of a brand-new machine.
    emu = _py_machine(api) if _uses_file(ops) and api.get("Emulator") is not None else None
    if emu is not None and (type(emu.cpu.regs) is not api["Registers"] or any(_py_read_all(emu.cpu.regs, api))):
        emu = None  # not a fresh plain register file (e.g. a reset vector in PC): keep to the documented `Registers()`
    regs = emu.cpu.regs if emu is not None else api["Registers"]()
    out: List[Any] = []
    for op in ops:
        verb = op[0]
        try:
            if verb == "set":
                regs.set_by_name(op[1], int(op[2]))
                out.append(None)
            elif verb == "setflag":
                regs.set_flag(op[1], int(op[2]))
                out.append(None)
            elif verb == "get":
                out.append(int(regs.get_by_name(op[1])))
            elif verb == "getflag":
                out.append(int(regs.get_flag(op[1])))
            elif verb == "all":
                out.append(_py_read_all(regs, api))
            elif verb in ("rt", "rtb") or (verb == "rtf" and emu is None):
                before = _py_read_all(regs, api)
                if emu is not None:
                    emu = _py_machine(api)
                    regs, n = _py_roundtrip(regs, api, verb == "rtb", emu.cpu.regs)
                else:
                    regs, n = _py_roundtrip(regs, api, verb != "rt")
                out.append({"before": before, "after": _py_read_all(regs, api), "blob": n if verb != "rtf" else ""})
            elif verb == "rtf":
                before = _py_read_all(regs, api)
                emu = _py_file_roundtrip(emu, api)
                regs = emu.cpu.regs
                out.append({"before": before, "after": _py_read_all(regs, api), "blob": ""})
            elif verb == "collect":
                out.append(dict(api["Snapshot"].from_registers(regs).to_dict()))
            else:
                raise HarnessError(f"unknown op {op}")
        except HarnessError:
            raise
        except Exception as exc:  # a register access that raises is an observation, not a harness crash
            out.append({"error": f"{type(exc).__name__}", "message": str(exc)[:200]})
            break
    return out


# --------------------------------------------------------------------------------------------------------
# Rust side
# --------------------------------------------------------------------------------------------------------

def rs_run(seqs: Sequence[Sequence[Op]]) -> List[Dict[str, Any]]:
    """One result per sequence: {"obs": [...]} | {"error": str} | {"panic": str}."""
    req: Dict[str, Any] = {"cmd": "c08.run", "seqs": [list(s) for s in seqs]}
    if any(_uses_file(s) for s in seqs):
        req["dir"] = _scratch_dir()
    try:
        resp = rsclient.shared().call(req)
    except HarnessError:
        # the harness process died (seen once on a heavily loaded machine); every history starts from a fresh
        # register file, so one retry on a new process is safe.  A second failure is a harness error (exit 2).
        resp = rsclient.shared().call(req)
    if resp.get("ok"):
        return resp["results"]
    if "panic" in resp:
        if len(seqs) == 1:
            return [{"panic": str(resp["panic"])[:200]}]
        out: List[Dict[str, Any]] = []
        for s in seqs:  # isolate the panicking history
            out += rs_run([s])
        return out
    raise HarnessError(f"c08.run failed: {resp}")


def _rs_obs(obs: List[Any], key: str) -> List[Any]:
    """Project the Rust observation list onto one register file ('st' or 'rt') in py_run's shape."""
    idx = 0 if key == "st" else 1
    out: List[Any] = []
    for o in obs:
        if o is None:
            out.append(None)
        elif isinstance(o, list):
            out.append(o[idx])
        elif "before" in o:
            out.append({"before": o["before"][key], "after": o["after"][key], "blob": o.get("blob", "")})
        else:
            out.append(o[key])
    return out


# --------------------------------------------------------------------------------------------------------
# Model walk and verdicts
# --------------------------------------------------------------------------------------------------------

def _fp_name(name: str) -> str:
    return "TEMP" if name.startswith("TEMP") else name


class Expect:
    """What the model says a read of `name` returns, plus the context used to classify a mismatch."""

    __slots__ = ("name", "value", "writer", "prev", "raw")

    def __init__(self, name: str, value: int, writer: str, prev: int, raw: Optional[int]) -> None:
        self.name, self.value, self.writer, self.prev, self.raw = name, value, writer, prev, raw


def walk_model(ops: Sequence[Op], detailed: bool = True) -> Tuple[List[Any], List[str], bool]:
    """Expected observations per op (None for non-reads), class labels, non-trivial flag.

    detailed=False yields plain expected values (fast path); detailed=True yields Expect objects carrying the
    context needed to classify a mismatch.  Both come from the same Model walk."""
    m = Model()
    writer: Dict[str, str] = {g: "nothing (fresh)" for g in MEMBERS}
    prev: Dict[str, List[int]] = {g: m.read_all() for g in MEMBERS}
    last_kind: Dict[str, Tuple[str, str]] = {}  # group -> (kind, name) of the last write
    pending_nt: Dict[str, str] = {}             # group -> nt label waiting for a read of that group
    labels: List[str] = []
    nt = False
    snaps = 0                        # snapshot generations so far
    since: Optional[str] = None      # what was written since the last snapshot op (None / "core" / "TEMP")

    def exp_of(name: str) -> Any:
        if not detailed:
            return m.get(name)
        g = GROUP[name]
        return Expect(name, m.get(name), writer[g], prev[g][INDEX[name]], m.temp_raw.get(name))

    def note_read(names: Sequence[str]) -> None:
        nonlocal nt
        for n in names:
            lb = pending_nt.pop(GROUP[n], None)
            if lb:
                nt = True
                labels.append(lb)

    out: List[Any] = []
    for op in ops:
        verb = op[0]
        if verb in ("set", "setflag"):
            name = op[1] if verb == "set" else FLAG_NAME[op[1]]
            g = GROUP[name]
            prev[g] = m.read_all()
            writer[g] = f"{verb} {op[1]}"
            m.set(name, int(op[2]))
            kind = "full" if name == g else "sub"
            if g in ("BA", "I", "F") and g in last_kind:
                k0, n0 = last_kind[g]
                if k0 != kind:
                    pending_nt[g] = f"nt:{g}:{kind}-after-{k0}"
                elif g == "F" and (n0 != name or verb == "setflag"):
                    pending_nt.setdefault(g, "nt:F:flag-interleave")
            last_kind[g] = (kind, name)
            labels.append("write:" + ("TEMP" if name.startswith("TEMP") else verb + ":" + op[1]))
            v = int(op[2])
            labels.append("value:" + ("fits" if v == (v & mask(name)) else "truncated"))
            if snaps:
                since = "TEMP" if name.startswith("TEMP") or since == "TEMP" else "core"
            out.append(None)
        elif verb == "get":
            note_read([op[1]])
            out.append(exp_of(op[1]))
        elif verb == "getflag":
            note_read([FLAG_NAME[op[1]]])
            out.append(exp_of(FLAG_NAME[op[1]]))
        elif verb in ("all", "rt", "rtb", "rtf"):
            note_read(NAMES)
            out.append([exp_of(n) for n in NAMES] if detailed else m.read_all())
            if verb != "all":
                labels.append("roundtrip:" + verb)
                if snaps and since:
                    # a register file that was itself restored from a snapshot, then written, is snapshotted
                    labels.append(f"chain:{verb}-of-restored-file:{since}-changed")
                snaps += 1
                since = None
                labels.append("generations:%s" % (snaps if snaps < 4 else "4+"))
        elif verb == "collect":
            out.append(("collect", m.read_all()))
        else:
            raise HarnessError(f"unknown op {op}")
    return out, labels, nt


def _fast_ok(ops: Sequence[Op], exp: List[Any], py: List[Any], rs: Any) -> bool:
    """True iff every observation of all three register files equals the model (the common case)."""
    if not isinstance(rs, list) or len(py) != len(ops) or len(rs) != len(ops):
        return False
    try:
        for op, e, p, r in zip(ops, exp, py, rs):
            verb = op[0]
            if verb in ("get", "getflag"):
                if p != e or r != [e, e]:
                    return False
            elif verb == "all":
                if p != e or r["st"] != e or r["rt"] != e:
                    return False
            elif verb in ("rt", "rtb", "rtf"):
                if p["before"] != e or p["after"] != e:
                    return False
                if r["before"]["st"] != e or r["after"]["st"] != e or r["before"]["rt"] != e or r["after"]["rt"] != e:
                    return False
    except (KeyError, TypeError, IndexError):
        return False
    return True


def _classify(e: Expect, got: int) -> str:
    if got != e.value and (got & mask(e.name)) == e.value:
        return "extra high bits (not truncated to %d bits)" % WIDTH[e.name]
    if got == e.prev:
        return "stale (write not reflected)"
    return "wrong value"


def _temp_width_explains(e: Expect, got: int) -> bool:
    """TEMP width is an assumption: accept any 'written value truncated to w bits' (8 <= w <= 32)."""
    if e.raw is None:
        return False
    return any(got == (e.raw & ((1 << w) - 1)) for w in range(8, 33))


def _check_read(impl: str, e: Expect, got: Any, case: Dict[str, Any], i: int, op: Op,
                notes: List[str]) -> Optional[Violation]:
    if not isinstance(got, int) or isinstance(got, bool):
        return Violation("model", f"{impl} read {_fp_name(e.name)}", "non-integer read", case,
                         f"op#{i} {op}: read {e.name} returned {got!r}")
    if got == e.value:
        return None
    if e.name.startswith("TEMP") and _temp_width_explains(e, got):
        notes.append("temp-width-differs-from-assumed-24")
        return None
    return Violation("model", f"{impl} read {_fp_name(e.name)}", f"after {_fp_writer(e.writer)}: {_classify(e, got)}",
                     case, f"op#{i} {op}: {impl} read {e.name}: expected {e.value:#x} got {got:#x} "
                           f"(last write to its group: {e.writer}; value before that write {e.prev:#x})")


def _fp_writer(w: str) -> str:
    parts = w.split(" ")
    if len(parts) == 2 and parts[1].startswith("TEMP"):
        return parts[0] + " TEMP"
    return w


def check_impl(impl: str, ops: Sequence[Op], exp: List[Any], obs: List[Any], case: Dict[str, Any],
               notes: List[str]) -> List[Violation]:
    """Compare one register file's observations with the model; stop at the first failing op."""
    out: List[Violation] = []
    for i, op in enumerate(ops):
        if i >= len(obs):
            break
        o, e = obs[i], exp[i]
        verb = op[0]
        if isinstance(o, dict) and "error" in o and "before" not in o and verb != "collect":
            out.append(Violation("exception", f"{impl} {verb}", f"raises {o['error']}", case,
                                 f"op#{i} {op}: {o}"))
            return out
        if verb in ("get", "getflag"):
            v = _check_read(impl, e, o, case, i, op, notes)
            if v:
                out.append(v)
        elif verb == "all":
            for ee, got in zip(e, o):
                v = _check_read(impl, ee, got, case, i, op, notes)
                if v:
                    out.append(v)
        elif verb in ("rt", "rtb", "rtf"):
            for ee, got in zip(e, o["before"]):
                v = _check_read(impl, ee, got, case, i, op, notes)
                if v:
                    out.append(v)
            if not out:
                bad = {n: (b, a) for n, b, a in zip(NAMES, o["before"], o["after"]) if a != b}
                kind = "direct" if verb == "rt" else "blob" if verb == "rtb" else _file_kind(impl)
                for g, members in MEMBERS.items():
                    mb = [n for n in members if n in bad]
                    # one verdict per backing store; aliases only when the full register itself came back right
                    for n in ([g] if g in mb else mb):
                        b, a = bad[n]
                        out.append(Violation("roundtrip", f"{impl} {kind} snapshot: {_fp_name(n)}",
                                             "value not reproduced", case,
                                             f"op#{i} {op}: {impl} {n} read {b:#x} before the snapshot round trip "
                                             f"and {a:#x} after applying it to a fresh register file"))
        if out:
            return out
    return out


def _file_kind(impl: str) -> str:
    """What an "rtf" op exercises on each register file (fingerprint component)."""
    if impl == "rs-runtime":
        return "file"          # CoreRuntime::save_snapshot -> CoreRuntime::new().load_snapshot
    if impl == "py" and _py_api().get("Emulator") is not None:
        return "file"          # PCE500Emulator.save_snapshot -> PCE500Emulator().load_snapshot
    return "blob"              # bare LlamaState: no file path of its own, same as "rtb"


def check_temp_diff(ops: Sequence[Op], all_obs: Dict[str, List[Any]], case: Dict[str, Any]) -> List[Violation]:
    """TEMP values are modelled only up to width, so Python<->Rust agreement is asserted separately."""
    def temp_reads(o: Any, op: Op) -> Optional[List[Tuple[str, Any]]]:
        verb = op[0]
        if verb == "get" and op[1].startswith("TEMP"):
            return [(op[1], o)]
        if verb == "all" and isinstance(o, list):
            return [(n, o[INDEX[n]]) for n in TEMP_NAMES]
        if verb in ("rt", "rtb", "rtf") and isinstance(o, dict) and "after" in o:
            return [(n, o["after"][INDEX[n]]) for n in TEMP_NAMES]
        return None

    n_ops = min(len(all_obs[k]) for k in all_obs)
    for i in range(n_ops):
        reads = {k: temp_reads(all_obs[k][i], ops[i]) for k in all_obs}
        if any(r is None for r in reads.values()):
            continue
        base = reads["py"]
        for k in ("rs", "rs-runtime"):
            for (n, a), (_, b) in zip(base, reads[k]):  # type: ignore[arg-type]
                if a != b:
                    return [Violation("diff", f"py vs {k} read TEMP", "values differ", case,
                                      f"op#{i} {ops[i]}: {n} py={a:#x} {k}={b:#x}")]
    return []


def _to_dict_labels(ops: Sequence[Op], exp: List[Any], py: List[Any]) -> List[str]:
    """Informational only: does the snapshot's dictionary form show the values the reads return?"""
    out: List[str] = []
    for i, op in enumerate(ops):
        if op[0] == "collect" and i < len(py) and isinstance(py[i], dict) and "error" not in py[i]:
            vals = exp[i][1]
            same = all(py[i].get(k.lower()) == vals[INDEX[k]] for k in ("PC", "BA", "I", "X", "Y", "U", "S", "F"))
            out.append("py-to_dict:" + ("matches-reads" if same else "differs-from-reads"))
    return out


def _blob_labels(ops: Sequence[Op], py: List[Any], rs: Any) -> List[str]:
    """Informational only (C16/C17 own the snapshot file format): do both packers emit the same bytes?"""
    out: List[str] = []
    if not isinstance(rs, list):
        return out
    for op, p, r in zip(ops, py, rs):
        if op[0] == "rtb" and isinstance(p, dict) and isinstance(r, dict) and p.get("blob") and r.get("blob"):
            out.append("registers.bin:" + ("py==rs" if p["blob"] == r["blob"] else "py!=rs"))
    return out


def evaluate(ops: Sequence[Op], rs_res: Dict[str, Any]) -> Tuple[List[Violation], List[str], bool]:
    plain, labels, nt = walk_model(ops, detailed=False)
    py_obs = py_run(ops)
    labels += _to_dict_labels(ops, plain, py_obs)
    labels += _blob_labels(ops, py_obs, rs_res.get("obs"))
    if _fast_ok(ops, plain, py_obs, rs_res.get("obs")):
        return [], labels, nt
    # slow path: same model walk, with the context needed to describe the mismatch
    case = {"ops": [list(o) for o in ops]}
    exp, _, _ = walk_model(ops, detailed=True)
    notes: List[str] = []
    viols: List[Violation] = []
    all_obs: Dict[str, List[Any]] = {"py": py_obs}
    if "obs" in rs_res:
        for impl in ("rs", "rs-runtime"):
            all_obs[impl] = _rs_obs(rs_res["obs"], _RS_KEY[impl])
    elif "panic" in rs_res:
        viols.append(Violation("exception", "rs sequence", "rust panic", case, f"panic: {rs_res['panic']}"))
    else:
        viols.append(Violation("exception", "rs sequence", "rust error: " + str(rs_res.get("error", "?")).split(":")[0],
                               case, f"error: {rs_res.get('error')}"))
    per: Dict[str, List[Violation]] = {}
    for impl, obs in all_obs.items():
        per[impl] = check_impl(impl, ops, exp, obs, case, notes)
    # the runtime facade shares LlamaState with `rs`: report it only where it adds something
    if "rs" in per and "rs-runtime" in per:
        seen = {(v.subcheck, v.where.replace("rs ", "", 1), v.symptom) for v in per["rs"]}
        per["rs-runtime"] = [v for v in per["rs-runtime"]
                             if (v.subcheck, v.where.replace("rs-runtime ", "", 1), v.symptom) not in seen]
    for impl in all_obs:
        viols += per[impl]
    if len(all_obs) == 3 and not viols:
        viols += check_temp_diff(ops, all_obs, case)
    labels += sorted(set(notes))
    uniq: Dict[str, Violation] = {}
    for v in viols:  # one verdict per fingerprint and history (TEMP0..13 share the bucket "TEMP")
        uniq.setdefault(v.key(), v)
    return list(uniq.values()), labels, nt


# --------------------------------------------------------------------------------------------------------
# Static table check (sc62015/arch.py register table)
# --------------------------------------------------------------------------------------------------------

def check_arch_table(rep: Report) -> None:
    from binja_test_mocks import binja_api  # noqa: F401
    from sc62015.arch import SC62015

    case = {"table": "arch"}
    regs = SC62015.regs
    want = {"A": ("BA", 1, 0), "B": ("BA", 1, 1), "IL": ("I", 1, 0), "IH": ("I", 1, 1), "BA": ("BA", 2, 0),
            "I": ("I", 2, 0)}
    for n, (full, size, off) in want.items():
        r = regs.get(n)
        got = None if r is None else (r.name, r.size, r.offset or 0)
        if got != (full, size, off):
            rep.violate(Violation("table", f"arch.regs[{n}]", "sub-register layout differs from B:A / IH:IL", case,
                                  f"arch.regs[{n}] = {got}, expected (full, size, offset) = {(full, size, off)}"))
    for n in ("X", "Y", "U", "S", "PC"):
        r = regs.get(n)
        if r is None or r.name != n or r.size * 8 < 20 or (r.offset or 0) != 0:
            rep.violate(Violation("table", f"arch.regs[{n}]", "cannot hold a 20-bit value", case,
                                  f"arch.regs[{n}] = {None if r is None else (r.name, r.size, r.offset)}"))
    rep.case(None, ["table:arch"], None)


# --------------------------------------------------------------------------------------------------------
# Generators
# --------------------------------------------------------------------------------------------------------

def _prefill(variant: int) -> List[Op]:
    if variant == 0:
        return []
    base = {"BA": 0xC3A5, "I": 0x965A, "X": 0xA1B2C, "Y": 0x5D4E3, "U": 0x7F6E5, "S": 0x81927, "PC": 0x3C4B5,
            "F": 0xA6}
    ops: List[Op] = []
    for n, v in base.items():
        if variant == 2:
            v ^= mask(n)
        ops.append(["set", n, v])
    for i, t in enumerate(TEMP_NAMES):
        v = (0x100001 * (i + 1)) & 0xFFFFFF
        if variant == 2:
            v ^= 0xFFFFFF
        ops.append(["set", t, v])
    return ops


SWEEP_TARGETS: Tuple[str, ...] = CORE_NAMES + ("flag:C", "flag:Z", "TEMP0", "TEMP13")
SWEEP_VALUES_QUICK = [0, 1, 2, 0x100, 0xFFFFFFFF, 0xA5A5A5A5]
SWEEP_VALUES_THOROUGH = [0, 1, 2, 0xFF, 0x100, 0xFFFF, 0x10000, 0xFFFFF, 0x100000, 0xFFFFFF, 0xFFFFFFFF,
                         0xA5A5A5A5, 0x5A5A5A5A]


def _write_op(target: str, v: int) -> Op:
    if target.startswith("flag:"):
        return ["setflag", target[5:], v]
    return ["set", target, v]


def sweep_cases(tier: str) -> Iterator[Tuple[str, List[Op]]]:
    """Finite, fully enumerated family (family label, ops)."""
    vals = SWEEP_VALUES_QUICK if tier == "quick" else SWEEP_VALUES_THOROUGH
    variants = (0, 1) if tier == "quick" else (0, 1, 2)
    k = 0
    for variant in variants:
        pre = _prefill(variant)
        for t1 in SWEEP_TARGETS:
            for v1 in vals:
                for t2 in SWEEP_TARGETS:
                    for v2 in vals:
                        k += 1
                        yield "sweep:pairs", pre + [_write_op(t1, v1), ["all"], _write_op(t2, v2), ["all"],
                                                    ["rt" if k % 2 else "rtb"], ["all"]]
    # single-bit probes: every register x every bit of the written value, from every start state
    for variant in variants:
        pre = _prefill(variant)
        for t in CORE_NAMES + ("flag:C", "flag:Z") + TEMP_NAMES:
            for bit in range(32):
                for v in ((1 << bit), 0xFFFFFFFF ^ (1 << bit)):
                    yield "sweep:bits", pre + [_write_op(t, v), ["all"], ["rtb" if bit % 2 else "rt"], ["all"]]


GEN_KIND_PAIRS = (("rtf", "rtf"), ("rt", "rtf"), ("rtf", "rt"), ("rtb", "rtf"), ("rtf", "rtb"))
GEN_VALUE_PAIRS = ((0xA5A5A5A5, 0x5A5A5A5A), (1, 0))


def sweep_generation_cases(tier: str) -> Iterator[Tuple[str, List[Op]]]:
    """Snapshot *generations* (complete enumeration): a register file restored from a snapshot is written to and
    snapshotted again.  Every name (all 28 + the flag API) is the register changed between the two generations;
    every pair of snapshot paths that involves the file path; every start state."""
    variants = (0, 1) if tier == "quick" else (0, 1, 2)
    for variant in variants:
        pre = _prefill(variant)
        for t in CORE_NAMES + ("flag:C", "flag:Z") + TEMP_NAMES:
            for k1, k2 in GEN_KIND_PAIRS:
                for v1, v2 in GEN_VALUE_PAIRS:
                    yield "sweep:generations", pre + [_write_op(t, v1), ["all"], [k1], ["all"], _write_op(t, v2),
                                                      ["all"], [k2], ["all"]]


def generation_sequences(seed: int, shard: int, n: int) -> List[List[Op]]:
    """Seeded chains of 2..5 snapshot generations: each generation writes 1..4 registers (half of the writes go
    to TEMPs, which travel outside registers.bin), reads everything back, and is snapshotted -- mostly through
    the file path -- into a fresh register file that becomes the next generation."""
    out: List[List[Op]] = []
    for j in range(n):
        st = Stream(seed, 0xC08, 0x6E6, shard, j)
        ops: List[Op] = list(_prefill(st.below(3))) if st.chance(1, 3) else []
        for _ in range(2 + st.below(4)):
            for _ in range(1 + st.below(4)):
                k = st.below(4)
                v = st.choice(BOUNDARY) if k < 2 else st.u32() if k == 2 else st.u32() & 0xFFFF
                r = st.below(10)
                if r < 5:
                    ops.append(["set", st.choice(TEMP_NAMES), v])
                elif r < 9:
                    ops.append(["set", st.choice(CORE_NAMES), v])
                else:
                    ops.append(["setflag", st.choice(("C", "Z")), v])
            if st.chance(1, 2):
                ops.append(["all"])
            r = st.below(10)
            ops.append(["rtf"] if r < 6 else ["rt"] if r < 8 else ["rtb"])
            ops.append(["all"])
        out.append(ops)
    return out


def _hyp_sequences(seed: int, n: int, min_ops: int = 1) -> List[List[Op]]:
    import hypothesis
    from hypothesis import HealthCheck, given, settings, strategies as st

    name = st.one_of(st.sampled_from(CORE_NAMES), st.sampled_from(CORE_NAMES), st.sampled_from(CORE_NAMES),
                     st.sampled_from(TEMP_NAMES))
    value = st.one_of(st.sampled_from(BOUNDARY), st.integers(0, 0xFFFFFFFF), st.integers(0, 0xFFFF))
    flag = st.sampled_from(["C", "Z"])
    write = st.one_of(st.tuples(st.just("set"), name, value), st.tuples(st.just("set"), name, value),
                      st.tuples(st.just("set"), name, value), st.tuples(st.just("setflag"), flag, value))
    # snapshot ops: the file path costs ~20 ms per op on the Python side, so it gets 1/5 of the snapshot ops
    snap = st.sampled_from([("rt",), ("rt",), ("rtb",), ("rtb",), ("rtf",)])
    other = st.one_of(st.tuples(st.just("get"), name), st.tuples(st.just("getflag"), flag), st.just(("all",)),
                      snap, snap, st.just(("collect",)))
    op = st.one_of(write, write, other)
    seqs: List[List[Op]] = []

    @hypothesis.seed(seed)
    @settings(max_examples=n, deadline=None, database=None, report_multiple_bugs=False,
              suppress_health_check=list(HealthCheck), phases=[hypothesis.Phase.generate])
    @given(st.lists(op, min_size=min_ops, max_size=50), st.booleans())
    def collect(ops: List[Tuple[Any, ...]], dense: bool) -> None:
        out: List[Op] = []
        for o in ops:
            out.append(list(o))
            if dense and o[0] in ("set", "setflag"):
                out.append(["all"])
        out.append(["all"])
        seqs.append(out)

    collect()
    return seqs


def stream_sequences(seed: int, shard: int, n: int) -> List[List[Op]]:
    """Cheap deterministic pseudo-random histories (gen_state.Stream): volume next to Hypothesis' variety.
    Half of them concentrate their writes on one overlap group (BA / I / F) to force alias interleavings."""
    out: List[List[Op]] = []
    focus_groups = ("BA", "I", "F")
    for j in range(n):
        st = Stream(seed, 0xC08, shard, j)
        length = 3 + st.below(48)
        focus = MEMBERS[st.choice(focus_groups)] if st.chance(1, 2) else None
        dense = st.chance(1, 2)

        def name() -> str:
            if focus is not None and st.chance(7, 10):
                return st.choice(focus)
            if st.chance(1, 5):
                return st.choice(TEMP_NAMES)
            return st.choice(CORE_NAMES)

        def value() -> int:
            k = st.below(4)
            if k < 2:
                return st.choice(BOUNDARY)
            return st.u32() if k == 2 else st.u32() & 0xFFFF

        ops: List[Op] = []
        for _ in range(length):
            r = st.below(100)
            if r < 58:
                ops.append(["set", name(), value()])
            elif r < 68:
                fl = st.choice(("C", "Z"))
                if focus is not None and "F" not in focus and st.chance(1, 2):
                    ops.append(["set", name(), value()])
                else:
                    ops.append(["setflag", fl, value()])
            elif r < 80:
                ops.append(["get", name()])
            elif r < 84:
                ops.append(["getflag", st.choice(("C", "Z"))])
            elif r < 91:
                ops.append(["all"])
            elif r < 94:
                ops.append(["rt"])
            elif r < 97:
                ops.append(["rtb"])
            elif r < 98:
                ops.append(["rtf"])
            else:
                ops.append(["collect"])
            if dense and ops[-1][0] in ("set", "setflag"):
                ops.append(["all"])
        ops.append(["all"])
        out.append(ops)
    return out


# --------------------------------------------------------------------------------------------------------
# Shards
# --------------------------------------------------------------------------------------------------------

BATCH = 200


def eval_batch(items: List[Tuple[str, List[Op]]], rep: Report) -> None:
    for i in range(0, len(items), BATCH):
        chunk = items[i:i + BATCH]
        results = rs_run([ops for _, ops in chunk])
        if len(results) != len(chunk):
            raise HarnessError("c08.run returned a different number of results")
        for (family, ops), res in zip(chunk, results):
            viols, labels, nt = evaluate(ops, res)
            for v in viols:
                rep.violate(v)
            sample = None
            if rep.evaluations % 1009 == 5:
                sample = {"family": family, "ops": ops if len(ops) <= 24 else ops[:24] + [["..."]],
                          "n_ops": len(ops), "violations": len(viols)}
            lab = sorted(set(labels)) + [family, "len:%s" % ("1-8" if len(ops) <= 8 else "9-24" if len(ops) <= 24 else "25+")]
            if nt:
                lab.append("nontrivial-in:" + family)
            rep.case(jhash(ops) if nt else None, lab, sample)


def _preload() -> None:
    """Import everything a shard will ever import *before* any Hypothesis generation.

    Hypothesis (>= 6.13x) seeds its integer/text generation with constants harvested from the source of the
    local modules present in sys.modules, so what it generates depends on which modules are already loaded.
    Pool workers run several tasks in a timing-dependent order; without this, a worker that had already
    evaluated a sweep shard (sc62015 / pce500 imported) generated different histories from one that had not,
    and `distinct_nontrivial` varied between runs of the same seed."""
    _py_api()
    import hypothesis  # noqa: F401
    import hypothesis.strategies  # noqa: F401


def _shard(task: Tuple[str, int, int, int, str, int]) -> Report:
    try:
        return _shard_inner(task)
    finally:
        _remove_scratch_dir()


def _shard_inner(task: Tuple[str, int, int, int, str, int]) -> Report:
    kind, shard, nshards, seed, tier, n = task
    rep = Report()
    _preload()
    if kind == "hyp":
        # odd shards generate long histories only (Hypothesis otherwise favours short lists)
        items = [("hypothesis", ops) for ops in _hyp_sequences(seed, n, 1 if shard % 2 == 0 else 16)]
        eval_batch(items, rep)
    elif kind == "stream":
        eval_batch([("stream", ops) for ops in stream_sequences(seed, shard, n)], rep)
    elif kind == "gen":
        eval_batch([("generations", ops) for ops in generation_sequences(seed, shard, n)], rep)
    elif kind == "sweepgen":
        items = [(fam, ops) for k, (fam, ops) in enumerate(sweep_generation_cases(tier)) if k % nshards == shard]
        eval_batch(items, rep)
        rep.extra["sweep_generation_cases"] = len(items)
    else:
        items = [(fam, ops) for k, (fam, ops) in enumerate(sweep_cases(tier)) if k % nshards == shard]
        eval_batch(items, rep)
        rep.extra["sweep_cases"] = len(items)
    return rep


def run(ctx: Ctx) -> Report:
    rsclient.build()
    _preload()  # in the parent, so every forked worker starts from the same sys.modules
    rust = rsclient.Rust()
    try:
        names = rust.call({"cmd": "c08.names"}).get("names")
    finally:
        rust.close()
    if list(names or []) != list(NAMES):
        raise HarnessError(f"register name order mismatch between harness sides: {names}")
    n_hyp_shards = ctx.pick(16, 64)
    n_hyp = ctx.pick(200, 500)
    n_stream = ctx.pick(500, 1200)
    n_sweep = ctx.pick(16, 32)
    n_gen = ctx.pick(40, 150)
    n_gen_shards = 16
    tasks: List[Tuple[str, int, int, int, str, int]] = []
    for i in range(n_sweep):
        tasks.append(("sweep", i, n_sweep, ctx.seed, ctx.tier, 0))
    for i in range(n_gen_shards):
        tasks.append(("sweepgen", i, n_gen_shards, ctx.seed, ctx.tier, 0))
        tasks.append(("gen", i, n_gen_shards, mix32(0xC08, ctx.seed, 0x6E6E), ctx.tier, n_gen))
    for i in range(n_hyp_shards):
        # not ctx.shard_seed(i): mix32(seed, i, ..) xors seed and i before mixing, so small seeds would only
        # permute one set of shard seeds (seed 1 shard 1 == seed 2 shard 2); mix the run seed in first.
        tasks.append(("hyp", i, n_hyp_shards, mix32(0xC08, ctx.seed, i, 0x5EED), ctx.tier, n_hyp))
        tasks.append(("stream", i, n_hyp_shards, mix32(0xC08, ctx.seed, 0x57EA), ctx.tier, n_stream))
    reports = ctx.pmap(_shard, tasks)
    rep = ctx.merge_reports(reports)
    check_arch_table(rep)
    rep.rule = RULE
    rep.exhaustive = False  # the sweep family is complete (extra.sweep_complete) but histories are unbounded
    rep.extra["sweep_complete"] = True
    rep.extra["hypothesis_sequences"] = n_hyp_shards * n_hyp
    rep.extra["stream_sequences"] = n_hyp_shards * n_stream
    rep.extra["generation_sequences"] = n_gen_shards * n_gen
    rep.assumptions = [
        "pointer registers X, Y, U, S are 20 bits as the property statement says (the README table says 24)",
        "FC/FZ (and the C/Z flag API) are 1-bit registers: a written value is truncated to bit 0 (README: size 1)",
        "a fresh register file reads 0 everywhere (maintainers' test_registers)",
        "TEMP0..13 are not documented: their width (24 bits in both code tables) is an assumption -- a TEMP read "
        "equal to the written value truncated to some other width is not reported unless Python and Rust differ",
        "values are unsigned 32-bit integers (the statement's domain); negative Python ints are not generated",
        "Rust TEMPn are written/read through LlamaState even on the CoreRuntime facade, whose by-name API does "
        "not know TEMP names (it ignores such writes); that gap is not asserted on",
        "CoreRuntime::set_flag takes a u8: the harness passes value & 0xFF (bit 0 is all a 1-bit flag keeps)",
        "the contents of a snapshot (to_dict / collect_registers map / registers.bin bytes) are not asserted, "
        "only that applying it to a fresh register file reproduces every read; TEMPn travel beside the blob "
        "(metadata.temps) exactly as save_snapshot/load_snapshot carry them",
        "the file path ('rtf') is CoreRuntime::save_snapshot -> CoreRuntime::new().load_snapshot on the runtime "
        "facade and PCE500Emulator.save_snapshot -> PCE500Emulator().load_snapshot on the Python side (histories "
        "with an 'rtf' op run on the `Registers` of a PC-E500 machine, which reads 0 everywhere when new); the bare "
        "LlamaState has no file path and does the blob round trip there; only register reads are compared, not "
        "memory, counters or other snapshot contents (C16/C17)",
        "call_sub_level and the Rust-only IMR mirror register are not part of the statement and not compared",
        "Python == model and Rust == model imply Python == Rust; a separate differential verdict exists only "
        "for TEMP values",
    ]
    return rep


def replay(ctx: Ctx, case: Dict[str, Any]) -> List[Violation]:
    rep = Report()
    if case.get("table") == "arch":
        check_arch_table(rep)
        return rep.violations
    rsclient.build()
    ops = [list(o) for o in case["ops"]]
    try:
        res = rs_run([ops])[0]
        viols, _, _ = evaluate(ops, res)
    finally:
        _remove_scratch_dir()
    return viols


def _has_fp(ops: List[Op], key: str) -> Optional[Violation]:
    if not ops:
        return None
    try:
        viols, _, _ = evaluate(ops, rs_run([ops])[0])
    except Exception:
        return None
    for v in viols:
        if v.key() == key:
            return v
    return None


def shrink(ctx: Ctx, v: Violation) -> Violation:
    try:
        return _shrink(ctx, v)
    finally:
        _remove_scratch_dir()


def _shrink(ctx: Ctx, v: Violation) -> Violation:
    """Greedy op deletion, then value simplification, keeping the same fingerprint."""
    import time

    if not isinstance(v.case, dict) or "ops" not in v.case:
        return v
    key = v.key()
    t_end = time.time() + 20  # budget only bounds the search effort; it never affects a verdict
    ops = [list(o) for o in v.case["ops"]]
    best = v
    changed = True
    while changed and time.time() < t_end:
        changed = False
        size = max(1, len(ops) // 2)
        while size >= 1 and time.time() < t_end:
            i = 0
            while i < len(ops) and time.time() < t_end:
                cand = ops[:i] + ops[i + size:]
                w = _has_fp(cand, key)
                if w is not None:
                    ops, best, changed = cand, w, True
                else:
                    i += size
            size //= 2
    for i, op in enumerate(ops):
        if op[0] in ("set", "setflag") and time.time() < t_end:
            for simple in (0, 1, 0xFF, 0x100, 0xFFFF, 0x10000, op[2] & 0xFFFFFF, op[2] & 0xFFFF, op[2] & 0xFF):
                if simple < op[2]:
                    cand = [list(o) for o in ops]
                    cand[i][2] = simple
                    w = _has_fp(cand, key)
                    if w is not None:
                        ops, best = cand, w
                        break
    return best
