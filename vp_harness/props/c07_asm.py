"""C07 helper: what was assembled earlier in the process never influences what a source assembles to.

`sc62015/pysc62015/sc_asm.py` is the front door of every emulator run and one of C07's anchors: it owns module-level
state (REVERSE_OPCODES_CACHE) that outlives every `Assembler` object.  The property's sentence "decoder caches and
process-wide counters never influence architectural results ... two fresh emulators given identical inputs produce
identical traces" (quantifier: "earlier emulator instances in the same process") is checked here for the step that turns
the identical input -- the source text -- into the bytes the emulator runs.

One case = a *block under test* P (its own `.ORG`, its own label names: statements rendered from decoder-accepted
encodings, labels in between, references to those labels through JP/JPcc/CALL/JPF/CALLF/DEFW/DEFL/DEFB/MV r3,label/
[label] operands) and 1-2 *earlier* blocks E built from the same opcodes with other operand forms (same (prefix, opcode),
different optional bytes: `[r3]` vs `[r3+n]`, `[(n)]` vs `[(n)+m]`, (n) vs (BP+n) ...), at disjoint addresses, sharing no
symbol with P.  P is assembled

  reference   alone, in a process that has never assembled anything (grandchild of a fork server created before the
              worker used the assembler);
  history     in another such process, after the history -- a generated dimension: earlier `assemble()` calls (new or
              re-used Assembler object), earlier sections of the same source text, both, an earlier source that the
              assembler *rejects* (undefined symbol at its end, invalid operand combination, duplicate label, syntax
              error: a rejected operation must leave no trace), or -- every 12th case -- a long history: the blocks
              under test of the 11 preceding cases, one assemble() call each.

Both must produce the same bytes in P's address range (or both fail).  The worker process itself never assembles, so every
case is self-contained and replayable.  When they do not, both images are run on fresh
Python emulators from the same registers and the first differing step of the trace is added to the report.  No model of
the assembler is involved: the reference is the assembler itself.
"""

from __future__ import annotations

import copy
import os
from typing import Any, Dict, List, Optional, Tuple

from ..core import HarnessError, Report, Violation, jhash, mix32
from ..gen_state import Stream
from .. import gen_enc as G
from .. import pycore
from .. import textparse as TP
from . import c07_pristine as PR

SPAN = 0x400            # bytes of P's address range that are compared
WHERE = "py: sc_asm.Assembler"
REF_KINDS = ("JP", "JP", "JPZ", "JPNZ", "JPC", "JPNC", "CALL", "CALL", "JPF", "CALLF", "DEFW", "DEFW", "DEFL", "DEFB",
             "MVX", "MVY", "LDABS", "STABS", "MVPIMM", "CMPABS")


def mk_text(toks: List[TP.Tok]) -> str:
    """Rendered tokens -> assembler text: numbers as 0x literals (sign kept outside), everything else verbatim."""
    out: List[str] = []
    for k, t in toks:
        if k == "Int":
            out.append((t[0] + "0x" + t[1:]) if t[:1] in "+-" else ("0x" + t))
        elif k == "Addr":
            out.append("0x" + t)
        else:
            out.append(t)
    return "".join(out)


def ref_text(kind: str, label: str) -> str:
    return {"JP": f"JP {label}", "JPZ": f"JPZ {label}", "JPNZ": f"JPNZ {label}", "JPC": f"JPC {label}", "JPNC": f"JPNC {label}",
            "CALL": f"CALL {label}", "JPF": f"JPF {label}", "CALLF": f"CALLF {label}", "DEFW": f"DEFW {label}",
            "DEFL": f"DEFL {label}", "DEFB": f"DEFB {label}", "MVX": f"MV X, {label}", "MVY": f"MV Y, {label}",
            "LDABS": f"MV A, [{label}]", "STABS": f"MV [{label}], A", "MVPIMM": f"MVP (0x20), {label}",
            "CMPABS": f"CMP [{label}], 0x12"}[kind]


# --------------------------------------------------------------------------------------------------
# runs in a pristine process (fork-server grandchild) only


def _segments(image: Any, lo: int, hi: int) -> List[List[Any]]:
    """Bytes of the image inside [lo, hi) as [[start, hex], ...] (maximal runs, ascending)."""
    cells: Dict[int, int] = {}
    for seg in image.segments:
        base = int(seg.address)
        data = bytes(seg.data)
        if base >= hi or base + len(data) <= lo:
            continue
        for i, b in enumerate(data):
            a = base + i
            if lo <= a < hi:
                cells[a] = b
    out: List[List[Any]] = []
    run: Optional[List[Any]] = None
    for a in sorted(cells):
        if run is not None and run[0] + len(run[1]) == a:
            run[1].append(cells[a])
        else:
            run = [a, [cells[a]]]
            out.append(run)
    return [[a, bytes(bs).hex()] for a, bs in out]


def asm_script(script: Dict[str, Any]) -> List[Dict[str, Any]]:
    """script = {"items": [{"src": text, "reuse": bool, "lo": int, "hi": int}]}: assembles the items in order in THIS
    process; per item {"segs": [[addr, hex]]} (bytes inside [lo, hi)) or {"err": exception class name + message head}."""
    from sc62015.pysc62015.sc_asm import Assembler

    out: List[Dict[str, Any]] = []
    asm = None
    for it in script["items"]:
        if asm is None or not it.get("reuse"):
            asm = Assembler()
        try:
            image = asm.assemble(str(it["src"]))
            out.append({"segs": _segments(image, int(it.get("lo", 0)), int(it.get("hi", 1 << 24)))})
        except Exception as exc:  # noqa: BLE001 - an outcome like any other (compared as ok / not ok)
            out.append({"err": f"{type(exc).__name__}: {str(exc)[:100]}"})
    return out


_zyg: Optional[PR.PyPristine] = None
_zyg_pid: Optional[int] = None


def zygote() -> PR.PyPristine:
    """Per-process fork server for asm_script; must first be called before this process uses the assembler."""
    global _zyg, _zyg_pid
    if _zyg is None or _zyg_pid != os.getpid():
        _zyg = PR.PyPristine("asm_script")
        _zyg_pid = os.getpid()
    return _zyg


def pristine(script: Dict[str, Any]) -> List[Dict[str, Any]]:
    """Run one script in a brand-new process (one grandchild per script)."""
    return zygote().run([script])[0]


# --------------------------------------------------------------------------------------------------
# statement pool (per shard): rendered from decoder-accepted encodings, validated stand-alone in a pristine process


class Stmt:
    __slots__ = ("text", "key", "ln", "mn")

    def __init__(self, text: str, key: str, ln: int, mn: str) -> None:
        self.text, self.key, self.ln, self.mn = text, key, ln, mn


CONTROL_FLOW = {"JP", "JPF", "JR", "JPZ", "JPNZ", "JPC", "JPNC", "JRZ", "JRNZ", "JRC", "JRNC",
                "CALL", "CALLF", "RET", "RETF", "RETI", "IR", "HALT", "OFF", "RESET"}


def _render(pre: Optional[int], code: bytes) -> Optional[Tuple[str, str, str]]:
    r = TP.tokens(code + G.NOP_PAD, 0x1000)
    if r is None:
        return None
    mn = TP.mnemonic(r[0])
    if mn in CONTROL_FLOW or mn.startswith("???") or mn == "?":
        return None
    op = code[1] if pre is not None else code[0]
    return mk_text(r[0]), f"{'--' if pre is None else format(pre, '02X')}:{op:02X}", mn


def build_pool(seed: int, n_themes: int = 12, n_fill: int = 40) -> Dict[str, Any]:
    """-> {"themes": {key: [Stmt, ...]}, "fill": [Stmt, ...], "variable": [keys with >= 2 stand-alone lengths]}"""
    st = Stream(seed, 0xA53)
    cands: List[Tuple[str, str, str]] = []
    ops = [o for o in range(256) if not G.is_pre(o)]
    seen = set()
    tries = 0
    n_theme_keys = 0
    while n_theme_keys < n_themes and tries < 200:
        tries += 1
        pre = None if st.chance(3, 5) else st.choice(G.PRE_OPCODES)
        op = st.choice(ops)
        if (pre, op) in seen:
            continue
        seen.add((pre, op))
        encs, _ = G.sample_valid_encodings(mix32(seed, tries, 0xA54), 10, pres=[pre], opcodes=[op])
        lens = {len(c) for _p, c in encs}
        # two thirds of the themes: opcodes whose decoded length varies with the operand form
        if len(lens) < 2 and n_theme_keys % 3 != 2:
            continue
        rs = [x for x in (_render(p, c) for p, c in encs) if x is not None]
        texts = sorted({x[0]: x for x in rs}.values())
        if len(texts) < 2:
            continue
        cands += texts[:7]
        n_theme_keys += 1
    fills, _ = G.sample_valid_encodings(mix32(seed, 0xA55), 3 * n_fill)
    k = 0
    for p, c in fills:
        if (mix32(seed, 0xA56, k) % 3) == 0:
            x = _render(p, c)
            if x is not None:
                cands.append(x)
        k += 1
    cands = sorted(set(cands))
    # stand-alone validation, all in one pristine process (only used to select statements and to measure lengths)
    items = [{"src": f"    .ORG 0x10000\n    {t}\n", "lo": 0x10000, "hi": 0x10040} for t, _k, _m in cands]
    res = pristine({"items": items})
    themes: Dict[str, List[Stmt]] = {}
    fill: List[Stmt] = []
    rejected = 0
    for (t, key, mn), r in zip(cands, res):
        segs = r.get("segs")
        if not segs or len(segs) != 1:
            rejected += 1
            continue
        s = Stmt(t, key, len(segs[0][1]) // 2, mn)
        themes.setdefault(key, []).append(s)
    keys = sorted(themes)
    for key in keys:
        if len(themes[key]) < 2:
            fill += themes.pop(key)
    variable = sorted(k for k, v in themes.items() if len({s.ln for s in v}) >= 2)
    if not fill:
        fill = [Stmt("NOP", "--:00", 1, "NOP")]
    if not themes:
        raise HarnessError("C07 asm-history: no theme opcode with two stand-alone statements")
    return {"themes": themes, "fill": fill, "variable": variable, "rejected": rejected, "candidates": len(cands)}


# --------------------------------------------------------------------------------------------------
# generator


def _block(st: Stream, tag: str, org: int, stmts: List[Stmt], n_refs: int, ref_kinds: Tuple[str, ...]) -> Dict[str, Any]:
    """Lay the statements out with labels in between and references to them."""
    lines: List[Dict[str, Any]] = [{"t": "org", "text": f".ORG 0x{org:05X}"}, {"t": "label", "text": f"{tag}_S:", "name": f"{tag}_S"}]
    labels = [f"{tag}_S"]
    for i, s in enumerate(stmts):
        lines.append({"t": "stmt", "text": "    " + s.text, "key": s.key, "ln": s.ln})
        if st.chance(1, 2) or i == len(stmts) - 1:
            name = f"{tag}_L{len(labels)}"
            labels.append(name)
            lines.append({"t": "label", "text": name + ":", "name": name})
    lines.append({"t": "stmt", "text": "    NOP", "key": "--:00", "ln": 1})
    for _ in range(n_refs):
        kind = st.choice(ref_kinds)
        name = st.choice(labels[1:]) if len(labels) > 1 and st.chance(4, 5) else st.choice(labels)
        pos = 2 + st.below(len(lines) - 2)
        lines.insert(pos, {"t": "ref", "text": "    " + ref_text(kind, name), "kind": kind, "to": name})
    return {"tag": tag, "org": org, "lines": lines}


def block_text(b: Dict[str, Any]) -> str:
    return "\n".join(ln["text"] for ln in b["lines"]) + "\n"


def gen_case(st: Stream, pool: Dict[str, Any]) -> Dict[str, Any]:
    themes = pool["themes"]
    keys = sorted(themes)
    var = pool["variable"] or keys
    tkeys = [st.choice(var) if st.chance(3, 4) else st.choice(keys)]
    if st.chance(1, 3):
        tkeys.append(st.choice(keys))

    def pick(n: int, avoid: Optional[set] = None) -> List[Stmt]:
        out: List[Stmt] = []
        for _ in range(n):
            if st.chance(3, 5):
                vs = themes[st.choice(tkeys)]
                pref = [s for s in vs if avoid and s.text not in avoid] or vs
                out.append(st.choice(pref))
            else:
                out.append(st.choice(pool["fill"]))
        if not any(s.key in tkeys for s in out):
            out[st.below(len(out))] = st.choice(themes[tkeys[0]])
        return out

    page = st.choice((0x0, 0x1, 0x1, 0x2, 0x7, 0xB, 0xC, 0xF))
    org_p = (page << 16) | (0x0100 + (st.below(0xD000) & ~0xF) + st.below(16))
    ps = pick(3 + st.below(5))
    P = _block(st, "P", org_p, ps, 1 + st.below(3), REF_KINDS)
    used = {s.text for s in ps}
    mode = st.choice(("earlier-call", "earlier-call", "same-source", "same-source", "both", "rejected-earlier"))
    reject = None
    if mode == "rejected-earlier":
        reject = st.choice(("undefined-symbol", "undefined-symbol", "invalid-operands", "duplicate-label", "syntax"))
    n_e = 1 + st.below(2)
    E: List[Dict[str, Any]] = []
    for j in range(n_e):
        org_e = ((page ^ (1 + j)) & 0xF) << 16 | (0x0200 + (st.below(0xC000) & ~0xF))
        # a block that goes through an assemble() call of its own may use the very label names of the block under test
        # (other addresses): symbols of an earlier call must not survive into the next one
        separate = mode in ("earlier-call", "rejected-earlier") or (mode == "both" and j >= 1)
        tag = "P" if separate and st.chance(1, 3) else f"E{j}"
        E.append(_block(st, tag, org_e, pick(2 + st.below(5), avoid=used), st.below(3), REF_KINDS[:12]))
    return {"kind": "asm-history", "P": P, "E": E, "mode": mode, "reuse": st.chance(1, 2), "reject": reject,
            "themes": tkeys, "run": {"seed": st.u32(), "ba": st.word(), "i": 1 + st.below(8), "f": st.below(4), "steps": 8}}


def _rejected_source(b: Dict[str, Any], how: str) -> str:
    text = block_text(b)
    if how == "undefined-symbol":          # pass 1 sizes everything, pass 2 fails at the very end
        return text + f"    JP {b['tag']}_NOWHERE\n"
    if how == "invalid-operands":          # pass 1 fails after the block was sized
        return text + "    MV (BP+0x01), (BP+0x02)\n"
    if how == "duplicate-label":
        return text + f"{b['tag']}_S:\n    NOP\n"
    return text + "    MV A,,\n"            # rejected by the parser


def scripts(case: Dict[str, Any]) -> Tuple[Dict[str, Any], Dict[str, Any]]:
    """-> (reference script, history script); the item under test is always the last one."""
    P = case["P"]
    lo, hi = int(P["org"]), int(P["org"]) + SPAN
    ptext = block_text(P)
    ref = {"items": [{"src": ptext, "lo": lo, "hi": hi}]}
    items: List[Dict[str, Any]] = []
    E = case["E"]
    mode = case["mode"]
    reuse = bool(case.get("reuse"))
    if mode == "earlier-call":
        for b in E:
            items.append({"src": block_text(b), "reuse": reuse})
        items.append({"src": ptext, "reuse": reuse, "lo": lo, "hi": hi})
    elif mode == "same-source":
        items.append({"src": "".join(block_text(b) for b in E) + ptext, "lo": lo, "hi": hi})
    elif mode == "both":
        for b in E[1:]:
            items.append({"src": block_text(b), "reuse": reuse})
        items.append({"src": block_text(E[0]) + ptext, "reuse": reuse, "lo": lo, "hi": hi})
    else:
        for j, b in enumerate(E):
            items.append({"src": _rejected_source(b, str(case.get("reject"))) if j == len(E) - 1 else block_text(b), "reuse": reuse})
        items.append({"src": ptext, "reuse": reuse, "lo": lo, "hi": hi})
    return ref, {"items": items}


# --------------------------------------------------------------------------------------------------
# evaluation


def _trace(case: Dict[str, Any], segs: List[List[Any]]) -> List[Dict[str, Any]]:
    run = case["run"]
    mem = [[a + i, b] for a, hx in segs for i, b in enumerate(bytes.fromhex(hx))]
    org = int(case["P"]["org"])
    c = {"regs": {"PC": org, "BA": run["ba"], "I": run["i"], "X": 0x30000, "Y": 0x30100, "U": 0x3FE00, "S": 0x3FF00, "F": run["f"]},
         "seed": run["seed"], "mem": mem}
    emu, m = pycore.make_emulator(c)
    out = []
    for _ in range(int(run.get("steps", 8))):
        pc = emu.regs.get_by_name("PC")
        if emu.state.halted or not (org <= pc < org + SPAN):
            break
        s = pycore.step(emu, m)
        out.append({"pc": s["pc"], "name": s.get("name"), "err": s.get("err"),
                    "regs": {k: s["regs"][k] for k in pycore.ARCH_REGS}, "writes": s["writes"]})
        if "err" in s:
            break
    return out


def _first_diff(a: List[List[Any]], b: List[List[Any]]) -> str:
    ca = {x + i: v for x, hx in a for i, v in enumerate(bytes.fromhex(hx))}
    cb = {x + i: v for x, hx in b for i, v in enumerate(bytes.fromhex(hx))}
    bad = [x for x in sorted(set(ca) | set(cb)) if ca.get(x) != cb.get(x)]
    return ", ".join(f"{x:05X}: {('%02X' % ca[x]) if x in ca else '--'} vs {('%02X' % cb[x]) if x in cb else '--'}" for x in bad[:6])


def _label_dependent(case: Dict[str, Any]) -> bool:
    """P has a referenced label defined after a statement whose (prefix, opcode) the history also uses with another
    stand-alone length -- the situation in which a sizing shortcut keyed by opcode would show."""
    hist: Dict[str, set] = {}
    for b in case["E"]:
        for ln in b["lines"]:
            if ln["t"] == "stmt":
                hist.setdefault(ln["key"], set()).add(ln["ln"])
    referenced = {ln["to"] for ln in case["P"]["lines"] if ln["t"] == "ref"}
    hazard = False
    for ln in case["P"]["lines"]:
        if ln["t"] == "stmt" and any(x != ln["ln"] for x in hist.get(ln["key"], ())):
            hazard = True
        elif ln["t"] == "label" and hazard and ln["name"] in referenced:
            return True
    return False


def _judge(case: Dict[str, Any], ref: Dict[str, Any], other: Dict[str, Any], sub: str, where: str, who: str) -> Optional[Violation]:
    r_ok, o_ok = "segs" in ref, "segs" in other
    if r_ok != o_ok:
        return Violation(sub, where, "exception-asymmetry", case,
                         f"block under test at {case['P']['org']:#x}: pristine process -> {ref.get('err') or 'assembled'}; {who} -> {other.get('err') or 'assembled'}")
    if not r_ok or ref["segs"] == other["segs"]:
        return None
    ta, tb = _trace(case, ref["segs"]), _trace(case, other["segs"])
    k = next((i for i in range(max(len(ta), len(tb))) if i >= len(ta) or i >= len(tb) or ta[i] != tb[i]), None)
    tr = "; both images run identically for the traced steps" if k is None else (
        f"; fresh emulators given the two images diverge at step {k}: "
        f"{(ta[k]['name'], hex(ta[k]['pc'])) if k < len(ta) else None} vs {(tb[k]['name'], hex(tb[k]['pc'])) if k < len(tb) else None}")
    return Violation(sub, where, "image differs from the assembly of the same source in a pristine process", case,
                     f"block under test at {case['P']['org']:#x} (pristine vs {who}): {_first_diff(ref['segs'], other['segs'])}{tr}")


def evaluate(case: Dict[str, Any]) -> Tuple[List[Violation], Optional[str], List[str], Dict[str, Any]]:
    ref_s, hist_s = scripts(case)
    ref = pristine(ref_s)[-1]
    hres = pristine(hist_s)
    hist = hres[-1]
    mode = str(case["mode"])
    how = {"earlier-call": "earlier assemble() calls", "same-source": "earlier sections of the same source",
           "both": "earlier assemble() calls and earlier sections of the same source",
           "rejected-earlier": "an earlier assemble() call that was rejected"}[mode]
    if case.get("long"):
        how = "many earlier assemble() calls"
    vs: List[Violation] = []
    v = _judge(case, ref, hist, "asm-history", f"{WHERE} [history: {how}]", "process with the history")
    if v is not None:
        vs.append(v)
    labels = ["kind:asm-history", "asm-mode:" + ("long-history" if case.get("long") else mode), "asm-object:" + ("re-used" if case.get("reuse") else "new"),
              "asm-page:" + ("0" if int(case["P"]["org"]) < 0x10000 else "1-15")]
    if "err" in ref:
        labels.append("asm-error:block-under-test-rejected")
    if mode == "rejected-earlier":
        labels.append("asm-reject:" + str(case.get("reject")))
        if not any("err" in r for r in hres[:-1]):
            labels.append("asm-reject:was-accepted")
    elif any("err" in r for r in hres[:-1]):
        labels.append("asm-error:earlier-source-rejected")
    if any(b["tag"] == "P" for b in case["E"]):
        labels.append("asm:earlier-call-uses-the-same-label-names")
    hazard = _label_dependent(case)
    if hazard:
        labels.append("asm:referenced-label-after-opcode-the-history-sized-differently")
    for ln in case["P"]["lines"]:
        if ln["t"] == "ref":
            labels.append("asm-ref:" + ln["kind"])
    labels = sorted(set(labels))
    nt = None
    if "segs" in ref and hazard:
        nt = "asm:" + jhash([block_text(case["P"]), [block_text(b) for b in case["E"]], mode, case.get("reuse"), case.get("reject")])
    sample = {"kind": "asm-history", "mode": mode, "reuse": case.get("reuse"), "reject": case.get("reject"),
              "block_under_test": block_text(case["P"]), "earlier": [block_text(b) for b in case["E"]],
              "reference": ref.get("segs") or ref.get("err")}
    return vs, nt, labels, sample


def run_shard(seed: int, shard: int, n: int) -> Report:
    zygote()  # before this process touches the assembler
    rep = Report()
    pool = build_pool(mix32(seed, shard, 0xA57))
    rep.extra["asm_pool"] = {"candidates": pool["candidates"], "rejected_stand_alone": pool["rejected"],
                             "themes": len(pool["themes"]), "variable_length_themes": len(pool["variable"])}
    prev: List[Dict[str, Any]] = []
    for i in range(n):
        case = gen_case(Stream(seed, 0xC07E, shard, i), pool)
        if i % 12 == 11:
            # long history, self-contained: the blocks under test of the preceding cases, one assemble() call each
            case["E"] = copy.deepcopy(prev[-11:]) + case["E"]
            case["mode"], case["reject"], case["long"] = "earlier-call", None, True
        prev.append(case["P"])
        vs, nt, labels, sample = evaluate(case)
        for v in vs:
            rep.violate(v)
        rep.case(nt, labels, sample if rep.evaluations % 53 == 3 else None)
    return rep


def replay_case(case: Dict[str, Any]) -> List[Violation]:
    zygote()
    return evaluate(case)[0]


def shrink(v: Violation) -> Violation:
    """Same fingerprint with fewer earlier blocks / lines (bounded: <= 40 replays)."""
    key = v.key()
    case = copy.deepcopy(v.case)
    best = v
    budget = 40

    def same(cand: Dict[str, Any]) -> Optional[Violation]:
        try:
            for w in replay_case(cand):
                if w.key() == key:
                    return w
        except Exception:
            return None
        return None

    if len(case["E"]) > 1 and case["mode"] in ("earlier-call", "same-source"):
        for j in range(len(case["E"])):
            cand = dict(case, E=case["E"][:j] + case["E"][j + 1:])
            budget -= 1
            w = same(cand)
            if w is not None:
                case, best = copy.deepcopy(w.case), w
                break
    for bi in range(len(case["E"])):
        i = 2
        while i < len(case["E"][bi]["lines"]) and budget > 0:
            if case["E"][bi]["lines"][i]["t"] == "label":
                i += 1
                continue
            nb = dict(case["E"][bi], lines=case["E"][bi]["lines"][:i] + case["E"][bi]["lines"][i + 1:])
            cand = dict(case, E=case["E"][:bi] + [nb] + case["E"][bi + 1:])
            budget -= 1
            w = same(cand)
            if w is not None:
                case, best = copy.deepcopy(w.case), w
            else:
                i += 1
    i = 2
    while i < len(case["P"]["lines"]) and budget > 0:
        if case["P"]["lines"][i]["t"] == "label":
            i += 1
            continue
        cand = dict(case, P=dict(case["P"], lines=case["P"]["lines"][:i] + case["P"]["lines"][i + 1:]))
        budget -= 1
        w = same(cand)
        if w is not None:
            case, best = copy.deepcopy(w.case), w
        else:
            i += 1
    return best
