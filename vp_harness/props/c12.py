"""C12 -- interrupts are taken only when enabled and pending, and are undone by RETI.

Machine scenarios (a 256 KiB ROM image built from hand-encoded templates: main loop + handler + vectors; timer
periods; a host-event schedule) are run on the Python machine (pce500.PCE500Emulator) and, separately, on the
Rust machine (sc62015_core::CoreRuntime).  A monitor (vp_harness/c12_monitor.py) evaluates the property at
every step boundary of each model's own run; there is no cross-model verdict.

Two generators: (1) a depth-bounded COMPLETE enumeration of event sequences (host key / ON key / firmware
writes of IMR and ISR / nothing) at the first D boundaries of a spin loop, crossed with small timer periods,
initial masks and two handlers; (2) seeded random scenarios over program skeletons with HALT / OFF / WAIT,
handler bodies (acknowledging, re-enabling, IMR-changing), all mask/status values, timer periods and event
schedules over 60 boundaries; (3) seeded contention scenarios (several sources pending at once under a busy main loop);
(4) seeded handler-exit scenarios: the handler returns with RETI, ends with the RESET instruction (firmware restart: no
RETI ever matches the entry), falls into HALT before returning, or never returns; the main loop re-initialises the mask
register itself and requests keep arriving over the whole run.

Host-side configuration is a generated dimension of its own (configure / variants): the Python model is run on the
normal or on the `fast_mode` execution path of PCE500Emulator.step; the Rust model is run single-stepped and, for
part of the scenarios, additionally with the host calling CoreRuntime::step(n) with n > 1 (host events between calls);
the batched run is judged by the same monitor on its own instruction-by-instruction trace (see machine.rs run_parts).
"""

from __future__ import annotations

import json
import time
from typing import Any, Dict, List, Optional, Tuple

from ..core import Ctx, HarnessError, Report, Violation, jhash, mix32
from .. import c12_monitor as M
from .. import c12_pymachine as PY
from .. import c12_rom as R
from .. import c12_rsmachine as RS
from .. import rsclient
from ..gen_state import Stream

PROPERTY = "C12"
RULE = ("machine scenario = (main-loop slots, handler slots, initial IMR/ISR/F, MTI/STI periods, host-event schedule, "
        "step count) run on one model; enumerated part: every sequence of length D (quick 3, thorough 4) over "
        "{none, key event, ON key, MV (IMR),v for v in 00/80/81/84/88/8F, MV (ISR),00} at the first D boundaries of a "
        "spin loop (thorough: D=3 and D=4) x MTI period {0,2} (thorough D=3: {0,1,2,3}) x initial IMR {00,8F} x handler {RETI, MV (ISR),00; RETI}; sampled part: "
        "seeded random skeletons (NOP/INC/IMR writes/ISR clear/ACK/KIL read/HALT/OFF/WAIT 1..40), handlers (NOP, ISR "
        "clear, ACK, INC (n), OR (IMR),80, MV (IMR),v, KIL read), IMR in 32 mask combinations, ISR nibble, periods "
        "{0..7,50} (STI a multiple of MTI in 1/3 of the timed scenarios), events (key down/up/inject, ON down/up) over 60 "
        "boundaries, IMEM context of the interrupted program (BP/PX/PY zero or non-zero, patterned user RAM, optional "
        "MV (BP|PX|PY),n slot in main loop or handler), keyboard-interrupt enable on/off; enumerated scenarios take BP "
        "from {00,10,A5,FF} by a hash of their index; contention part: seeded busy-loop scenarios (no HALT/OFF) with "
        "coinciding timer expiries (STI = k x MTI, MTI in 4..12), bursts of key + ON events at the same/adjacent "
        "boundaries, a source masked while another is served and unmasked by the program later, master enable "
        "switched off/on inside the loop, firmware-raised status bits; host configuration (own stream, co-varied): "
        "Python fast_mode on for 1/3 of all scenarios, Rust additionally run with batched CoreRuntime::step(n), n in "
        "{2,3,7,50,1000} cut at host events, for 1/4 of the enumerated/random and all contention scenarios; handler-exit "
        "part: seeded scenarios whose handler exit kind is generated (RESET instruction 1/2, RETI 1/4, HALT;RETI 1/8, "
        "never returns 1/8), main loop = filler (NOP/INC/KIL/HALT) + MV|OR (IMR),80|sources written on every pass "
        "(+ optional AND (IMR),7F / OR (IMR),80 pair), handler body as in the sampled part, timers 3..12 (STI 0 / k x "
        "MTI / 5,7,11), key inject / key down-up / ON events over all 60 boundaries, stack window 320 bytes for "
        "non-returning handlers; half of them also run batched on Rust; power-off-period part (round 5): timers 3..40, "
        "main = filler + OFF + filler, host keeps stepping the powered-off machine for a generated number of boundaries "
        "(0 / fewer than / exactly / more than the time the timer still had to run / several periods) before ON wakes "
        "it, run continues for two more periods; stack-set-up part (round 5): run starts with S not yet loaded (s0 in "
        "0..4, control: valid), program loads S itself (MV S,imm20) after 1..7 instructions, requests (timers 1..7, key/"
        "ON events, masks enabled from the start / by the program before / after the stack set-up) reach the gate "
        "before, at and after that point. Non-trivial = at least one delivery, "
        "or a pending-but-masked status for >= 2 consecutive boundaries, or a HALT/OFF wake-up; distinct = hash of "
        "(model, scenario).")

MODELS = ("py", "rs")
ENUM_IMR = (0x00, 0x80, 0x81, 0x84, 0x88, 0x8F)
KEYS = ("KEY_F1", "KEY_A", "KEY_ENTER")
IMR_VALUES = tuple(m | b for m in (0x00, 0x80) for b in range(16))
PERIODS = (0, 0, 1, 2, 3, 4, 5, 6, 7, 50)
BASES = (0x01, 0x05, 0x10, 0x80, 0xA5, 0xFF)     # non-zero IMEM base pointer / index register values
ENUM_BP = (0x00, 0x10, 0xA5, 0xFF)               # enumerated scenarios: BP is a hash of the index (not crossed)
BATCHES = (2, 3, 7, 7, 50, 50, 1000, 1000)       # n of CoreRuntime::step(n) in batched Rust runs (cut at host events)

ASSUMPTIONS = [
    "delivery position inside a step is model-specific and documented by both step() implementations: Python "
    "delivers before executing, Rust after; the monitor replays each step in that order and is otherwise identical",
    "the monitor predicts only next PC, IMR and S of the hand-encoded template instructions (README semantics; "
    "encodings verified against the repository's decoder at start-up); F after INC/AND/OR/HALT/OFF is taken from "
    "the observation",
    "'taken promptly once unmasked' is checked as: a status bit raised by a hardware event (timer expiry, key, ON "
    "key) that is enabled with the master bit set at 3 consecutive step boundaries outside a handler and outside OFF "
    "must have been delivered (both step loops evaluate delivery once per step); status bits poked before the "
    "run or written by firmware carry no such obligation",
    "a status bit may be cleared by a firmware write, by Rust's RETI for the source it delivered (documented in "
    "lib.rs/eval.rs), by Rust's OFF state for non-ONK bits (documented assumption + unit test "
    "off_clears_non_onk_isr_and_pending) and by the ON-key release event (release_on_key); nothing else",
    "HALT: resumes when any ISR bit is non-zero at a boundary (maintainers' tests key_masked/on_masked: wake "
    "regardless of IMR); OFF: the only wake obligation asserted is ONKI (the statement names no OFF wake source; "
    "both models and pce500/tests agree on ON); 'stops both timers' = no MTI/STI status bit is raised in a step "
    "that starts powered off",
    "nested delivery is allowed but not required when a handler sets IMR bit 7 itself; requests are not required "
    "to be taken while a handler is active",
    "ISR bits 4-6 (UART/external) are not generated; the gate uses IMR & ISR & 0x7F so they would be accepted",
    "a ROM image is always loaded and the stack lives in internal RAM 0xBFF00 downwards (no C11 aliasing)",
    "'the interrupted program is unaffected' includes its internal memory: the user RAM 00-EB and BP/PX/PY change in "
    "a step only as the executed template instruction (INC (n), MV (BP|PX|PY),n; all templates use direct (n) "
    "addressing through PRE 30h) explains, whatever BP/PX/PY hold; host events are not judged on this",
    "a timer expiry is witnessed by the model's own next-expiry target moving (next_mti/next_sti only move when the "
    "timer fires, in both models); it must leave its status bit set at the end of that step, except in steps whose "
    "instruction writes ISR or is RETI (tick/write order differs between the models) or that start or end powered "
    "off (Rust documents that OFF clears non-ONK status)",
    "keyboard-interrupt enable (Python: snapshot field kb_irq_enabled restored by load_snapshot, set on the object as "
    "pce500/tests/test_snapshot_roundtrip.py does; Rust: TimerContext::set_keyboard_irq_enabled): when off, no key "
    "event may raise ISR.KEYI (Rust unit test 'KEYI should not be asserted when kb_irq_enabled is false', comment in "
    "write_fifo_to_memory, the Python gates in _tick_timers/_scan_keyboard_per_instruction); a poked or firmware-"
    "written KEYI bit then carries no HALT-wake obligation (lib.rs documents ignoring it, Python wakes: assert less)",
    "host configuration is not part of the property: PCE500Emulator.fast_mode (public attribute, 'minimal execution "
    "path', switched on by run_pce500.py/cli.py) and the n of CoreRuntime::step(n) must not matter; each configured "
    "run is judged on its own by the same monitor (no comparison between configurations)",
    "the state after the j-th instruction of a CoreRuntime::step(n) call is observed as the state of an identical "
    "fresh machine driven through the same earlier calls and then step(j) (both are real runs through the public "
    "API; the loop body of step() does not know n); the resulting records are read as the trace of the batched run",
    "RESET instruction (opcode FF) in a handler = firmware restart: both models document that it clears ISR and keeps "
    "IMR, S, F and the CPU registers (eval_intrinsic_reset docstring; llama/eval.rs power_on_reset); the monitor "
    "accepts the target of either vector as the restart address (Rust documents 0xFFFFD, the Python docstring 0xFFFFA: "
    "not C12's subject) and treats every active handler as over (no RETI will match its frame; Rust: "
    "clear_pending_for_reset + unit test reset_intrinsic_clears_irq_and_call_metadata 'reset should exit interrupt "
    "context'): from then on the ordinary obligations of main-program context apply (sentence 2: a request that is "
    "enabled and pending is taken promptly)",
    "requests are not required to be taken, and nothing is required of the timers, while a handler is active (also "
    "when the CPU is halted inside a handler or the handler never returns)",
    "timers keep running outside handlers: when the model's own cycle counter has reached the model's own expiry "
    "target (period > 0) at the start of a step with no handler active before or after it, the CPU running before and "
    "after, exactly one instruction executed and no delivery, the target moves in that step (both step loops tick "
    "the timers once per executed instruction unless a handler is active); reported once per timer and run",
    "'a powered-off CPU additionally stops both timers' is also judged on the timers' own progress: in a step that the "
    "model itself reports as powered off at both ends (power state 2, nothing executed) the distance between a running "
    "timer's own expiry target (next_mti/next_sti, period > 0) and the model's own cycle counter must not shrink; "
    "reported once per timer and run. Evaluated only where the model has a powered-off state of its own: the Python "
    "machine has none (OFF = HALT, open known finding C12-py-off-keeps-timers-running) and reports power state 1",
    "both step loops document that a delivery is deferred while the system stack pointer is not initialised (S < 5, 'IRQ "
    "deferred: stack pointer not initialized'; Python swallows the exception, CoreRuntime::step returns it as an error "
    "and stays steppable -- that error text with S < 5 is accepted, any other error is a machine violation): a boundary "
    "with S < 5 carries no delivery obligation; the 3-boundary obligation of a still pending, enabled, event-raised "
    "request starts at the first boundary with S >= 5; a delivery that happens while S is outside the observed stack "
    "window is reported by the existing state check",
    "Rust serves one source per delivery and its RETI clears exactly that status bit (lib.rs/eval.rs): an event-raised "
    "request that was only a co-candidate of that delivery and is still pending after the RETI keeps its 3-boundary "
    "obligation; Python has no per-source bookkeeping (one delivery stands for all candidates): nothing re-registered",
]


# ----------------------------------------------------------------------------------------------- generators
def enum_alphabet() -> List[Tuple[str, Any]]:
    return [("none", None), ("key", "KEY_F1"), ("on", None)] + [("imr", v) for v in ENUM_IMR] + [("isr", 0)]


def enum_scenario(seq: Tuple[int, ...], mti: int, imr0: int, hidx: int, model: str, sti: int = 0) -> Dict[str, Any]:
    alpha = enum_alphabet()
    main: List[List[Any]] = []
    events: List[List[Any]] = []
    for k, a in enumerate(seq):
        kind, arg = alpha[a]
        if kind == "imr":
            main.append(["IMR", arg])
        elif kind == "isr":
            main.append(["ISR", 0])
        else:
            main.append(["NOP"])
            if kind == "key":
                events.append([k, "key_inject", arg])
            elif kind == "on":
                events.append([k, "on_down", None])
    main += [["NOP"], ["NOP"]]
    handler = [[], [["ISR", 0]]][hidx]
    return {"prog": {"main": main, "handler": handler}, "imr0": imr0, "isr0": 0, "f0": 0x02, "mti": mti, "sti": sti,
            "steps": len(seq) + 12, "events": events}


def enum_dims(depth: int, full: bool) -> Tuple[Tuple[Any, ...], Tuple[int, ...], Tuple[int, ...]]:
    """(MTI periods, initial IMR values, handler indices) crossed with the event sequences."""
    # a timer entry is an MTI period (STI off) or an (MTI, STI) pair; (2, 4): every sub-timer expiry coincides with a
    # main-timer expiry
    return ((0, 1, 2, 3, (2, 4)) if full else (0, 2)), (0x00, 0x8F), (0, 1)


def enum_count(depth: int, full: bool) -> int:
    per, imrs, hs = enum_dims(depth, full)
    return len(enum_alphabet()) ** depth * len(per) * len(imrs) * len(hs)


def enum_case(idx: int, depth: int, full: bool) -> Dict[str, Any]:
    n = len(enum_alphabet())
    seq = []
    x = idx
    for _ in range(depth):
        seq.append(x % n)
        x //= n
    per, imrs, hs = enum_dims(depth, full)
    mti = per[x % len(per)]
    x //= len(per)
    imr0 = imrs[x % len(imrs)]
    x //= len(imrs)
    hidx = hs[x % len(hs)]
    timers = mti if isinstance(mti, tuple) else (mti, 0)
    sc = enum_scenario(tuple(seq), timers[0], imr0, hidx, "", timers[1])
    # not crossed with the enumeration: the interrupted program's IMEM frame (base pointer, patterned user RAM)
    sc["bp0"] = ENUM_BP[mix32(0xC12B, idx, depth) % len(ENUM_BP)]
    sc["imfill"] = 1
    return sc


def random_scenario(st: Stream) -> Tuple[Dict[str, Any], str]:
    skel = st.choice(("spin", "spin", "imr-writes", "imr-writes", "halt", "halt", "off", "wait", "mixed", "mixed"))
    main: List[List[Any]] = []
    n = 2 + st.below(6)

    def imr_slot() -> List[Any]:
        return ["IMR", st.choice(IMR_VALUES) if st.chance(1, 2) else st.choice(ENUM_IMR)]

    for _ in range(n):
        r = st.below(100)
        if skel == "spin":
            main.append(["NOP"] if r < 70 else (["INCA"] if r < 90 else ["KIL"]))
        elif skel == "imr-writes":
            main.append(imr_slot() if r < 40 else (["ISR", 0] if r < 50 else (["ACK", 0xFF ^ (1 << st.below(4))] if r < 58 else ["NOP"])))
        elif skel == "halt":
            main.append(["HALT"] if r < 30 else (imr_slot() if r < 50 else (["ISR", 0] if r < 58 else ["NOP"])))
        elif skel == "off":
            main.append(["OFF"] if r < 25 else (["HALT"] if r < 32 else (imr_slot() if r < 50 else ["NOP"])))
        elif skel == "wait":
            main.append(["WAIT", 1 + st.below(40)] if r < 35 else (imr_slot() if r < 55 else ["NOP"]))
        else:
            main.append(st.choice((["NOP"], ["NOP"], ["INCA"], imr_slot(), ["ISR", 0], ["HALT"], ["WAIT", 1 + st.below(12)],
                                   ["KIL"], ["ACK", 0xFF ^ (1 << st.below(4))], ["OFF"] if st.chance(1, 4) else ["NOP"])))
    handler: List[List[Any]] = []
    for _ in range(st.below(4)):
        r = st.below(100)
        if r < 25:
            handler.append(["NOP"])
        elif r < 45:
            handler.append(["ISR", 0])
        elif r < 60:
            handler.append(["ACK", 0xFF ^ (1 << st.below(4))])
        elif r < 72:
            handler.append(["INCM", R.SCRATCH])
        elif r < 82:
            handler.append(["ORIMR", 0x80])
        elif r < 90:
            handler.append(["IMR", st.choice(IMR_VALUES)])
        else:
            handler.append(["KIL"])
    steps = 60
    events: List[List[Any]] = []
    key_down: Dict[str, bool] = {}
    on_down = False
    dens = st.choice((0, 8, 8, 5, 3))
    if dens:
        for k in range(steps):
            if st.below(dens * 2) != 0:
                continue
            r = st.below(100)
            if r < 25:
                key = st.choice(KEYS)
                events.append([k, "key_up" if key_down.get(key) else "key_down", key])
                key_down[key] = not key_down.get(key, False)
            elif r < 50:
                events.append([k, "key_inject", st.choice(KEYS)])
            elif r < 85:
                events.append([k, "on_up" if on_down else "on_down", None])
                on_down = not on_down
            else:
                key = st.choice(KEYS)
                events.append([k, "key_up", key])
                key_down[key] = False
    sc = {"prog": {"main": main, "handler": handler},
          "imr0": st.choice(IMR_VALUES), "isr0": 0 if st.chance(2, 3) else st.below(16), "f0": st.byte(),
          "ba0": st.word(), "i0": 1 + st.below(20),
          "mti": st.choice(PERIODS), "sti": st.choice(PERIODS) if st.chance(1, 2) else 0,
          "steps": steps, "events": events}
    # ---- round-2 dimensions; drawn after everything above so that the earlier draws are unchanged
    # (a) IMEM addressing context of the interrupted program: BP / PX / PY non-zero, patterned user RAM, and
    #     firmware that sets them up itself (MV (BP|PX|PY),n in the main loop or in the handler)
    if st.chance(11, 20):
        sc["bp0"] = st.choice(BASES) if st.chance(3, 4) else st.byte()
    if st.chance(1, 3):
        sc["px0"] = st.choice(BASES) if st.chance(1, 2) else st.byte()
    if st.chance(1, 3):
        sc["py0"] = st.choice(BASES) if st.chance(1, 2) else st.byte()
    if st.chance(3, 4):
        sc["imfill"] = st.below(256)
    if st.chance(1, 4):
        main.insert(st.below(len(main) + 1), [st.choice(("BPW", "BPW", "PXW", "PYW")), st.choice(BASES + (0x00,))])
    if st.chance(1, 8):
        handler.insert(st.below(len(handler) + 1), [st.choice(("BPW", "BPW", "PXW", "PYW")), st.choice(BASES + (0x00,))])
    # (b) both timers expiring on the same cycle: sub-timer period a multiple of the main-timer period
    if sc["mti"] and st.chance(1, 3):
        sc["sti"] = sc["mti"] * (1 + st.below(4))
    # (c) the machine's keyboard-interrupt enable as a configuration dimension
    if st.chance(1, 5):
        sc["kbirq"] = False
    return sc, skel


def contention_scenario(st: Stream) -> Tuple[Dict[str, Any], str]:
    """Several sources pending at the same time under a busy main loop (no HALT/OFF: the wake-up path re-evaluates
    every request by itself): coinciding timer expiries, bursts of two host sources at the same or at adjacent
    boundaries, a request that stays masked while another source is served and is unmasked by the program later,
    firmware that raises a status bit itself.  After the burst the host stays silent, so that long step(n) calls
    and long stretches without any new request exist."""
    kind = st.choice(("timers", "timers", "burst", "burst", "unmask", "unmask", "unmask", "fwset"))
    main: List[List[Any]] = []
    for _ in range(3 + st.below(6)):
        r = st.below(100)
        main.append(["NOP"] if r < 70 else (["INCA"] if r < 85 else (["INCM", R.SCRATCH] if r < 93 else ["KIL"])))
    handler: List[List[Any]] = []
    for _ in range(st.below(3)):
        r = st.below(100)
        handler.append(["NOP"] if r < 40 else (["INCM", R.SCRATCH] if r < 70 else
                                               (["ACK", 0xFF ^ (1 << st.below(4))] if r < 92 else ["ISR", 0])))
    srcs = 0x03 if kind == "timers" else st.choice((0x03, 0x05, 0x06, 0x07, 0x09, 0x0A, 0x0B, 0x0C, 0x0D, 0x0E, 0x0F))
    if kind == "timers" and st.chance(1, 3):
        srcs |= st.choice((0x04, 0x08, 0x0C))
    imr0 = 0x80 | srcs
    mti = sti = 0
    if srcs & 0x03 and (kind == "timers" or st.chance(2, 3)):
        mti = st.choice((4, 5, 6, 7, 8, 9, 12))
        if kind == "timers" or st.chance(1, 2):
            sti = mti * st.choice((1, 1, 2, 3))
        else:
            sti = st.choice((0, 5, 7, 11, 50))
    steps = 60
    events: List[List[Any]] = []
    if srcs & 0x0C and (kind != "timers" or st.chance(1, 2)):
        k = st.below(14)
        burst = [[k, "key_inject", st.choice(KEYS)], [k + st.below(3), "on_down", None]]
        if st.chance(1, 4):
            burst = burst[:1] if st.chance(1, 2) else burst[1:]
        events += sorted(burst, key=lambda e: e[0])
        if st.chance(1, 3) and any(e[1] == "on_down" for e in events):
            events.append([k + 20 + st.below(30), "on_up", None])
    if kind == "unmask":
        # one source stays enabled, the others are masked for a stretch of every loop iteration and unmasked again
        bits = [b for b in (1, 2, 4, 8) if srcs & b]
        keep = st.choice(bits)
        imr0 = 0x80 | keep if st.chance(2, 3) else imr0
        a = st.below(len(main) + 1)
        main.insert(a, ["IMR", 0x80 | keep])
        b = a + 1 + st.below(len(main) - a)
        main.insert(b, ["IMR", 0x80 | srcs] if st.chance(2, 3) else ["ORIMR", srcs])
    elif kind == "fwset":
        main.insert(st.below(len(main) + 1), ["ISR", st.choice([b for b in (1, 2, 4, 8, 3, 0x0C) if b & srcs] or [srcs])])
    elif st.chance(1, 5):
        # master enable switched off for a stretch of the loop
        a = st.below(len(main) + 1)
        main.insert(a, ["ANDIMR", 0x7F])
        main.insert(a + 1 + st.below(len(main) - a), ["ORIMR", 0x80])
    sc: Dict[str, Any] = {"prog": {"main": main, "handler": handler}, "imr0": imr0,
                          "isr0": 0, "f0": st.byte(), "ba0": st.word(), "i0": 1 + st.below(20),
                          "mti": mti, "sti": sti, "steps": steps, "events": events}
    if st.chance(1, 2):
        sc["bp0"] = st.choice(BASES)
    if st.chance(1, 2):
        sc["imfill"] = st.below(256)
    return sc, "contend-" + kind


def hexit_scenario(st: Stream) -> Tuple[Dict[str, Any], str]:
    """Handler exit kind as a dimension: the handler returns with RETI, ends with the RESET instruction (the firmware
    restarts through the reset vector instead of returning; no RETI ever matches that entry), falls into HALT before
    it returns, or never returns (spins over its body).  The main loop (re)initialises the mask register itself, as
    restarted firmware does, and requests keep arriving over the whole run (timer expiries, key events, ON key): after
    a RESET the machine must take enabled pending requests again and its timers must keep expiring."""
    kind = st.choice(("reset", "reset", "reset", "reset", "halt", "spin", "reti", "reti"))
    srcs = st.choice((0x01, 0x03, 0x04, 0x04, 0x05, 0x07, 0x08, 0x0C, 0x0D, 0x0F, 0x0F))
    main: List[List[Any]] = []
    for _ in range(2 + st.below(5)):
        r = st.below(100)
        main.append(["NOP"] if r < 60 else (["INCA"] if r < 75 else (["INCM", R.SCRATCH] if r < 85 else
                                                                     (["KIL"] if r < 92 else ["HALT"]))))
    # firmware initialisation inside the loop: master enable + source masks are written on every pass
    init = ["IMR", 0x80 | srcs] if st.chance(3, 4) else ["ORIMR", 0x80 | srcs]
    main.insert(0 if st.chance(1, 2) else st.below(len(main) + 1), init)
    if st.chance(1, 6):
        a = st.below(len(main) + 1)
        main.insert(a, ["ANDIMR", 0x7F])
        main.insert(a + 1 + st.below(len(main) - a), ["ORIMR", 0x80])
    handler: List[List[Any]] = []
    for _ in range(st.below(4)):
        r = st.below(100)
        if r < 30:
            handler.append(["NOP"])
        elif r < 50:
            handler.append(["ACK", 0xFF ^ (1 << st.below(4))])
        elif r < 62:
            handler.append(["ISR", 0])
        elif r < 76:
            handler.append(["INCM", R.SCRATCH])
        elif r < 84:
            handler.append(["ORIMR", 0x80])
        elif r < 92:
            handler.append(["IMR", st.choice(IMR_VALUES)])
        else:
            handler.append(["KIL"])
    imr0 = (0x80 | srcs) if st.chance(2, 3) else st.choice(IMR_VALUES)
    mti = sti = 0
    if srcs & 0x03 or st.chance(1, 3):
        mti = st.choice((3, 4, 5, 6, 7, 8, 9, 12))
        sti = st.choice((0, 0, mti, 2 * mti, 3 * mti, 5, 7, 11))
    steps = 60
    events: List[List[Any]] = []
    key_down: Dict[str, bool] = {}
    on_down = False
    dens = st.choice((0, 4, 6, 6, 10))
    if dens and (srcs & 0x0C or st.chance(1, 2)):
        for k in range(steps):
            if st.below(dens) != 0:
                continue
            r = st.below(100)
            if r < 45:
                events.append([k, "key_inject", st.choice(KEYS)])
            elif r < 60:
                key = st.choice(KEYS)
                events.append([k, "key_up" if key_down.get(key) else "key_down", key])
                key_down[key] = not key_down.get(key, False)
            else:
                events.append([k, "on_up" if on_down else "on_down", None])
                on_down = not on_down
    prog: Dict[str, Any] = {"main": main, "handler": handler}
    if kind != "reti":
        prog["hexit"] = kind
    sc: Dict[str, Any] = {"prog": prog, "imr0": imr0, "isr0": 0 if st.chance(3, 4) else st.below(16), "f0": st.byte(),
                          "ba0": st.word(), "i0": 1 + st.below(20), "mti": mti, "sti": sti, "steps": steps,
                          "events": events}
    if kind in ("reset", "spin"):
        # a handler that does not return leaks one 5-byte frame per delivery: observe a deeper stack window
        sc["stkwin"] = 5 * steps + 20
    if st.chance(1, 2):
        sc["bp0"] = st.choice(BASES)
    if st.chance(1, 2):
        sc["imfill"] = st.below(256)
    if st.chance(1, 8):
        sc["kbirq"] = False
    return sc, "hexit-" + kind


def poweroff_scenario(st: Stream) -> Tuple[Dict[str, Any], str]:
    """Round 5 -- the LENGTH of a powered-off period as a generated dimension, relative to the time a running timer
    still has to go when the program executes OFF: the host keeps stepping the powered-off machine for a generated number
    of boundaries (none, a few, exactly the remaining timer period, longer, several periods) before the ON key wakes it,
    and the run continues long enough afterwards for the timer to expire and (masks permitting) be delivered.  Timer
    periods are longer than in the other families so that 'remaining time at OFF' has a range."""
    mti = st.choice((3, 5, 8, 12, 20, 30, 40))
    sti = st.choice((0, 0, mti, 2 * mti, 7, 25, 50))
    srcs = st.choice((0x00, 0x01, 0x03, 0x08, 0x09, 0x0B, 0x0F, 0x0F))
    imr0 = (0x80 if st.chance(3, 4) else 0x00) | srcs

    def filler() -> List[Any]:
        r = st.below(100)
        return ["NOP"] if r < 65 else (["INCA"] if r < 85 else (["INCM", R.SCRATCH] if r < 93 else ["KIL"]))

    pre = st.below(min(mti, 10))
    main: List[List[Any]] = [filler() for _ in range(pre)]
    if st.chance(1, 3):
        main.insert(st.below(len(main) + 1), ["IMR", 0x80 | srcs] if st.chance(1, 2) else ["ORIMR", 0x80 | srcs])
    off_at = len(main)
    main.append(["OFF"])
    main += [filler() for _ in range(2 + st.below(5))]
    handler: List[List[Any]] = []
    for _ in range(st.below(3)):
        r = st.below(100)
        handler.append(["NOP"] if r < 35 else (["ACK", 0xFF ^ (1 << st.below(4))] if r < 65 else
                                               (["ISR", 0] if r < 80 else ["INCM", R.SCRATCH])))
    remaining = max(mti - (off_at + 1), 1)
    kind = st.choice(("none", "short", "exact", "exact", "longer", "longer", "periods", "periods"))
    if kind == "none":
        dur = 0
    elif kind == "short":
        dur = 1 + st.below(max(remaining - 1, 1))
    elif kind == "exact":
        dur = remaining + st.below(3) - 1
    elif kind == "longer":
        dur = remaining + 1 + st.below(mti + 1)
    else:
        dur = remaining + mti * (1 + st.below(3)) + st.below(mti)
    dur = min(dur, 110)
    on_at = off_at + 1 + dur
    events: List[List[Any]] = [[on_at, "on_down", None]]
    steps = min(on_at + 2 * mti + 12, 170)
    if st.chance(1, 2):
        up = on_at + 1 + st.below(6)
        events.append([up, "on_up", None])
        if st.chance(1, 2) and up + 4 < steps:
            events.append([up + 2 + st.below(max(steps - up - 3, 1)), "on_down", None])
    if st.chance(1, 4):
        events.append([st.below(steps), "key_inject", st.choice(KEYS)])
    events = sorted((e for e in events if e[0] < steps), key=lambda e: e[0])
    sc: Dict[str, Any] = {"prog": {"main": main, "handler": handler}, "imr0": imr0, "isr0": 0, "f0": st.byte(),
                          "ba0": st.word(), "i0": 1 + st.below(20), "mti": mti, "sti": sti, "steps": steps,
                          "events": events}
    if st.chance(1, 2):
        sc["bp0"] = st.choice(BASES)
    if st.chance(1, 2):
        sc["imfill"] = st.below(256)
    return sc, "poweroff-" + kind


def stackinit_scenario(st: Stream) -> Tuple[Dict[str, Any], str]:
    """Round 5 -- the state of the system stack pointer when a request reaches the delivery gate as a generated
    dimension: the run starts as firmware does after power-on, with S not yet loaded (s0 in 0..4; both step loops
    document that they refuse/defer a delivery while S < 5), the program loads S itself (MV S,imm20) after a generated
    number of instructions, and requests (timer expiries with short periods, key / ON events, masks enabled from the
    start or by the program before or after the stack set-up) arrive before, at and after that point.  A rejected
    delivery must leave no trace: once S is usable the still pending request is taken promptly, frame / RETI as usual."""
    kind = st.choice(("timer-before", "timer-before", "event-before", "event-before", "unmask-before", "after", "valid"))
    srcs = st.choice((0x01, 0x01, 0x03, 0x04, 0x05, 0x08, 0x09, 0x0C, 0x0F, 0x0F))
    if kind == "timer-before":
        srcs |= st.choice((0x01, 0x02, 0x03))

    def filler() -> List[Any]:
        r = st.below(100)
        return ["NOP"] if r < 65 else (["INCA"] if r < 85 else (["INCM", R.SCRATCH] if r < 93 else ["KIL"]))

    pre = 1 + st.below(7)
    main: List[List[Any]] = [filler() for _ in range(pre)]
    imr0 = 0x80 | srcs
    if kind == "unmask-before":
        # the firmware enables the sources itself before it has loaded S
        imr0 = st.choice((0x00, srcs, 0x80))
        main.insert(st.below(len(main) + 1), ["IMR", 0x80 | srcs] if st.chance(1, 2) else ["ORIMR", 0x80 | srcs])
    elif kind == "after":
        imr0 = st.choice((0x00, srcs))
    sets_at = len(main)
    main.append(["SETS", R.STACK_TOP])
    if kind == "after":
        main.append(["IMR", 0x80 | srcs] if st.chance(1, 2) else ["ORIMR", 0x80 | srcs])
    for _ in range(2 + st.below(5)):
        main.append(filler() if st.chance(7, 8) else ["HALT"])
    handler: List[List[Any]] = []
    for _ in range(st.below(4)):
        r = st.below(100)
        handler.append(["NOP"] if r < 30 else (["ACK", 0xFF ^ (1 << st.below(4))] if r < 55 else
                                               (["ISR", 0] if r < 75 else (["INCM", R.SCRATCH] if r < 90 else ["ORIMR", 0x80]))))
    mti = sti = 0
    if srcs & 0x03:
        mti = st.choice((1, 2, 3, 4, 5, 7)) if kind != "after" else st.choice((2, 5, 9, 12))
        sti = st.choice((0, 0, mti, 2 * mti, 3, 7)) if srcs & 0x02 else 0
    steps = 60
    events: List[List[Any]] = []
    if srcs & 0x0C:
        n_ev = 1 + st.below(3)
        on_down = False
        for _ in range(n_ev):
            k = st.below(sets_at + 2) if (kind == "event-before" or st.chance(1, 2)) else st.below(steps)
            if srcs & 0x08 and (not srcs & 0x04 or st.chance(1, 2)):
                events.append([k, "on_down", None])
                on_down = True
            else:
                events.append([k, "key_inject", st.choice(KEYS)])
        if on_down and st.chance(1, 2):
            events.append([max(e[0] for e in events) + 3 + st.below(20), "on_up", None])
    events = sorted((e for e in events if e[0] < steps), key=lambda e: e[0])
    sc: Dict[str, Any] = {"prog": {"main": main, "handler": handler}, "imr0": imr0, "isr0": 0, "f0": st.byte(),
                          "ba0": st.word(), "i0": 1 + st.below(20), "mti": mti, "sti": sti, "steps": steps,
                          "events": events,
                          "s0": R.STACK_TOP if kind == "valid" else st.choice((0, 0, 0, 1, 2, 3, 4))}
    if st.chance(1, 2):
        sc["bp0"] = st.choice(BASES)
    if st.chance(1, 2):
        sc["imfill"] = st.below(256)
    return sc, "stackinit-" + kind


def configure(sc: Dict[str, Any], st: Stream, always_batch: bool = False) -> Dict[str, Any]:
    """Host-side configuration of a scenario, drawn from a stream of its own (scenario draws are unchanged):
    "fast" (Python model only): PCE500Emulator.fast_mode, the documented 'minimal execution path' of step() that
    run_pce500.py / cli.py switch on; "batch" (Rust model only): the host calls CoreRuntime::step(n) with n > 1."""
    cfg: Dict[str, Any] = {}
    if st.chance(1, 3):
        cfg["fast"] = True
    if always_batch or st.chance(1, 4):
        cfg["batch"] = st.choice(BATCHES)
    return cfg


def variants(sc: Dict[str, Any], cfg: Dict[str, Any]) -> List[Tuple[str, Dict[str, Any], List[str]]]:
    """(model, scenario as run on that model, extra labels): the single-stepped Rust run, the Python run (fast or
    normal execution path) and, when configured, a batched Rust run."""
    out: List[Tuple[str, Dict[str, Any], List[str]]] = [("rs", sc, [])]
    if cfg.get("batch"):
        out.append(("rs", dict(sc, batch=int(cfg["batch"])), [f"rs:batch-step({int(cfg['batch'])})"]))
    if cfg.get("fast"):
        out.append(("py", dict(sc, fast=True), ["py:fast-mode"]))
    else:
        out.append(("py", sc, []))
    return out


# ----------------------------------------------------------------------------------------------- evaluation
def run_model(model: str, scs: List[Dict[str, Any]]) -> List[Dict[str, Any]]:
    if model == "py":
        return [PY.run(sc) for sc in scs]
    return RS.run_batch(scs)


def verdicts(model: str, sc: Dict[str, Any], run: Dict[str, Any]) -> Tuple[List[Violation], M.Monitor]:
    mon = M.evaluate(model, sc, run)
    case = {"model": model, "sc": sc}
    vs = [Violation(sub, where, sym, case, det) for (sub, where, sym, det) in mon.out]
    return vs, mon


def summarize(sc: Dict[str, Any]) -> str:
    def slots(xs: List[List[Any]]) -> str:
        return " ".join(s[0] + (f":{s[1]:02X}" if len(s) > 1 else "") for s in xs)
    extra = "".join(f" {k}={sc[k]:02X}" for k in ("bp0", "px0", "py0") if sc.get(k))
    if sc.get("kbirq") is False:
        extra += " kbirq=off"
    if sc.get("fast"):
        extra += " fast_mode=on"
    if sc.get("batch"):
        extra += f" host-calls=step({sc['batch']})"
    if sc["prog"].get("hexit"):
        extra += f" handler-exit={sc['prog']['hexit']}"
    return (f"main[{slots(sc['prog']['main'])}] handler[{slots(sc['prog']['handler'])}] imr0={sc['imr0']:02X} "
            f"isr0={sc['isr0']:02X} mti={sc['mti']} sti={sc['sti']} events={len(sc.get('events', []))}" + extra)


def account(rep: Report, model: str, sc: Dict[str, Any], run: Dict[str, Any], extra_labels: List[str], sample: bool) -> None:
    vs, mon = verdicts(model, sc, run)
    for v in vs:
        rep.violate(v)
    nt = mon.deliveries >= 1 or mon.max_masked_pending >= 2 or mon.wakes >= 1
    labels = [f"model:{model}"] + extra_labels + sorted(f"{model}:{lb}" for lb in mon.labels)
    if mon.deliveries:
        labels.append(f"{model}:has-delivery")
    if mon.max_masked_pending >= 2:
        labels.append(f"{model}:masked-pending>=2")
    if mon.dead:
        labels.append(f"{model}:monitor-stopped-early")
    if mon.deferred_boundaries:
        labels.append(f"{model}:delivery-deferred-until-stack-pointer-loaded")
    if mon.off_steps_armed:
        labels.append(f"{model}:powered-off-with-running-timer")
    if mon.off_wakes_armed:
        labels.append(f"{model}:wake-after-powered-off-period-with-running-timer")
    smp = None
    if sample:
        smp = {"model": model, "scenario": summarize(sc), "deliveries": mon.deliveries, "wakes": mon.wakes,
               "masked_pending_boundaries": mon.max_masked_pending, "violations": [list(o[:3]) for o in mon.out[:3]]}
    rep.case(jhash([model, sc]) if nt else None, labels, smp)
    rep.extra["steps_monitored"] = rep.extra.get("steps_monitored", 0) + len(run.get("steps", []))
    rep.extra["deliveries_observed"] = rep.extra.get("deliveries_observed", 0) + mon.deliveries


def _shard(task: Tuple[str, int, int, int, int, str]) -> Report:
    """task = (kind, shard, nshards, seed, param, tier)."""
    kind, shard, nshards, seed, param, tier = task
    rep = Report()
    scs: List[Tuple[Dict[str, Any], Dict[str, Any], List[str]]] = []      # (scenario, configuration, labels)
    if kind == "enum":
        depth, full = param % 16, bool(param // 16)
        total = enum_count(depth, full)
        for idx in range(shard, total, nshards):
            # configuration is co-varied with the enumeration (a hash of the index), not crossed with it
            scs.append((enum_case(idx, depth, full), configure({}, Stream(0xC12E, depth, int(full), idx)),
                        [f"gen:enum-depth{depth}"]))
    elif kind == "contend":
        for j in range(param):
            sc, skel = contention_scenario(Stream(seed, 0xC12D, shard, j))
            scs.append((sc, configure(sc, Stream(seed, 0xC12F, shard, j), always_batch=True), ["gen:contention", f"skel:{skel}"]))
    elif kind == "hexit":
        for j in range(param):
            sc, skel = hexit_scenario(Stream(seed, 0xC124, shard, j))
            scs.append((sc, configure(sc, Stream(seed, 0xC125, shard, j), always_batch=(j % 2 == 0)),
                        ["gen:handler-exit", f"skel:{skel}"]))
    elif kind == "stackinit":
        for j in range(param):
            sc, skel = stackinit_scenario(Stream(seed, 0xC128, shard, j))
            cfg = configure(sc, Stream(seed, 0xC129, shard, j))
            cfg.pop("batch", None)      # a deferral error ends a step(n) call early: single-stepped Rust runs only
            scs.append((sc, cfg, ["gen:stack-set-up", f"skel:{skel}"]))
    elif kind == "poweroff":
        for j in range(param):
            sc, skel = poweroff_scenario(Stream(seed, 0xC126, shard, j))
            scs.append((sc, configure(sc, Stream(seed, 0xC127, shard, j), always_batch=(j % 2 == 0)),
                        ["gen:power-off-period", f"skel:{skel}"]))
    else:
        count = param
        for j in range(count):
            st = Stream(seed, 0xC12, shard, j)
            sc, skel = random_scenario(st)
            scs.append((sc, configure(sc, Stream(seed, 0xC12C, shard, j)), ["gen:random", f"skel:{skel}"]))
    B = 64
    for i in range(0, len(scs), B):
        chunk = scs[i:i + B]
        todo: List[Tuple[int, str, Dict[str, Any], List[str]]] = []
        for j, (sc, cfg, labels) in enumerate(chunk):
            for model, vsc, extra in variants(sc, cfg):
                todo.append((j, model, vsc, labels + extra))
        rs_idx = [n for n, t in enumerate(todo) if t[1] == "rs"]
        rs_runs = dict(zip(rs_idx, run_model("rs", [todo[n][2] for n in rs_idx])))
        for n, (j, model, vsc, labels) in enumerate(todo):
            # keep evidence samples varied: one scenario from each of the first enumeration shards (an early index
            # and one with several events) and the first scenario of the first random shards
            if kind == "enum":
                sample = shard < 2 and (i + j) == (37, 111)[shard]
            else:
                sample = shard < 2 and (i + j) == 0
            account(rep, model, vsc, rs_runs[n] if model == "rs" else PY.run(vsc), labels, sample)
    return rep


def run(ctx: Ctx) -> Report:
    bad = R.selftest()
    if bad:
        raise HarnessError("C12 template self-test failed (decoder disagrees with hand encoding): " + "; ".join(bad[:3]))
    rsclient.build()
    nsh = ctx.pick(32, 128)
    # (depth, full cross of periods?) -- quick: depth 3 x periods {0,2}; thorough: depth 3 x periods {0,1,2,3}
    # plus depth 4 x periods {0,2}
    enums = ctx.pick([(3, False)], [(3, True), (4, False)])
    tasks: List[Tuple[str, int, int, int, int, str]] = []
    for depth, full in enums:
        tasks += [("enum", i, nsh, ctx.seed, depth + 16 * int(full), ctx.tier) for i in range(nsh)]
    per = ctx.pick(50, 200)
    tasks += [("rand", i, nsh, ctx.seed, per, ctx.tier) for i in range(nsh)]
    per_c = ctx.pick(20, 60)
    tasks += [("contend", i, nsh, ctx.seed, per_c, ctx.tier) for i in range(nsh)]
    per_x = ctx.pick(20, 60)
    tasks += [("hexit", i, nsh, ctx.seed, per_x, ctx.tier) for i in range(nsh)]
    per_o = ctx.pick(8, 30)
    tasks += [("poweroff", i, nsh, ctx.seed, per_o, ctx.tier) for i in range(nsh)]
    per_s = ctx.pick(10, 40)
    tasks += [("stackinit", i, nsh, ctx.seed, per_s, ctx.tier) for i in range(nsh)]
    reports = ctx.pmap(_shard, tasks)
    rep = ctx.merge_reports(reports)
    rep.rule = RULE
    rep.assumptions = list(ASSUMPTIONS)
    rep.exhaustive = False
    rep.extra["enumeration"] = {"alphabet": [f"{k}:{a}" for k, a in enum_alphabet()],
                                "parts": [{"depth": d, "mti_periods": list(enum_dims(d, f)[0]), "initial_imr": [0x00, 0x8F],
                                           "handlers": ["RETI", "MV (ISR),00; RETI"],
                                           "scenarios_per_model": enum_count(d, f)} for d, f in enums],
                                "complete": True}
    rep.extra["random_scenarios_per_model"] = per * nsh
    rep.extra["contention_scenarios_per_model"] = per_c * nsh
    rep.extra["handler_exit_scenarios_per_model"] = per_x * nsh
    rep.extra["power_off_period_scenarios_per_model"] = per_o * nsh
    rep.extra["stack_set_up_scenarios_per_model"] = per_s * nsh
    rep.extra["configuration"] = {"python fast_mode": "1/3 of all scenarios", "rust batched step(n)": "an additional run "
                                  "for 1/4 of the enumerated/random scenarios and for every contention scenario",
                                  "batch sizes": sorted(set(BATCHES))}
    return rep


# ----------------------------------------------------------------------------------------------- replay / shrink
def replay(ctx: Ctx, case: Dict[str, Any]) -> List[Violation]:
    model = case["model"]
    sc = case["sc"]
    if model == "rs":
        rsclient.build()
    run = run_model(model, [sc])[0]
    vs, _ = verdicts(model, sc, run)
    return vs


def _has(ctx: Ctx, case: Dict[str, Any], key: str) -> bool:
    try:
        return any(v.key() == key for v in replay(ctx, case))
    except Exception:
        return False


def shrink(ctx: Ctx, v: Violation) -> Violation:
    """Greedy field-wise reduction keeping the fingerprint (bounded to ~25 s)."""
    t0 = time.time()
    key = v.key()
    best = json.loads(json.dumps(v.case))

    def attempt(cand: Dict[str, Any]) -> bool:
        nonlocal best
        if time.time() - t0 > 25:
            return False
        try:
            R.layout(cand["sc"]["prog"])
        except Exception:
            return False
        if _has(ctx, cand, key):
            best = cand
            return True
        return False

    def clone() -> Dict[str, Any]:
        return json.loads(json.dumps(best))

    import re as _re
    mm = _re.match(r"step (\d+):", v.detail or "")
    if mm:
        c0 = clone()
        c0["sc"]["steps"] = min(c0["sc"]["steps"], int(mm.group(1)) + 1)
        c0["sc"]["events"] = [e for e in c0["sc"]["events"] if e[0] < c0["sc"]["steps"]]
        attempt(c0)
    changed = True
    while changed and time.time() - t0 < 25:
        changed = False
        sc = best["sc"]
        # fewer steps
        for steps in (sc["steps"] // 2, sc["steps"] - 8, sc["steps"] - 1):
            if 1 <= steps < sc["steps"]:
                c = clone()
                c["sc"]["steps"] = steps
                c["sc"]["events"] = [e for e in c["sc"]["events"] if e[0] < steps]
                if attempt(c):
                    changed = True
                    break
        sc = best["sc"]
        for i in range(len(sc["events"]) - 1, -1, -1):
            c = clone()
            del c["sc"]["events"][i]
            if attempt(c):
                changed = True
        for part in ("handler", "main"):
            i = len(best["sc"]["prog"][part]) - 1
            while i >= 0:
                c = clone()
                del c["sc"]["prog"][part][i]
                if (part == "handler" or c["sc"]["prog"][part]) and attempt(c):
                    changed = True
                elif best["sc"]["prog"][part][i] != ["NOP"]:
                    c = clone()
                    c["sc"]["prog"][part][i] = ["NOP"]
                    if attempt(c):
                        changed = True
                i -= 1
        for field, val in (("sti", 0), ("mti", 0), ("isr0", 0), ("f0", 0), ("ba0", 0), ("i0", 1)):
            if best["sc"].get(field, val) != val:
                c = clone()
                c["sc"][field] = val
                if attempt(c):
                    changed = True
        if best["sc"]["prog"].get("hexit"):
            c = clone()
            del c["sc"]["prog"]["hexit"]
            if attempt(c):
                changed = True
        for field in ("px0", "py0", "bp0", "imfill", "kbirq", "fast", "batch", "stkwin", "s0"):
            if field in best["sc"]:
                c = clone()
                del c["sc"][field]
                if attempt(c):
                    changed = True
    vs = [x for x in replay(ctx, best) if x.key() == key]
    return vs[0] if vs else v
