"""C03 -- disassembly operands name exactly the locations the lifted IL touches.

For decoder-accepted encodings (every (prefix|none, opcode) pair, second byte from the opcode's legal set) and
generated machine states in which the six internal addressing modes denote pairwise different addresses, the
instruction is executed once on the Python emulator over a logging hash-filled memory.  The README-derived
reference (vp_harness/c03_refsem.py), driven only by the *rendered token stream*, says which memory bytes are
read (data + address formation) and written and which registers change; the logged callbacks (minus instruction
fetch) and the register deltas must match exactly.
"""

from __future__ import annotations

from typing import Any, Dict, List

from ..core import Ctx, Report, Violation
from .. import c03_core as K

PROPERTY = "C03"
SALT = 0xC03
RULE = ("valid encodings: cycle over all (prefix in {none + 15 PRE bytes}, opcode) pairs, second byte drawn from the "
        "set the decoder accepts for that opcode, remaining operand bytes random/boundary, followed by NOPs (1/2), another "
        "encoding of the same (prefix, opcode) (1/4) or any valid encoding (1/4); plus encoding grids: every MVL/MVLD "
        "(prefix, opcode, operand shape) with an internal block crossing (FF)->(00), every (prefix, opcode, mode byte) "
        "with [r3++]/[--r3] and r3 in FFFFD..FFFFF resp. 1..3, every MVL/MVLD/WAIT (prefix, opcode, operand shape) pair "
        "(seed-rotated walk) with a large iteration count I in FFh..FFFFh (1/3 boundary counts around 2^8, 2^12..2^15, "
        "BFFF/C000, FFFE/FFFF; 2/3 log-uniform), 1/4 of the register-pointed blocks ending at the top / starting at the "
        "bottom of the 1 MiB space; state: "
        "gen_state registers (pointers interior 7/8, boundary 1/8), I in 1..24 for counted forms (thorough: 1/6 of "
        "them 1..300 incl. 255/256/257), BP/PX/PY chosen so that (n),(BP+n),(PX+n),(PY+n),(BP+PX),(BP+PY) are "
        "pairwise distinct for every internal operand, [(n)] cells hold generated pointers, memory = address hash, the "
        "lifter's scratch registers TEMP0..TEMP13 hold generated junk at instruction entry in 1/2 of the cases. "
        "Non-trivial = the instruction has a memory operand and was judged (reference models it and does not skip); "
        "distinct = (prefix, opcode, operand modes, state hash).")

ASSUMPTIONS = [
    "text is the specification: operands are parsed from token kinds/punctuation only; names inside ( ) are mapped through the README internal memory map",
    "valid = accepted by the repository's decoder; the instruction is followed by NOPs or by another valid instruction (generated); the text is rendered from the instruction's own bytes + NOPs (the meaning of an encoding does not depend on the bytes after it: fusion() 'Bytes *after* instr1 ... must not affect instr1'); operands overlapping the 24 code bytes are skipped",
    "address-space: every data access of a judged case must use a raw address inside [0, ADDRESS_SPACE_SIZE) = 00000..FFFFF + 100000..1000FF (constants.py; the strict memory of test_llama_parity_misc raises IndexError outside, PCE500Memory maps everything >= 100000h to internal memory, so such an access is a different byte than the denoted one under both project memory models); denoted locations are inside by construction (inputs that would leave it are skipped), sets are still compared after pycore.canon()",
    "sets, not multisets, of addresses are compared (the evaluator re-reads cells); instruction fetch is excluded by switching the read log off during Emulator.decode_instruction (+ the one opcode re-read)",
    "multi-byte operands that run off internal memory (FF->00) or the 1 MiB space, pointer+offset outside 0..FFFFF, indirect pointers with bits 20-23 set: README silent -> skipped (MVL/MVLD internal wrap is asserted: maintainers' tests)",
    "MVL (n),[--r3] with I>=2: README row says destination increments, tests MVL_(02)_[--X]_I5_X2000 say it decrements -> either accepted",
    "MV r,[r++] with the same register as data and pointer, EX/counted forms rewriting BP/PX/PY while addressing through them: order undocumented -> skipped",
    "ADD/SUB register pairs outside the README opcode rows, MV/EX between registers of different size, JP/CMPW/CMPP with a register class the README does not list, IR, ??? : unmodelled, counted",
    "HALT/OFF/RESET/IR have no operands; their effects are C04's subject (skipped here)",
    "I = 0 for counted instructions is outside the quantifier (iteration counts >= 1)",
    "TEMP0..TEMP13 (lifter scratch registers, part of Registers.BASE, never reset between instructions, saved in snapshots) hold generated values at instruction entry in half of the cases: the statement quantifies over every machine state and the denoted locations are a function of operands + architectural registers only; verdicts that vanish with the TEMPs cleared are tagged",
    "iteration counts up to FFFFh are inside the quantifier (I is a 16-bit counter; 'the range implied by I'); large-count cases whose block leaves the 1 MiB space / covers the code bytes / rewrites BP,PX,PY while addressing through them are re-drawn (reference silent there, as before)",
]


def _counts(ctx: Ctx) -> Dict[str, int]:
    return {"shards": ctx.pick(16, 64), "per": ctx.pick(5000, 10000), "imax": ctx.pick(24, 300)}


ROUND4_RULE = (' Round 4 dimensions: every MVL/MVLD (prefix, opcode, operand shape) with I in 2..24 (1/4: 25..200) and BP/PX/PY solved so that the internal run of the destination (or the source) passes over one of the cells EC..EE with bytes still to copy; where the instruction sits: every (prefix, opcode) pair placed so that byte offset k of its encoding is the first byte of a new 64 KiB page (k cycling through 1..len-1, boundaries 10000h..F0000h), and 1/16 of all other cases at a page boundary (offset 0..len); what the emulator object did before: nothing (1/2), a valid instruction executed or only decoded (1/4), a fetch the decoder rejects (1/4; rejection class drawn uniformly from those the decoder exhibits: undefined mode/register, operand assertion, unfusable PRE), at the same address, next to it or elsewhere -- registers, memory and power state are then restored to the case.')

ROUND4_ASSUMPTIONS = [
    "block moves whose destination run passes over BP/PX/PY (EC..EE) while an operand is addressed through them are inside the domain: the README MVL rows latch both addresses before the loop ('d<-(n), s<-[r3]. Loop I times: [d++]<-[s++]'; '(m++) <- (n++)' abbreviates the same loop), a rendered operand denotes one start address (state at instruction entry) and 'the range implied by I' is the run of I consecutive bytes from it; EX*/EXL/arithmetic and decimal chains rewriting the cells stay skipped",
    "the instruction under test may sit anywhere in the code space, in particular with a 64 KiB page boundary between any two of its bytes: the text is what the disassembler shows for the bytes at consecutive addresses from the instruction's address (Binary Ninja hands get_instruction_text a linear byte string) and the next PC is address + length (property C05: 'an instruction that reports no branch always continues at address plus length'); jumps/calls/returns straddling a page stay skipped, the top of the 1 MiB space is not used (what follows FFFFF is undocumented)",
    "the Emulator object may have performed another operation before (valid instruction executed/decoded, rejected fetch via execute_instruction/decode_instruction, at the same or another address); afterwards registers incl. TEMPs, memory and power state are set to the case's machine state, so only the object's own non-architectural state differs from a fresh emulator -- the property quantifies over instruction x machine state, not over emulator histories; verdicts that vanish on a fresh emulator are tagged",
    "executed length != rendered length: values are not compared (C04 'length' verdict), the touched locations are still compared with the denoted ones",
]


ROUND5_RULE = (" Round 5 dimensions (C03 only): 'halted' grid -- every (prefix, opcode) pair with the core stopped at instruction entry: a HALT or OFF (1/4 under a PRE byte) was executed earlier on the same emulator at the same address / next to it / elsewhere and nothing woke the core (3/4; registers and memory are then put back to the case, the power state is the one the instruction left), or the halted state was restored from outside into a fresh emulator (1/4); 'coexec' grid -- every (prefix, opcode) pair with a second Emulator (own registers, own memory, own generated valid instruction and state) executing one instruction inside the k-th data read/write callback of the instruction under test (k = 0 1/2, 1..3 3/8, 4..11 1/8); non-trivial there = judged with a memory operand (coexec: label coexec:fired = the instruction made more than k data accesses).")

ROUND5_ASSUMPTIONS = [
    "the power state (Emulator.state.halted, set by HALT/OFF, cleared only by power_on_reset / the embedding machine) is part of the machine state the statement quantifies over; Emulator.execute_instruction is the IL execution engine ('executing its lifted IL'): asked to execute an accepted instruction it lifts and evaluates it in every power state -- waking the core is the caller's business (pce500 clears state.halted itself before stepping); verdicts that vanish with the core running are tagged",
    "two Emulator objects with their own Registers and Memory share no machine state: an instruction executed by one of them inside a memory callback of the other (synchronous co-simulation of a peripheral core) changes nothing the first one's operands denote; the nested instruction's own outcome (exceptions included) is not judged; verdicts that vanish without the nested execution are tagged; two host threads stepping two emulators are not generated (the re-entrant schedule is the deterministic representative)",
]


def run(ctx: Ctx) -> Report:
    c = _counts(ctx)
    tasks: List[Any] = [(PROPERTY, i, c["shards"], ctx.seed, c["per"], c["imax"], SALT) for i in range(c["shards"])]
    # boundary grids over encodings (c03_gen.focus_heads): block moves crossing the end of internal memory, and
    # [r3++] / [--r3] accesses that just fit at the top / bottom of the 1 MiB space
    fs = 8
    tasks += [(PROPERTY, i, fs, ctx.seed, ctx.pick(6, 24), 24, SALT, "blockwrap") for i in range(fs)]
    tasks += [(PROPERTY, i, fs, ctx.seed, ctx.pick(1, 4), 24, SALT, "ptr-edge") for i in range(fs)]
    # large iteration counts (c03_gen.big_count): few, slow cases -> many small tasks, scheduled first
    bs = ctx.pick(16, 64)
    tasks = [(PROPERTY, i, bs, ctx.seed, ctx.pick(5, 6), 24, SALT, "bigcount") for i in range(bs)] + tasks
    # block moves whose internal run passes over the BP/PX/PY cells with bytes still to copy (every MVL/MVLD head x
    # prefix), and every (prefix, opcode) placed so that each byte offset of its encoding starts a new 64 KiB page
    tasks += [(PROPERTY, i, fs, ctx.seed, ctx.pick(12, 32), 24, SALT, "overptr") for i in range(fs)]
    ps = 16
    tasks += [(PROPERTY, i, ps, ctx.seed, ctx.pick(3, 6), 24, SALT, "pagecross") for i in range(ps)]
    # Round 5.  The power state at instruction entry (the core was stopped by a HALT / OFF executed earlier on the same
    # emulator, or the halted state was restored from outside) and what the host does inside the memory callbacks (a
    # second emulator executes an instruction there): every (prefix, opcode) pair, `count` cases per pair
    hs = 16
    tasks += [(PROPERTY, i, hs, ctx.seed, ctx.pick(1, 4), 24, SALT, "halted") for i in range(hs)]
    tasks += [(PROPERTY, i, hs, ctx.seed, ctx.pick(2, 6), 24, SALT, "coexec") for i in range(hs)]
    K.GN.warm()
    rep = ctx.merge_reports(ctx.pmap(K.explore_shard, tasks))
    rep.rule = RULE + ROUND4_RULE + ROUND5_RULE
    rep.assumptions = list(ASSUMPTIONS) + list(ROUND4_ASSUMPTIONS) + list(ROUND5_ASSUMPTIONS)
    rep.exhaustive = False
    return rep


def replay(ctx: Ctx, case: Dict[str, Any]) -> List[Violation]:
    j = K.judge(case)
    if j.status != "ok":
        return []
    return K.violations_for(PROPERTY, case, j)


def shrink(ctx: Ctx, v: Violation) -> Violation:
    return K.shrink_case(PROPERTY, v)
