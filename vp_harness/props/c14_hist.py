"""C14 history oracle: invariants over an observed keyboard history (model independent).

Input: the configuration *read back from the object under test* (thresholds, polarity, queue capacity, initial
strobe registers) and, per operation, a normalised observation

    {"verb", "args", "ticks": [{"certain": bool, "events": [ {code, release, repeat|None}, ... ] | None}, ...],
     "fifo": [bytes after the op], "kil": int|None, "isr": int|None, "irq_enabled": bool|None,
     "consumed": bool (the op is an explicit consumption of the queue), "popped": int|None, "injected": bool}

Verbs: press / release / kol / koh / inject / consume / pop / scan / ttick / kil / peek / ..., plus "st" (an executed
store instruction; `strobes` = [[reg, byte], ...] the strobe-register writes it means, possibly empty), "ld" (an
executed load; `kil` present when it covers the key-input register) and "nop".  A record may carry "op" = index of
the operation it belongs to (one executed instruction can be cut into several records).

`ticks[i].certain` is False when the adapter cannot prove that the op performed a scan tick (Rust KIL read);
`events is None` means events of that tick are not observable (they were consumed inside the call).

This is deliberately NOT a copy of the debounce automaton.  Per key the oracle only keeps what the *history*
says: physically held or not, how many consecutive scan ticks it has been held on a strobed column (a lower
and an upper bound), how many ticks ago it was released, and which event of the grammar
`(press repeat* release)*` was seen last.  Every verdict is one of the clauses of the property statement:

  kil-safety      row bit shown  =>  a key of that row on a strobed column is held, or was released fewer than
                  release_threshold scan ticks ago (lower-bound tick count => permissive)
  kil-visibility  key held on a strobed column for >= press_threshold consecutive (certain) scan ticks and still
                  strobed  =>  row bit shown
  event-order     per key: press, repeat*, release in that order
  event-timing    press event only for a key held on a strobed column for >= press_threshold ticks (upper bound);
                  release event only after >= release_threshold ticks without (held and strobed) (upper bound);
                  a debounced press / a release must produce its event (lower bound tick counts)
  repeat-cadence  in a clean window (key continuously held and strobed, every tick certain, all events visible)
                  repeats come max(1, delay) ticks after the press event and max(1, interval) after a repeat
  fifo            length <= capacity; an enqueue leaves a suffix of (previous content + new events) and keeps at
                  least capacity-1 entries; nothing but scan ticks, injection and explicit consumption changes it
  keyi            ISR bit 2 rises only when the queue is non-empty and keyboard interrupts are enabled
"""

from __future__ import annotations

from typing import Any, Dict, List, Optional, Tuple

BIG = 1 << 20


class KeyHist:
    __slots__ = ("code", "col", "row", "held", "hold_lo", "hold_hi", "un_hi", "rel_lo", "g", "last", "since",
                 "clean", "redundant", "bounced", "ever_held", "rerelease")

    def __init__(self, code: int) -> None:
        self.code = code
        self.col = code >> 3
        self.row = code & 7
        self.held = False
        self.ever_held = False
        self.hold_lo = 0      # consecutive certain ticks held+strobed (reset by any possible interruption)
        self.hold_hi = 0      # consecutive ticks (certain or possible) held+strobed within the current hold
        self.un_hi = BIG      # consecutive ticks (certain or possible) NOT (held and strobed)
        self.rel_lo: Optional[int] = None  # certain ticks since the physical release (None while held/never)
        self.g = "idle"       # idle | pressed | unknown   (event grammar position)
        self.last: Optional[str] = None    # last event kind in the current pressed phase
        self.since = 0        # certain ticks since that event
        self.clean = False    # window since that event is clean (see module docstring)
        self.redundant = False  # a press op hit this key while it was already held (current hold)
        self.bounced = False    # key was physically released since its press event was seen
        self.rerelease = False  # a release op hit this key while it was already released and still debouncing

    def ctx(self) -> str:
        if self.rerelease:
            return " [after a repeated release of the already-released key]"
        if self.redundant:
            return " [after a repeated press of the already-held key]"
        if self.bounced:
            return " [key was released (and possibly pressed again) since its press event]"
        return ""


class Verdicts:
    """Collects (subcheck, op-verb, symptom, op-index, detail)."""

    def __init__(self) -> None:
        self.items: List[Tuple[str, str, str, int, str]] = []

    def add(self, subcheck: str, verb: str, symptom: str, idx: int, detail: str) -> None:
        self.items.append((subcheck, verb, symptom, idx, detail))


def strobed_columns(kol: int, koh: int, active_high: bool) -> set:
    word = (kol & 0xFF) | ((koh & 0xFF) << 8)
    cols = set()
    for c in range(16):
        bit = (word >> c) & 1
        if (bit == 1) == bool(active_high):
            cols.add(c)
    return cols


def judge(info: Dict[str, Any], ops: List[Dict[str, Any]]) -> Tuple[Verdicts, Dict[str, Any]]:
    """info: configuration read from the object; ops: normalised observations. Returns verdicts + history facts."""
    P = int(info["press_threshold"])
    R = int(info["release_threshold"])
    delay = int(info["repeat_delay"])
    interval = int(info["repeat_interval"])
    repeat_on = bool(info.get("repeat_enabled", True))
    cap = int(info["capacity"])
    active_high = bool(info["active_high"])
    koh_mask = int(info.get("koh_mask", 0xFF))
    kol = int(info["kol"])
    koh = int(info["koh"])
    fifo: List[int] = list(info.get("fifo", []))
    isr = info.get("isr")
    irq_enabled = info.get("irq_enabled")
    latched = bool(info.get("latched", False))  # TimerContext.key_irq_latched (pub field) as last observed
    latch_ctx = info.get("latch_ctx", " [timer key latch was still set from an earlier event]")
    # device configuration of the keyboard (as applied by the adapter; Rust only):
    #   wake_on_press  a new physical press puts one make event into the queue at once (IQ-7000: firmware parks the
    #                  strobes and waits for the key interrupt)
    #   tick_events    scan ticks mirror debounced transitions into the queue (off on the IQ-7000: the per-key event
    #                  grammar and its timing are then not asserted, only the queue accounting)
    wake_on_press = bool(info.get("wake_on_press", False))
    tick_events = bool(info.get("tick_events", True))
    irqc = info.get("irq_count")

    keys: Dict[int, KeyHist] = {}
    V = Verdicts()
    facts = {"press_events": 0, "release_events": 0, "repeat_events": 0, "row_share": False,
             "strobe_change_while_held": False, "overflow": False, "kil_nonzero": 0, "kil_reads": 0,
             "keyi_rises": 0, "ticks": 0, "max_fifo": 0, "lossy": 0, "redundant_press": 0, "chatter": 0,
             "redundant_release": 0, "cpu_strobe_stores": 0, "cpu_wide_strobe_stores": 0, "parked_release": 0,
             "keyi_clears": 0, "keyi_rerises": 0, "wake_events": 0, "injected": 0, "inject_fresh_press": 0,
             "full_queue": 0, "rejected_ops": 0, "imr_values": 0, "big_ticks": 0, "multi_event_ticks": 0,
             "observer_calls": 0, "observer_raises": 0, "observer_raises_in_tick": 0}
    seen_keyi = False
    imr_seen = set()
    over_len = cap              # longest over-capacity queue length already reported

    def key(code: int) -> KeyHist:
        k = keys.get(code)
        if k is None:
            k = keys[code] = KeyHist(code)
        return k

    def strobed() -> set:
        return strobed_columns(kol, koh & koh_mask, active_high)

    def note_row_share() -> None:
        rows: Dict[int, int] = {}
        for k in keys.values():
            if k.held:
                rows[k.row] = rows.get(k.row, 0) + 1
        if any(n >= 2 for n in rows.values()):
            facts["row_share"] = True

    for idx, op in enumerate(ops):
        verb = op["verb"]
        args = op.get("args", [])
        fifo_before = list(fifo)
        added: List[int] = []       # event bytes this op is known to have enqueued (in order)
        lossy_fifo = False          # queue content after the op cannot be predicted (consumption inside)

        # ---------------- physical / register operations ----------------
        if verb == "press":
            k = key(args[0])
            if wake_on_press and not k.held:
                added.append(args[0] & 0x7F)     # the wake event of a new physical press
                facts["wake_events"] += 1
            if k.held:
                k.redundant = True
                facts["redundant_press"] += 1
            else:
                if k.rel_lo is not None and k.rel_lo < R and k.g != "idle":
                    facts["chatter"] += 1
                k.held = True
                k.ever_held = True
                k.hold_lo = 0
                k.hold_hi = 0
                k.rel_lo = None
                k.clean = False
                k.rerelease = False
            note_row_share()
        elif verb == "release":
            k = key(args[0])
            if not k.held and k.rel_lo is not None and k.g != "idle":
                k.rerelease = True
                facts["redundant_release"] += 1
            if k.held:
                k.held = False
                k.rel_lo = 0
                k.hold_lo = 0
                k.hold_hi = 0
                k.clean = False
                k.redundant = False
                if k.g != "idle":
                    k.bounced = True
        elif verb in ("kol", "koh", "st"):
            # "st": a store instruction whose operand covers the strobe registers; op["strobes"] lists the
            # register writes it means byte by byte (possibly none, possibly both registers)
            writes = [(verb, args[0])] if verb != "st" else [(w[0], w[1]) for w in op.get("strobes", [])]
            if verb == "st" and writes:
                facts["cpu_strobe_stores"] += 1
                if op.get("wide"):
                    facts["cpu_wide_strobe_stores"] += 1
            before = strobed()
            for reg, val in writes:
                if reg == "kol":
                    kol = int(val) & 0xFF
                else:
                    koh = int(val) & 0xFF
            after = strobed()
            if before != after:
                for k in keys.values():
                    if k.held and ((k.col in before) != (k.col in after)):
                        facts["strobe_change_while_held"] = True
                    if k.col in before and k.col not in after:
                        k.hold_lo = 0
        elif verb == "inject":
            k = key(args[0])
            rel = bool(args[1])
            facts["injected"] += 1
            if not rel and not k.held:
                facts["inject_fresh_press"] += 1
            if rel:
                k.held = False
                k.rel_lo = 0
                k.g = "idle"
                k.clean = False
                k.last = None
            else:
                k.held = True
                k.ever_held = True
                k.rel_lo = None
                k.g = "pressed"
                k.last = "press"
                k.since = 0
                k.clean = True
                facts["press_events"] += 1
            k.hold_lo = 0
            k.hold_hi = 0
            k.redundant = False
            k.bounced = False
            k.rerelease = False
            added.append((args[0] & 0x7F) | (0x80 if rel else 0))
            note_row_share()

        elif verb == "bad":
            facts["rejected_ops"] += 1

        # host observers (coverage only): invocations / generated faults during this operation
        facts["observer_calls"] += int(op.get("observer_calls", 0))
        facts["observer_raises"] += int(op.get("observer_raises", 0))
        if op.get("observer_raises") and any(t.get("events") for t in op.get("ticks", [])):
            facts["observer_raises_in_tick"] += 1
        big_tick = False            # a tick of this op enqueued more events than the queue holds

        # ---------------- scan ticks performed by this op ----------------
        for tick in op.get("ticks", []):
            certain = bool(tick["certain"])
            events = tick.get("events")
            facts["ticks"] += 1
            n_ev = len(events) if events is not None else int(tick.get("n_events", 0))
            if n_ev >= 5:
                facts["multi_event_ticks"] += 1
            if n_ev > cap:
                facts["big_ticks"] += 1
                big_tick = True
            # a generated observer fault came out of this tick (the host caught it and carries on): whatever the
            # tick's verdicts are, they carry this context
            tctx = " [a host observer raised inside this scan tick]" if tick.get("observer_fault") else ""
            act = strobed()
            if not act and not any(k.held for k in keys.values()) and \
                    any(k.g == "pressed" and k.rel_lo is not None for k in keys.values()):
                facts["parked_release"] += 1   # coverage only: release debounce pending, strobes parked, nothing held
            for k in keys.values():
                hs = k.held and (k.col in act)
                if hs:
                    k.hold_hi += 1
                    if certain:
                        k.hold_lo += 1
                    k.un_hi = 0
                else:
                    k.hold_hi = 0
                    k.hold_lo = 0
                    k.un_hi = min(BIG, k.un_hi + 1)
                    k.clean = False
                if certain:
                    if not k.held and k.rel_lo is not None:
                        k.rel_lo += 1
                    k.since += 1
                else:
                    k.clean = False

            seen_this_tick = set()
            if events is None:
                # Events of this tick are invisible: narrow the grammar position from the tick bounds only.
                facts["lossy"] += 1
                for k in keys.values():
                    k.clean = False
                    hs = k.held and (k.col in act)
                    if k.g == "idle":
                        if not hs or k.hold_hi < P:
                            pass
                        elif k.hold_lo >= P and not k.redundant:
                            k.g = "pressed"
                            k.last = None
                        else:
                            k.g = "unknown"
                    elif k.g == "pressed":
                        if hs or k.un_hi < R:
                            pass
                        else:
                            k.g = "unknown"
                            k.last = None
            elif not tick_events:
                # configuration without event mirroring: whatever a tick enqueues is accounted for in the queue
                # clause only
                for ev in events:
                    added.append((ev["code"] & 0x7F) | (0x80 if ev["release"] else 0))
            else:
                for ev in events:
                    code = ev["code"] & 0x7F
                    rel = bool(ev["release"])
                    rep = ev.get("repeat")
                    added.append(code | (0x80 if rel else 0))
                    k = key(code)
                    hs = k.held and (k.col in act)
                    if code in seen_this_tick:
                        V.add("event-order", verb, "two events for one key in a single scan tick" + k.ctx(), idx,
                              f"key {code:#04x} got a second event in one tick")
                    seen_this_tick.add(code)
                    if rel:
                        facts["release_events"] += 1
                        if k.g == "idle":
                            V.add("event-order", verb, "release event without a preceding press event" + k.ctx(),
                                  idx, f"key {code:#04x}: release event while no press is outstanding")
                        elif k.un_hi < R:
                            V.add("event-timing", verb, "release event before the release interval elapsed" + k.ctx(),
                                  idx, f"key {code:#04x}: release event after {k.un_hi} tick(s) without "
                                       f"held+strobed, release_threshold={R}")
                        k.g = "idle"
                        k.last = None
                        k.clean = False
                        k.bounced = False
                        k.rerelease = False
                        continue
                    # non-release event: press or repeat
                    is_repeat = rep if rep is not None else (k.g == "pressed")
                    if k.g == "unknown":
                        # cannot tell press from repeat position; accept and resynchronise
                        k.g = "pressed"
                        k.last = None if rep is None else ("repeat" if is_repeat else "press")
                        k.since = 0
                        k.clean = hs
                        k.bounced = False
                        k.redundant = False
                        if is_repeat:
                            facts["repeat_events"] += 1
                        else:
                            facts["press_events"] += 1
                        continue
                    if not is_repeat:
                        facts["press_events"] += 1
                        if k.g == "pressed":
                            V.add("event-order", verb, "press event while already pressed (no release event between)"
                                  + k.ctx(), idx, f"key {code:#04x}: second press event")
                        elif not k.held:
                            V.add("event-timing", verb, "press event for a key that is not held" + k.ctx(), idx,
                                  f"key {code:#04x}")
                        elif k.col not in act:
                            V.add("event-timing", verb, "press event for a key on an unstrobed column" + k.ctx(), idx,
                                  f"key {code:#04x} col {k.col} strobed={sorted(act)}")
                        elif k.hold_hi < P:
                            V.add("event-timing", verb, "press event before the debounce interval elapsed" + k.ctx(),
                                  idx, f"key {code:#04x}: held+strobed for {k.hold_hi} tick(s), "
                                       f"press_threshold={P}")
                        k.g = "pressed"
                        k.last = "press"
                        k.since = 0
                        k.clean = hs
                        k.bounced = False
                    else:
                        facts["repeat_events"] += 1
                        if k.g == "idle":
                            V.add("event-order", verb, "repeat event without a preceding press event" + k.ctx(), idx,
                                  f"key {code:#04x}")
                            k.g = "pressed"
                        elif not repeat_on:
                            V.add("event-order", verb, "press event while already pressed (no release event between)"
                                  + k.ctx(), idx, f"key {code:#04x}: second make event, repeats are switched off")
                        elif not hs:
                            V.add("repeat-cadence", verb, "repeat event for a key that is not held on a strobed column"
                                  + k.ctx(), idx, f"key {code:#04x}")
                        elif k.clean and k.last is not None:
                            want = max(1, delay) if k.last == "press" else max(1, interval)
                            if k.since != want:
                                which = "first repeat after the press event" if k.last == "press" else \
                                    "repeat after a repeat"
                                early = "early" if k.since < want else "late"
                                V.add("repeat-cadence", verb, f"{which} comes {early}" + k.ctx(), idx,
                                      f"key {code:#04x}: {k.since} tick(s) after the previous event, configured "
                                      f"{'delay' if k.last == 'press' else 'interval'}={want}")
                        k.last = "repeat"
                        if rep is None and (k.bounced or k.redundant):
                            # no repeat flag on this model: after a bounce / repeated press this make event may
                            # as well be a fresh press event -- do not derive the next cadence from it
                            k.last = None
                            k.bounced = False
                            k.redundant = False
                        k.since = 0
                        k.clean = hs

            # liveness at certain ticks with visible events
            if certain and events is not None and tick_events:
                for k in keys.values():
                    if k.code in seen_this_tick:
                        continue
                    if k.g == "idle" and k.held and k.hold_lo >= P:
                        V.add("event-timing", verb, "no press event although the key was held for the debounce interval"
                              + k.ctx() + tctx, idx, f"key {k.code:#04x}: held+strobed {k.hold_lo} certain ticks, "
                                              f"press_threshold={P}")
                        k.g = "unknown"
                        k.last = None
                        k.clean = False
                    elif k.g == "pressed" and (not k.held) and k.rel_lo is not None and k.rel_lo >= R:
                        V.add("event-timing", verb, "no release event within the release interval after the release "
                                                    "of a debounced key" + (k.ctx() if k.rerelease else "") + tctx, idx,
                              f"key {k.code:#04x}: released {k.rel_lo} certain ticks ago, release_threshold={R}")
                        k.g = "unknown"
                        k.last = None
                        k.clean = False
                        k.bounced = False
                    elif (k.g == "pressed" and k.clean and k.last is not None and repeat_on and interval > 0):
                        want = max(1, delay) if k.last == "press" else max(1, interval)
                        if k.since >= want:
                            which = "first repeat after the press event" if k.last == "press" else \
                                "repeat after a repeat"
                            V.add("repeat-cadence", verb, f"{which} missing" + k.ctx() + tctx, idx,
                                  f"key {k.code:#04x}: {k.since} clean tick(s) since the previous event, configured "
                                  f"{'delay' if k.last == 'press' else 'interval'}={want}")
                            k.clean = False

        if any(t.get("observer_fault") for t in op.get("ticks", [])):
            # an exception came out of a scan tick: how far the tick got is unknown, so after its own verdicts the
            # grammar position of every key is resynchronised (one root cause, not a trail of follow-up verdicts)
            for k in keys.values():
                k.g = "unknown"
                k.last = None
                k.clean = False

        # ---------------- queue ----------------
        fifo = list(op["fifo"])
        facts["max_fifo"] = max(facts["max_fifo"], len(fifo))
        if len(fifo) >= cap:
            facts["full_queue"] += 1
        if len(fifo) <= cap:
            over_len = cap
        elif len(fifo) > over_len:
            # reported at the operation that made the queue (more) over-long, not again at every later operation
            over_len = len(fifo)
            V.add("fifo", verb, "queue longer than its capacity", idx, f"len={len(fifo)} capacity={cap}")
        av = op.get("adapter_violation")
        if av:
            V.add(av[0], verb, av[1], idx, av[2])
        if op.get("consumed"):
            if op.get("popped", "absent") != "absent":
                want_pop = fifo_before[0] if fifo_before else None
                if op["popped"] != want_pop or fifo != fifo_before[1:]:
                    V.add("fifo", verb, "pop does not remove exactly the oldest entry", idx,
                          f"before={fifo_before} popped={op['popped']} after={fifo}")
            elif verb == "consume":
                if fifo:
                    V.add("fifo", verb, "explicit consumption leaves entries behind", idx, f"after={fifo}")
            # a consuming read may leave anything that is within capacity
        elif any(t.get("events") is None for t in op.get("ticks", [])):
            # the tick's events cannot be read off the queue; but when the tick reported more new events than the
            # queue holds, only the oldest may have gone: the queue is full afterwards
            if big_tick and tick_events and len(fifo) < cap - 1:
                V.add("fifo", verb, "entries dropped although the queue was not full", idx,
                      f"a tick enqueued more than {cap} events, after={fifo} capacity={cap}")
        else:
            total = fifo_before + added
            if added:
                if len(total) > len(fifo):
                    facts["overflow"] = True
                ok_suffix = (len(fifo) <= len(total)) and (fifo == total[len(total) - len(fifo):])
                if not ok_suffix:
                    sym = "queue after enqueue is not (old content minus oldest entries) + new events"
                    if fifo and added and fifo[-1] != added[-1] and fifo == fifo_before:
                        sym = "newest event dropped instead of the oldest"
                    V.add("fifo", verb, sym, idx, f"before={fifo_before} added={added} after={fifo}")
                elif len(fifo) < min(len(total), cap - 1):
                    V.add("fifo", verb, "entries dropped although the queue was not full", idx,
                          f"before={fifo_before} added={added} after={fifo} capacity={cap}")
            elif fifo != fifo_before:
                V.add("fifo", verb, "queue content changed by an operation that neither scans nor consumes", idx,
                      f"before={fifo_before} after={fifo}")

        # ---------------- KIL read ----------------
        if op.get("kil") is not None:
            val = int(op["kil"]) & 0xFF
            facts["kil_reads"] += 1
            if val:
                facts["kil_nonzero"] += 1
            act = strobed()
            allowed = 0
            required = 0
            req_keys: Dict[int, KeyHist] = {}
            for k in keys.values():
                if k.col not in act:
                    continue
                if k.held or (k.rel_lo is not None and k.rel_lo < R):
                    allowed |= 1 << k.row
                if k.held and k.hold_lo >= P:
                    required |= 1 << k.row
                    req_keys.setdefault(k.row, k)
            extra = val & ~allowed & 0xFF
            if extra:
                rows = [r for r in range(8) if (extra >> r) & 1]
                src = [k for k in keys.values() if k.row in rows and k.col in act]
                row_keys = [k for k in keys.values() if k.row in rows]
                if any(k.rerelease for k in src):
                    why = ("the key of that row was released at least the release interval ago"
                           " [after a repeated release of the already-released key]")
                elif any(k.ever_held for k in src):
                    why = "the key of that row was released at least the release interval ago"
                elif any(k.held for k in row_keys):
                    why = "a held key of that row sits on an unstrobed column"
                elif any(k.ever_held for k in row_keys):
                    why = "a released key of that row sits on an unstrobed column"
                else:
                    why = "no key of that row was ever touched"
                V.add("kil-safety", verb, f"row bit shown although {why}", idx,
                      f"kil={val:#04x} allowed={allowed:#04x} strobed={sorted(act)} rows={rows}")
            missing = required & ~val & 0xFF
            if missing:
                r0 = [r for r in range(8) if (missing >> r) & 1][0]
                kk = req_keys[r0]
                V.add("kil-visibility", verb, "row bit clear although a key of that row on a strobed column has been "
                      "held for the debounce interval" + kk.ctx(), idx,
                      f"kil={val:#04x} required={required:#04x} key {kk.code:#04x} held+strobed {kk.hold_lo} "
                      f"certain ticks, press_threshold={P}")

        # ---------------- KEYI ----------------
        if op.get("isr") is not None:
            new_isr = int(op["isr"])
            en = op.get("irq_enabled", irq_enabled)
            if isr is not None and (new_isr & 4) and not (int(isr) & 4):
                facts["keyi_rises"] += 1
                if seen_keyi:
                    facts["keyi_rerises"] += 1   # a rise after firmware (or an acknowledge) had cleared the bit
                seen_keyi = True
                sfx = latch_ctx if latched else ""
                # an adapter that sees inside the operation says whether an event was pending at any observed point
                # of it (an executed instruction may raise the request and consume the queue in one step)
                pending = op.get("pending_seen")
                if pending is None:
                    pending = bool(fifo)
                if not en:
                    V.add("keyi", verb, "KEYI raised while keyboard interrupts are disabled" + sfx, idx,
                          f"isr {int(isr):#04x}->{new_isr:#04x} fifo={fifo}")
                elif not pending:
                    V.add("keyi", verb, "KEYI raised while no event is pending" + sfx, idx,
                          f"isr {int(isr):#04x}->{new_isr:#04x} fifo=[]")
            elif isr is not None and (int(isr) & 4) and not (new_isr & 4):
                facts["keyi_clears"] += 1
            isr = new_isr
            irq_enabled = en
            latched = bool(op.get("latched", False))

        # ---------------- interrupt-request counter (Rust: KeyboardMatrix::irq_count) ----------------
        if op.get("irq_count") is not None:
            new_c = int(op["irq_count"])
            visible = all(t.get("events") is not None for t in op.get("ticks", []))
            if irqc is not None and visible and verb != "consume" and new_c - int(irqc) > len(added):
                V.add("keyi", verb, "more key-interrupt requests counted than events enqueued by the operation", idx,
                      f"irq_count {int(irqc)}->{new_c}, events enqueued={len(added)}")
            irqc = new_c
        if op.get("imr") is not None and op["imr"] not in imr_seen:
            imr_seen.add(op["imr"])
            facts["imr_values"] = len(imr_seen)

    facts["keys"] = len(keys)
    return V, facts
