"""C07 helper (round 5): execution entry point x earlier, finished use of the crate's async machinery on the thread.

The Rust crate executes instructions through two public entry points: `CoreRuntime::step(n)` and
`AsyncRuntimeRunner::run_instructions(n)` (async_runtime.rs, built on the cooperative `AsyncDriver` / `block_on` of
async_driver.rs, which keeps its clock, wake-up request and pending event in *thread-locals*).  The statement - "two
fresh emulators given identical inputs produce identical traces ... regardless of what executed before ... earlier
emulator instances in the same process" - has to hold for either entry point, whatever the thread did before with the
crate's public machinery.

Generated dimensions
  * the probe: a C12 machine scenario (ROM program, timers, IMR/ISR), the entry point (step / async runner), the
    partition of the run into calls, the runner's slice length, one runner for all calls vs a new runner per call;
  * the history that ran - and FINISHED - on the same thread before the probe's machine was even created:
    block_on() of unrelated futures (display frames emitting a generated DriverEvent, plain sleeps, a timer task of
    another machine), earlier AsyncDriver instances with display / cpu / timer tasks that are dropped with whatever
    tasks and queued events they still hold, earlier AsyncRuntimeRunner instances on other machines, earlier
    CoreRuntime::step runs.  Event ids: MaxCycles, small ids 0..3, ids below 64, arbitrary u32.
Oracle: the same probe on a brand-new thread on which nothing ran (rust/harness/src/machine_c07.rs, verb
machine.c07_entry; both threads are created and joined inside the case).  Compared after every call: the call's
result (Ok + reported counts / Err text) and the machine observation (registers, F, IMR/ISR, power, counters, timer
deadlines, irq state, stack window; after the last call also the whole IMEM and a hash of external memory).
Nothing is asserted about the two entry points agreeing with each other.
"""

from __future__ import annotations

from typing import Any, Dict, List, Optional, Tuple

from ..core import HarnessError, Report, Violation, jhash
from ..gen_state import Stream
from .. import rsclient

TOTAL = 16
SUBCHECK = "entry-history"
ENTRY_NAME = {"step": "CoreRuntime::step", "async": "AsyncRuntimeRunner::run_instructions"}

_CLASSES = [
    ("registers", ("pc", "s", "f", "ba", "i", "x", "y", "u")),
    ("memory", ("imem", "ext", "stk", "im")),
    ("IMR/ISR", ("imr", "isr")),
    ("irq-state", ("irq", "inint", "pend", "lat", "src")),
    ("timing", ("ic", "cyc", "nm", "ns")),
    ("power", ("pw",)),
]


def _partition(st: Stream, total: int) -> List[int]:
    k = st.below(3)
    if k == 0 or total < 3:
        return [total]
    if k == 1:
        a = 1 + st.below(total - 1)
        return [a, total - a]
    a = 1 + st.below(total - 2)
    b = 1 + st.below(total - a - 1)
    return [a, b, total - a - b]


def _event(st: Stream) -> int:
    k = st.below(8)
    if k == 0:
        return -1                      # DriverEvent::MaxCycles
    if k <= 4:
        return st.below(4)             # small ids: what a component would pick for its private signals
    if k <= 6:
        return st.below(64)
    return st.u32()


def _display(st: Stream) -> List[Any]:
    return [1 + st.below(6), st.choice([1, 1, 1, 2, 3]), _event(st)]


def _history_op(st: Stream) -> List[Any]:
    k = st.below(10)
    if k <= 2:
        return ["block_on_display"] + _display(st)
    if k == 3:
        return ["block_on_sleep", st.below(20)]
    if k == 4:
        return ["block_on_timer", 1 + st.below(40)]
    if k <= 6:
        tasks: List[List[Any]] = []
        for _ in range(1 + st.below(3)):
            t = st.below(4)
            if t <= 1:
                tasks.append(["display"] + _display(st))
            elif t == 2:
                tasks.append(["cpu", 1 + st.below(12)])
            else:
                tasks.append(["timer", 1 + st.below(20)])
        budgets = [1 + st.below(12) for _ in range(1 + st.below(3))]
        return ["driver", st.choice([0, 0, 5, 1000]), tasks, budgets]
    if k <= 8:
        return ["runner", st.choice([1, 1, 3, 100, 10000]), _partition(st, 1 + st.below(TOTAL))]
    return ["step", 1 + st.below(20)]


def gen_case(st: Stream) -> Dict[str, Any]:
    from . import c12 as C12

    sc, skel = C12.random_scenario(st)
    sc["events"] = []
    sc["steps"] = TOTAL
    kind = "async" if st.chance(3, 5) else "step"
    entry: Dict[str, Any] = {"kind": kind, "parts": _partition(st, TOTAL)}
    if kind == "async":
        entry["slice"] = st.choice([1, 1, 2, 3, 7, 100, 10000])
        entry["rebuild"] = st.chance(1, 4)
    nops = 0 if st.chance(1, 12) else 1 + st.below(4)
    history = [_history_op(st) for _ in range(nops)]
    return {"kind": SUBCHECK, "scenario": sc, "skel": skel, "entry": entry, "history": history}


def _labels(c: Dict[str, Any]) -> List[str]:
    out = ["kind:" + SUBCHECK, "eh-entry:" + c["entry"]["kind"], f"eh-history-ops:{len(c['history'])}"]
    final_emit = small = False
    for op in c["history"]:
        out.append("eh-op:" + op[0])
        if op[0] == "block_on_display":
            final_emit = True
            small = small or 0 <= op[3] <= 3
        if op[0] == "driver":
            for t in op[2]:
                out.append("eh-driver-task:" + t[0])
    if final_emit:
        out.append("eh:block_on-future-emits-in-completing-poll")
        if c["entry"]["kind"] == "async":
            out.append("eh:async-entry-after-completing-poll-emit")
    if small:
        out.append("eh:block_on-event-id-0..3")
    return sorted(set(out))


def _first_diff(ref: Dict[str, Any], sub: Dict[str, Any]) -> Optional[Tuple[int, str, str]]:
    rc, sc = ref.get("calls", []), sub.get("calls", [])
    if len(rc) != len(sc):
        return (min(len(rc), len(sc)), "call result", f"{len(rc)} calls on the pristine thread, {len(sc)} after the history")
    for i, (a, b) in enumerate(zip(rc, sc)):
        if a.get("res") != b.get("res"):
            return (i, "call result", f"call {i}: pristine thread {a.get('res')} / after history {b.get('res')}; "
                                      f"ic {a['obs'].get('ic')} / {b['obs'].get('ic')}, pc {a['obs'].get('pc')} / {b['obs'].get('pc')}")
        oa, ob = a.get("obs", {}), b.get("obs", {})
        bad = [k for k in sorted(set(oa) | set(ob)) if oa.get(k) != ob.get(k)]
        if bad:
            cls = next((name for name, ks in _CLASSES if any(k in ks for k in bad)), "other")
            return (i, cls, f"call {i}: fields {','.join(bad)}: " +
                    "; ".join(f"{k} pristine={str(oa.get(k))[:40]} after-history={str(ob.get(k))[:40]}" for k in bad[:4]))
    return None


def check_cases(cases: List[Dict[str, Any]]) -> List[Tuple[Dict[str, Any], List[Violation], bool]]:
    from .. import c12_rsmachine as RS

    reqs = []
    for c in cases:
        base = RS.request_of(c["scenario"])
        reqs.append({"base": base, "entry": c["entry"], "history": c["history"]})
    resp = rsclient.shared().call({"cmd": "machine.c07_entry", "cases": reqs}, retry=True)
    if not resp.get("ok"):
        raise HarnessError(f"machine.c07_entry failed: {str(resp)[:300]}")
    out = []
    for c, res in zip(cases, resp["results"]):
        if res.get("err"):
            raise HarnessError(f"machine.c07_entry setup failed: {res['err']}")
        vs: List[Violation] = []
        d = _first_diff(res["ref"], res["sub"])
        if d is not None:
            i, cls, detail = d
            vs.append(Violation(
                SUBCHECK,
                f"rs-machine: fresh CoreRuntime driven through {ENTRY_NAME[c['entry']['kind']]}",
                f"after earlier, finished async-driver / emulator activity on the thread the run differs from the same run on a pristine thread: {cls}",
                c, f"history {c['history']}; entry {c['entry']}; {detail}; history notes {res['sub'].get('hist')}"))
        calls = res["ref"].get("calls", [])
        executed = bool(calls) and int(calls[-1]["obs"].get("ic", 0)) > 0
        out.append((c, vs, executed and bool(c["history"])))
    return out


def run_shard(seed: int, shard: int, n: int) -> Report:
    rep = Report()
    cases = [gen_case(Stream(seed, 0xC07E, shard, i)) for i in range(n)]
    B = 32
    for i in range(0, len(cases), B):
        for c, vs, nt in check_cases(cases[i:i + B]):
            for v in vs:
                rep.violate(v)
            rep.case("eh:" + jhash([c["scenario"], c["entry"], c["history"]]) if nt else None, _labels(c),
                     {"kind": SUBCHECK, "entry": c["entry"], "history": c["history"]} if rep.evaluations % 97 == 5 else None)
    return rep


def replay_case(case: Dict[str, Any]) -> List[Violation]:
    return [v for _c, vs, _nt in check_cases([case]) for v in vs]


def shrink(v: Violation) -> Violation:
    """Smaller witness with the same fingerprint: shortest suffix of the history, then a single op, then one call."""
    key = v.key()
    case = v.case

    def same(cand: Dict[str, Any]) -> Optional[Violation]:
        try:
            for w in replay_case(cand):
                if w.key() == key:
                    return w
        except Exception:
            return None
        return None

    best = v
    hist = case.get("history") or []
    for op in hist:
        w = same(dict(case, history=[op]))
        if w is not None:
            best = w
            break
    else:
        for k in range(len(hist) - 1, 0, -1):
            w = same(dict(case, history=hist[k:]))
            if w is not None:
                best = w
                break
    c2 = best.case
    if len(c2["entry"]["parts"]) > 1:
        w = same(dict(c2, entry=dict(c2["entry"], parts=[sum(c2["entry"]["parts"])])))
        if w is not None:
            best = w
    return best
