"""C07 helper: reference runs in a process that has never executed anything else.

Python: a *zygote* is forked from the shard worker before the worker executes any emulator/decoder code.  The
zygote itself never runs the code under test; for every request it forks a grandchild that runs the given
fresh cases (pycore.run_case semantics: one fresh Emulator per case) and reports the steps.  So every batch is
answered by a process whose module-level state (caches, registries, counters) is as after import.

Rust: a brand-new harness process per batch (see rust_pristine()).

Both are only *references* for the metamorphic comparison in c07.py; they contain no semantics.
"""

from __future__ import annotations

import json
import os
import struct
from typing import Any, Dict, List, Optional

from ..core import HarnessError
from .. import rsclient


def _read_exact(fd: int, n: int) -> bytes:
    buf = b""
    while len(buf) < n:
        chunk = os.read(fd, n - len(buf))
        if not chunk:
            return b""
        buf += chunk
    return buf


def _send(fd: int, obj: Any) -> None:
    data = json.dumps(obj, separators=(",", ":")).encode()
    data = struct.pack("<I", len(data)) + data
    while data:
        n = os.write(fd, data)
        data = data[n:]


def _recv(fd: int) -> Optional[Any]:
    hdr = _read_exact(fd, 4)
    if not hdr:
        return None
    (n,) = struct.unpack("<I", hdr)
    body = _read_exact(fd, n)
    if len(body) != n:
        return None
    return json.loads(body)


class PyPristine:
    """Fork-server answering 'run these fresh cases in a process that has not executed anything yet'."""

    def __init__(self, runner_name: str = "py_run") -> None:
        self.runner_name = runner_name
        req_r, req_w = os.pipe()
        res_r, res_w = os.pipe()
        pid = os.fork()
        if pid == 0:
            # ---- zygote: never executes code under test ----
            try:
                os.close(req_w)
                os.close(res_r)
                while True:
                    req = _recv(req_r)
                    if req is None:
                        break
                    gpid = os.fork()
                    if gpid == 0:
                        try:
                            os.close(req_r)
                            from . import c07 as _c07

                            fn = getattr(_c07, self.runner_name)
                            out = [fn(c) for c in req]
                            _send(res_w, {"ok": True, "results": out})
                        except BaseException as exc:  # noqa: BLE001
                            try:
                                _send(res_w, {"ok": False, "error": f"{type(exc).__name__}: {exc}"})
                            except BaseException:
                                pass
                        finally:
                            os._exit(0)
                    os.waitpid(gpid, 0)
            finally:
                os._exit(0)
        os.close(req_r)
        os.close(res_w)
        self.pid = pid
        self.req_w = req_w
        self.res_r = res_r
        self.owner = os.getpid()

    def run(self, cases: List[Dict[str, Any]]) -> List[List[Dict[str, Any]]]:
        _send(self.req_w, cases)
        resp = _recv(self.res_r)
        if resp is None or not resp.get("ok"):
            raise HarnessError(f"C07 pristine python runner failed: {resp}")
        return resp["results"]

    def close(self) -> None:
        if os.getpid() != self.owner:
            return
        for fd in (self.req_w, self.res_r):
            try:
                os.close(fd)
            except OSError:
                pass
        try:
            os.waitpid(self.pid, 0)
        except OSError:
            pass


def rust_pristine(cases: List[Dict[str, Any]]) -> List[Dict[str, Any]]:
    """Run the given cpu.run requests in a brand-new harness process (fresh sessions, keep=False)."""
    reqs = [dict(c, sess=f"pr{i}", keep=False, stop_on_halt=False) for i, c in enumerate(cases)]
    last: Optional[HarnessError] = None
    for _ in range(3):  # the box is shared: a harness killed from outside is re-run (requests are self-contained)
        try:
            with rsclient.Rust() as r:
                return r.cpu_batch(reqs)
        except HarnessError as exc:
            last = exc
            if "died" not in str(exc) and "pipe failed" not in str(exc):
                raise
    assert last is not None
    raise last
