"""C04 -- the lifted IL computes the documented result and flags for every operand value.

(a) complete (a, b, carry-in) enumeration of the 8-bit ALU/BCD/shift operations through their value paths
    (vp_harness/c04_enum.py; thorough: all 2^17 triples per binary operation, quick: seeded 1/16 slice + boundary grid);
(b) random exploration over all valid encodings x generated states (same generator as C03), covering the other
    encodings of each mnemonic, 16/20/24-bit forms, counted forms with I in 1..N, stack and jump forms and the
    frame condition; the bytes that follow the instruction (NOPs / same opcode / other instruction) are generated;
(b'') encoding grids (c03_gen.focus_heads): MVL/MVLD blocks crossing the end of internal memory, [r3++]/[--r3]
    accesses that just fit at the top / bottom of the 1 MiB space.
Oracle: vp_harness/c03_refsem.py (README tables) driven by the rendered text; destination values, C/Z only where
the README flags column says affected and preservation otherwise, F bits 2..7, pointer/counter side effects, stack
bytes, every other register unchanged, no write outside the documented set, halted only for HALT/OFF.
"""

from __future__ import annotations

from typing import Any, Dict, List

from ..core import Ctx, Report, Violation
from .. import c03_core as K
from .. import c04_enum as E
from .. import c04_ctx as X

PROPERTY = "C04"
SALT = 0xC04
RULE = ("(a) for each of 14 binary 8-bit operations (ADD/SUB/ADC/SBC/AND/OR/XOR/CMP/TEST A,n; ADCL/SBCL/DADL/DSBL (m),(n) "
        "with I=1; PMDF (m),n) every (a,b,carry-in) in 256x256x2 (quick: seeded 1/16 slice + boundary grid), for 13 unary "
        "forms (ROR/ROL/SHR/SHL/SWAP A, INC/DEC A, ROR/ROL/SHR/SHL/INC/DEC (n)) every (a,carry-in); (b') boundary grids: "
        "ADD/SUB over every README-documented register pair, INC/DEC r, CMPW/CMPP (m),(n)|(m),r, the other 8-bit encodings "
        "((m),n; A,(n); (n),A; (m),(n); [lmn],n) on {00,01,0F,10,7F,80,99,9A,F0,FF}^2 x carry; (b) all (prefix, opcode) "
        "pairs x generated states as in C03 (I in 1..24, thorough 1/6 up to 300; BCD operands planted for DADL/DSBL; "
        "carry-chain patterns 00/FF/99); the instruction is followed by NOPs (1/2), by another encoding of the same "
        "(prefix, opcode) with fresh operand bytes (1/4) or by any valid encoding (1/4) -- the decoder looks one "
        "instruction ahead; (b'') encoding grids: every MVL/MVLD (prefix, opcode, operand shape) with I in 2..24 and an "
        "internal block crossing (FF)->(00), every (prefix, opcode, mode byte) with a [r3++]/[--r3] operand with r3 in "
        "FFFFD..FFFFF resp. 1..3 (access just fits at the top/bottom of the 1 MiB space), every MVL/MVLD/WAIT (prefix, opcode, "
        "operand shape) pair (seed-rotated walk) with a large iteration count I in FFh..FFFFh (1/3 boundary counts around "
        "2^8, 2^12..2^15, BFFF/C000, FFFE/FFFF; 2/3 log-uniform); in 1/2 of the cases of every part the lifter's scratch "
        "registers TEMP0..TEMP13 hold generated junk at instruction entry. Non-trivial = the reference run produces a carry/borrow, a zero result, a pointer "
        "pre/post update, a stack transfer, a taken/not-taken conditional branch or a multi-byte chain/block with I>=2; "
        "distinct = (operation, a, b, carry) for (a), (prefix, opcode, kinds, state hash) for (b).")

ASSUMPTIONS = [
    "reference = README tables read through the rendered text (c03_refsem.py); valid = decoder-accepted",
    "the instruction may be followed by another valid instruction; the text that drives the reference is rendered from the instruction's own bytes + NOPs (the meaning of an encoding does not depend on the bytes after it: fusion() 'Bytes *after* instr1 ... must not affect instr1'); verdicts that vanish with NOPs behind the instruction carry the tag [depends on the following instruction]",
    "X,Y,U,S,PC compared modulo 2^20 (README says 24 bits, Registers/PC_MASK 20); ADD r3 / INC r3: C = carry out of bit 19, Z from the 20-bit result (maintainers' tests test_add_regpair_20bit_carry_and_zero, test_inc_reg3_x_wraps_20bit; all r3 alike as in the README rows)",
    "address-space: every data access of a judged case must use a raw address inside [0, ADDRESS_SPACE_SIZE) = 00000..FFFFF + 100000..1000FF (constants.py; the strict memory of test_llama_parity_misc raises IndexError outside, PCE500Memory maps everything >= 100000h to internal memory); the reference never denotes a location outside it (such inputs are skipped), locations/values are still compared after pycore.canon()",
    "SWAP: Z asserted, C not (README 'o o' vs test SWAP_A_non_zero_FC_unaffected); HALT/OFF: C/Z not asserted (README 'Undefined')",
    "DADL with carry-in = 1 not asserted (README '+C' vs tests NoCarryIn); DADL/DSBL only on packed-BCD operands; DADL/DSBL (n),A: first byte A then 00 (tests DADL_(m)_A_I2_*)",
    "DSLL/DSRL with I>=2: either the maintainers' compute_expected_dsll/dsrl helpers or a true one-digit decimal shift is accepted; I=1 both coincide",
    "PMDF: plain 8-bit add, flags preserved (code FIXME; README one line)",
    "PUSHU/PUSHS F: only bits 0,1 of the stored byte asserted; POPU/POPS F, RETI: C,Z restored, F bits 2..7 not asserted",
    "POPU IL / ADD IL,.. / INC IL: IH not asserted (README IH<-0 note exists only on MV rows)",
    "MVP (k),lmn: third byte compared on its low nibble (text shows 20 bits, README says byte l)",
    "RESET: only LCC bit 7, UCR, USR bits, SCR asserted; IMR/ISR/SSR writes tolerated, PC and reads not asserted (vector address is C06/C17's subject); IR unmodelled",
    "WAIT: I = 0, nothing else (a prefixed WAIT runs the IL loop: small I in the random exploration, the full 16-bit range in the large-count grid)",
    "skipped (README silent): operands running off internal memory / the 1 MiB space, pointer used as data register with ++/--, self-modifying BP/PX/PY in multi-step forms, partially overlapping EX operands, stack pointer wrap, jumps straddling/leaving the 64 KiB page, I = 0 for counted forms",
    "when the IL touches other locations than the text denotes (C03 failure) values are not compared; the case is reported once as operand-location:*",
    "TEMP0..TEMP13 (lifter scratch registers, part of Registers.BASE, never reset between instructions, saved in snapshots) hold generated values at instruction entry in half of the cases of every part: the documented result/flags are a function of the architectural inputs only (any instruction history leaves such values behind); verdicts that vanish with the TEMPs cleared are tagged",
    "iteration counts up to FFFFh are inside 'all iteration counts of at least one' (I is a 16-bit counter); large-count MVL/MVLD/WAIT cases for which the reference is silent (block leaves the 1 MiB space / covers the code bytes / rewrites BP,PX,PY while addressing through them) are re-drawn",
]


ROUND4_RULE = (' Round 4 dimensions: every MVL/MVLD (prefix, opcode, operand shape) with I in 2..24 (1/4: 25..200) and BP/PX/PY solved so that the internal run of the destination (or the source) passes over one of the cells EC..EE with bytes still to copy; where the instruction sits: every (prefix, opcode) pair placed so that byte offset k of its encoding is the first byte of a new 64 KiB page (k cycling through 1..len-1, boundaries 10000h..F0000h), and 1/16 of all other cases at a page boundary (offset 0..len); what the emulator object did before: nothing (1/2), a valid instruction executed or only decoded (1/4), a fetch the decoder rejects (1/4; rejection class drawn uniformly from those the decoder exhibits: undefined mode/register, operand assertion, unfusable PRE), at the same address, next to it or elsewhere -- registers, memory and power state are then restored to the case.')

ROUND4_ASSUMPTIONS = [
    "block moves whose destination run passes over BP/PX/PY (EC..EE) while an operand is addressed through them are inside the domain: the README MVL rows latch both addresses before the loop ('d<-(n), s<-[r3]. Loop I times: [d++]<-[s++]'; '(m++) <- (n++)' abbreviates the same loop), a rendered operand denotes one start address (state at instruction entry) and 'the range implied by I' is the run of I consecutive bytes from it; EX*/EXL/arithmetic and decimal chains rewriting the cells stay skipped",
    "the instruction under test may sit anywhere in the code space, in particular with a 64 KiB page boundary between any two of its bytes: the text is what the disassembler shows for the bytes at consecutive addresses from the instruction's address (Binary Ninja hands get_instruction_text a linear byte string) and the next PC is address + length (property C05: 'an instruction that reports no branch always continues at address plus length'); jumps/calls/returns straddling a page stay skipped, the top of the 1 MiB space is not used (what follows FFFFF is undocumented)",
    "the Emulator object may have performed another operation before (valid instruction executed/decoded, rejected fetch via execute_instruction/decode_instruction, at the same or another address); afterwards registers incl. TEMPs, memory and power state are set to the case's machine state, so only the object's own non-architectural state differs from a fresh emulator -- the property quantifies over instruction x machine state, not over emulator histories; verdicts that vanish on a fresh emulator are tagged",
    "executed length != rendered length: values are not compared (C04 'length' verdict), the touched locations are still compared with the denoted ones",
]


ROUND5_RULE = (" Round 5 dimensions (c04_ctx): 'tail' -- every (prefix, opcode) pair (quick x2, thorough x8) followed by a generated byte string the decoder does NOT accept (rejection class drawn uniformly from those the decoder exhibits -- undefined mode/register, operand-decoder assertion, unfusable PRE --, head uniform inside the class, with/without PRE bytes in front; 1/8 plain generated bytes), labels tail:*; non-trivial = judged (tail-judged:*). 'entry' -- every (prefix, opcode) pair (quick x2, thorough x8) through CPUStepper(default_memory_value=f).step / CPU.step_snapshot(..., default_memory_value=f) with f in {00, FF, boundary byte, any} and a sparse image (code window, BP/PX/PY, pointer cells, planted operands listed; the other bytes the instruction touches listed for none / all / half of them, holding 00 / f / boundary byte / generated byte), A/BA = 00 or f in 3/8; observation = result registers + result image read with image.get(addr, f); labels entry:*, fill:*, image:*, store:<00|fill|other>@<listed|unlisted>; non-trivial = entry-nt:* (documented store of 00 resp. of f to a byte not listed in the image).")

ROUND5_ASSUMPTIONS = [
    "the bytes behind the instruction under test may be ANY bytes, including encodings the decoder rejects: they are never executed and the documented meaning of an encoding does not depend on them (fusion(): 'Bytes *after* instr1 that fail to decode must not affect instr1'); the case carries the length of the encoding under test, so a decoder that rejects it only in that context keeps the case inside the domain",
    "CPUStepper.step / CPU.step_snapshot are entry points of the property (properties.jsonl observe_at: 'Registers and memory image after Emulator.execute_instruction / CPUStepper.step'; stepper.py: 'executes a single instruction using the existing Emulator implementation, and returns an updated snapshot together with the side effects'): memory before = image.get(addr, default_memory_value), memory after = result.memory_image.get(addr, default_memory_value) -- the stepper's own reading rule (_SnapshotMemory._read_byte), also what a chained step sees; locations = result.memory_writes plus every address whose image value changed; reads and the power state are not exposed by these entry points and are not compared there; verdicts that vanish when the same registers/memory go through Emulator.execute_instruction are tagged [depends on the entry point]",
]


def run(ctx: Ctx) -> Report:
    ns = 64
    den = ctx.pick(16, 1)
    tasks_a = [("enum", (i, ns, ctx.seed, den)) for i in range(ns)]
    shards = ctx.pick(16, 64)
    per = ctx.pick(2500, 6000)
    imax = ctx.pick(24, 300)
    tasks_b = [("explore", (PROPERTY, i, shards, ctx.seed, per, imax, SALT)) for i in range(shards)]
    # interleave so that the long enumeration shards and the exploration shards share the pool evenly
    tasks: List[Any] = [("grid", (i, 8, ctx.seed)) for i in range(8)]
    # boundary grids over encodings (c03_gen.focus_heads): block moves crossing the end of internal memory, and
    # [r3++] / [--r3] accesses that just fit at the top / bottom of the 1 MiB space
    fs = 8
    tasks += [("explore", (PROPERTY, i, fs, ctx.seed, ctx.pick(6, 24), 24, SALT, "blockwrap")) for i in range(fs)]
    tasks += [("explore", (PROPERTY, i, fs, ctx.seed, ctx.pick(1, 4), 24, SALT, "ptr-edge")) for i in range(fs)]
    # large iteration counts (c03_gen.big_count): few, slow cases -> many small tasks, scheduled first
    bs = ctx.pick(16, 64)
    tasks = [("explore", (PROPERTY, i, bs, ctx.seed, ctx.pick(5, 6), 24, SALT, "bigcount")) for i in range(bs)] + tasks
    # block moves whose internal run passes over the BP/PX/PY cells with bytes still to copy (every MVL/MVLD head x
    # prefix), and every (prefix, opcode) placed so that each byte offset of its encoding starts a new 64 KiB page
    tasks += [("explore", (PROPERTY, i, fs, ctx.seed, ctx.pick(12, 32), 24, SALT, "overptr")) for i in range(fs)]
    ps = 16
    tasks += [("explore", (PROPERTY, i, ps, ctx.seed, ctx.pick(3, 6), 24, SALT, "pagecross")) for i in range(ps)]
    # round 5: generated bytes behind the instruction (the decoder's rejection classes included), every (prefix, opcode)
    ts = 16
    tasks += [("tail", (PROPERTY, i, ts, ctx.seed, ctx.pick(2, 8), 24, SALT)) for i in range(ts)]
    # round 5: the snapshot entry points (CPUStepper.step / CPU.step_snapshot) over sparse images with a generated fill
    tasks += [("entry", (PROPERTY, i, ts, ctx.seed, ctx.pick(2, 8), 24, SALT)) for i in range(ts)]
    K.GN.warm()
    for i in range(max(len(tasks_a), len(tasks_b))):
        if i < len(tasks_a):
            tasks.append(tasks_a[i])
        if i < len(tasks_b):
            tasks.append(tasks_b[i])
    rep = ctx.merge_reports(ctx.pmap(_dispatch, tasks))
    rep.rule = RULE + ROUND4_RULE + ROUND5_RULE
    rep.assumptions = list(ASSUMPTIONS) + list(ROUND4_ASSUMPTIONS) + list(ROUND5_ASSUMPTIONS)
    rep.exhaustive = False              # only part (a) is a finite space; parts (b),(b') sample the state dimension
    rep.extra["part_a_operand_triples_complete"] = not ctx.quick
    return rep


def _dispatch(task: Any) -> Report:
    kind, t = task
    if kind == "enum":
        return E.enum_shard(t)
    if kind == "grid":
        return E.grid_shard(t)
    if kind == "tail":
        return X.tail_shard(t)
    if kind == "entry":
        return X.entry_shard(t)
    return K.explore_shard(t)


def replay(ctx: Ctx, case: Dict[str, Any]) -> List[Violation]:
    j = K.judge(case)
    if j.status != "ok":
        return []
    return K.violations_for(PROPERTY, case, j)


def shrink(ctx: Ctx, v: Violation) -> Violation:
    return K.shrink_case(PROPERTY, v)
